"""C13 - all ways of reading the same source deliver the same data."""
import io
import json
import os
import re
import shutil
import tempfile
from fractions import Fraction

from common import time_limit, hex6, unhex6, Timeout
from gen import c13docs
from gen import c13keys

ID = "C13"
GEN_DEPENDS = ["C13Keys"]
RULE = ("grammar-generated Newick and NEXUS documents (0-4 TREES blocks, TITLE/LINK, TRANSLATE, TAXA block, character, SETS-class and "
        "unknown blocks in between, comments at every capture position, [&R]/[&U], [&W], metadata comments, blank nodes, "
        "quoted/underscored/case-variant labels) x reader options (rooting, weights, metadata, underscores, taxa "
        "suppression); every third document is followed by a second source of the same layout and every third by a second NEXUS "
        "source with a layout of its own (no TAXA block, new taxa, TRANSLATE or not), read through every several-source route; every "
        "fourth by a document with a character block and a SETS block of CHARSET statements (ranges, steps, single positions, ALL first / "
        "last / middle / absent) in front of TREES blocks whose trees carry hyphens in lengths, labels and comments; "
        "four source-keyword combinations per document (data/string/file/stream/path, two keywords, none, no schema, missing path, "
        "get and read); TreeArray.read with and without burn-in and weights; NeXML documents written from them; thorough adds every "
        "document of a small grammar; non-trivial = at least 2 trees or at least 2 tree blocks in the source")
MODELLED_NOT_VERIFIED = [
    "C13: the Lean front ends are hand-written from NewickReader.tree_iter/_read, NewickTreeDataYielder._yield_items_from_stream, "
    "NexusReader._parse_nexus_stream/_parse_trees_block/_parse_taxa_block/_parse_tree_statement/_parse_translate_statement, "
    "NexusTreeDataYielder._yield_items_from_stream/_yield_from_trees_block, Tree/TreeList._parse_and_create_from_stream, "
    "DataYielder.__iter__, TreeArray.add_tree/validate_rooting/read_from_files/read; tied to the code by the per-document comparison "
    "of every route's output, and (tie A) by Gen/C13Keys.lean: the block-name dispatch of both stream loops, the statement keywords / "
    "end tokens of both TREES-block loops and the source-keyword tables are regenerated from the source on every run and bridged to "
    "the model by theorems (reader_block_dispatch_table, yielder_block_dispatch_table, front_end_copies_agree, "
    "trees_block_tables_as_modelled; the source dispatch of the model RUNS on the regenerated tables)",
    "C13: the model reads the token stream produced by the real NexusTokenizer (text, quoted flag, captured comments, end-of-input flag); "
    "the tokenizer itself, float() of lengths and weights, and parse_comment_metadata_to_annotations are applied on the Python side to both",
    "C13: NeXML routes (ElementTree) and CharacterMatrix.get vs DataSet are compared on the implementation only (oracle), not modelled; "
    "a parsed CHARACTERS/SETS block is a statement skeleton in the model (the matrix parser is C09's); a tree array entry is the tree "
    "itself (its split/edge-length tuples are C01's/C05's and are tied to the tree by the oracle); opening a path / URL is a look-up in "
    "an abstract world (url= is not exercised); trees delivered by the iterator BEFORE an error in the same file (and what an array "
    "keeps of them) are not modelled: a failing read is just the error",
    "C13: one taxon namespace per call in the model (documents with at most one TAXA block); case-sensitive namespaces and non-ASCII labels are not modelled",
]
EXPLANATION = ("Theorems (Props/C13.lean, about the definitions drv_c13 runs; the shared tree-statement parser is never unfolded): "
               "newick_reader_eq_yielder, trees_block_reader_eq_yielder (the separately written iterator loops deliver exactly what the reader "
               "loops put into one list: same trees, order, namespace, errors; unconditional), reader_eq_yielder (whole NEXUS stream, full "
               "equality, SETS/ASSUMPTIONS/CODONS blocks INCLUDED although the reader scans over them and the iterator skips them statement by "
               "statement: a stuttering simulation, Theory/C13Sets.lean; hypothesis setsClean = the skipped statements hold no token BEGIN and "
               "do not run into the end of input; executable, driver op setsclean, evaluated on every generated NEXUS document, share in "
               "input_distribution), yield_eq_list_newick, yield_eq_attached_list_nexus (route level, full equality with the attached reader), "
               "attached_reader_simulates (the reader with an attached namespace reproduces every successful run of the reader without one, "
               "Theory/C13Sim.lean; one direction by design), yield_eq_list_nexus (route level, both sides as the driver runs them: whenever "
               "TreeList.get reads the source, Tree.yield_from_files delivers the same trees and namespace labels; one direction - the converse "
               "is a listed known finding), dataset_blocks_eq / dataset_eq_lists (DataSet.get at the REAL differing settings - it parses "
               "character and SETS-class blocks, the tree routes skip them - delivers the same collections; second simulation, "
               "Theory/C13Chars.lean, hypothesis charsClean, driver op charsclean; a parsed block is its statement skeleton), "
               "stream_step_consumes + streamLoopR_check_dead / streamLoopY_check_dead (every turn of the block loop consumes a token or ends "
               "at end of input, through every block parser, Theory/C13Mono.lean: the run-time progress checks of both stream loops are dead "
               "code), whole_eq_flatten, incremental_eq_whole, incremental_collection, readMany_prefix, "
               "yield_files_eq_successive_reads_newick (Tree.yield_from_files([a,b,..]) = successive TreeList.read calls, any number of Newick "
               "sources), yield_eq_list_nexus_labels + yield_files_eq_successive_reads_nexus (the NEXUS counterpart, both sides as the driver runs "
               "them: whenever successive TreeList.read calls - a new non-attached reader per call - read the sources, the ONE attached iterator "
               "with per-file reset delivers the same trees file after file and the same labels; hypothesis filesClean = setsClean per file; one "
               "direction, success only), yield_files_append, array_add_trees_spec (add_trees records every tree in order with the weight rule and refuses "
               "exactly a differing rooting state), array_read_eq_list_then_add_newick / _nexus (TreeArray.read = TreeList.get into the "
               "array's namespace followed by add_trees past the burn-in), array_files_append (read_from_files over several sources = "
               "successive calls), array_keeps_entries, burn_in_spec, source_dispatch_irrelevant / source_keyword_exactly_one / "
               "source_missing_path / source_tables_coherent (string = stream = path; decided on the REGENERATED keyword tables, which the "
               "model's dispatch runs on), front_end_copies_agree, trees_block_tables_as_modelled, streamStepR_by_kind + "
               "reader_block_dispatch_table, streamStepY_by_kind + yielder_block_dispatch_table (the block dispatch of both model loops is "
               "the table regenerated from the source), offset_spec / offset_neg_spec / offset_default / offset_list_spec / "
               "offset_list_default / offsets_enumerate_whole / tree_get_label (Python indexing incl. negative offsets; label= touches nothing "
               "but the name), newickStmt_progress / nexusTreeStmt_progress and the four *_check_dead theorems over them, treesLoopR_check_dead / "
               "treesLoopY_check_dead / taxaLoop_check_dead / translateLoop_never_stuck (Theory/C13Dead.lean: those loops' run-time progress "
               "checks are dead code too), namespace_only_grows / _yield / _routes / _files + earlier_taxa_keep_their_place (shared namespace "
               "across calls: every route only APPENDS taxa, through the shared tree-statement parser, TAXLABELS, TRANSLATE and every block "
               "loop, Theory/C13NsMono.lean - so a tree read earlier stays attached to the same taxa whatever is read later). "
               "Still re-checking progress at run time (a `stuck` answer would be a disagreement, never observed): the child loop inside the "
               "tree-statement parser. NOT proved: idempotence of a shared namespace (a second read of the same source from the namespace the "
               "first one left delivers the same trees on the same taxa) - oracle and correspondence only; the converse direction of the "
               "NEXUS iterator theorems (fails by design on several TAXA blocks); NeXML. "
               "Generated documents avoid three input classes listed as known findings; their witnesses are replayed on every run.")

ROUTE_TIMEOUT = 20


# ------------------------------------------------------------------------------------------ canonical records
def frac(x):
    if x is None:
        return None
    return str(Fraction(x))


def annots(item):
    out = []
    for a in item.annotations:
        v = a.value
        if isinstance(v, (list, tuple)):
            v = [str(x) for x in v]
        elif not isinstance(v, (bool, type(None))):
            v = str(v)
        out.append([str(a.name), v])
    out.sort(key=lambda p: json.dumps(p))
    return out


class TaxKey(object):
    """how a taxon is rendered: its label, and its position (by identity) in the namespace shared by the calls, if any"""

    def __init__(self, shared_ns=None):
        self.ns = shared_ns
        self.pos = None

    def __call__(self, taxon):
        if taxon is None:
            return None
        if self.ns is None:
            return [taxon.label, None]
        if self.pos is None or len(self.pos) != len(self.ns._taxa):
            self.pos = {id(t): i for i, t in enumerate(self.ns._taxa)}
        return [taxon.label, self.pos.get(id(taxon), -1)]


def node_rec(nd, tk):
    # iterative post-order assembly to survive deep trees
    return [tk(nd.taxon), nd.label, frac(nd.edge.length), [str(c) for c in nd.comments], annots(nd),
            [getattr(nd.edge, "label", None), annots(nd.edge)],
            [node_rec(c, tk) for c in nd._child_nodes]]


def tree_rec(tree, tk):
    return {"name": tree.label, "rooted": tree.is_rooted, "weight": frac(tree.weight),
            "comments": [str(c) for c in tree.comments], "annots": annots(tree), "root": node_rec(tree.seed_node, tk)}


def first_diff(a, b, path="tree"):
    if type(a) != type(b):
        return "%s: %r vs %r" % (path, a, b)
    if isinstance(a, dict):
        for k in sorted(set(a) | set(b)):
            if a.get(k) != b.get(k):
                return first_diff(a.get(k), b.get(k), path + "." + k)
    if isinstance(a, list):
        if len(a) != len(b):
            return "%s: %d vs %d items (%s | %s)" % (path, len(a), len(b), json.dumps(a)[:120], json.dumps(b)[:120])
        for i, (x, y) in enumerate(zip(a, b)):
            if x != y:
                return first_diff(x, y, "%s[%d]" % (path, i))
    return "%s: %r vs %r" % (path, a, b)


def strip_ident(rec):
    def go(n):
        return [None if n[0] is None else [n[0][0], None]] + n[1:6] + [[go(c) for c in n[6]]]
    return dict(rec, root=go(rec["root"]))


def classify(a, b):
    """which clause two differing tree records violate: only the taxon objects differ (same labels), only the tree's name, or more"""
    if isinstance(a, dict) and isinstance(b, dict):
        if strip_ident(a) == strip_ident(b):
            return "taxon-identity"
        if dict(a, name=None) == dict(b, name=None):
            return "tree-name"
    return "route"


CRASHES = (TypeError, AttributeError, IndexError, KeyError, NameError, ZeroDivisionError, RecursionError, AssertionError)


def is_refusal(e):
    """a deliberate refusal of a source: the documented error class of the readers (DataParseError and its subclasses,
    incl. the tokenizer's) or another exception raised by library code (the NeXML reader raises plain `Exception`s, ElementTree
    its ParseError); NOT a TypeError / AttributeError / IndexError / KeyError ... escaping from inside the reader"""
    from dendropy.utility import error
    if isinstance(e, error.DataParseError):
        return True
    return not isinstance(e, CRASHES)


def err_name(e):
    from dendropy.utility import error
    if isinstance(e, error.DataParseError):
        return "parse"
    if isinstance(e, (IndexError, ValueError)):
        return "offset"          # nothing at the requested offsets; the exception class is not part of the statement
    return "Internal(%s)" % type(e).__name__


# ------------------------------------------------------------------------------------------ the routes on the real code
class Source(object):
    """one text, offered as string, stream and path"""

    def __init__(self, text, tmpdir):
        self.text = text
        self.tmpdir = tmpdir
        self._path = None

    def path(self):
        if self._path is None:
            fd, p = tempfile.mkstemp(dir=self.tmpdir, suffix=".txt")
            with os.fdopen(fd, "w", newline="") as f:
                f.write(self.text)
            self._path = p
        return self._path

    def kw(self, how):
        if how == "data":
            return {"data": self.text}
        if how == "file":
            return {"file": io.StringIO(self.text)}
        return {"path": self.path()}

    def as_file_arg(self, how):
        return io.StringIO(self.text) if how != "path" else self.path()


class Routes(object):
    def __init__(self, dendropy, src, schema, opts, shared):
        self.d = dendropy
        self.src = src
        self.schema = schema
        self.opts = dict(opts)
        self.ns = dendropy.TaxonNamespace() if shared else None
        self.tk = TaxKey(self.ns)

    def _kw(self, how="data", **extra):
        k = dict(self.opts)
        k.update(self.src.kw(how))
        k["schema"] = self.schema
        if self.ns is not None:
            k["taxon_namespace"] = self.ns
        k.update(extra)
        return k

    def recs(self, trees, tk=None):
        return [tree_rec(t, tk or self.tk) for t in trees]

    def tree_list(self, how="data", **extra):
        return self.recs(self.d.TreeList.get(**self._kw(how, **extra)))

    def tree(self, how="data", **extra):
        return tree_rec(self.d.Tree.get(**self._kw(how, **extra)), self.tk)

    def dataset_blocks(self, how="data", via_read=False):
        k = self._kw(how)
        if via_read:
            ds = self.d.DataSet()
            if self.ns is not None:
                ds.attach_taxon_namespace(self.ns)
                k.pop("taxon_namespace")
            ds.read(**k)
        else:
            ds = self.d.DataSet.get(**k)
        return [self.recs(tl) for tl in ds.tree_lists], ds

    def yielded(self, how="file"):
        k = dict(self.opts)
        if self.ns is not None:
            k["taxon_namespace"] = self.ns
        trees = list(self.d.Tree.yield_from_files(files=[self.src.as_file_arg(how)], schema=self.schema, **k))
        tk = self.tk
        if self.ns is None and trees:
            tk = TaxKey(None)
        return self.recs(trees, tk), trees

    def incremental(self, ncoll):
        """read the collections one by one into one existing list"""
        tl = self.d.TreeList(taxon_namespace=self.ns) if self.ns is not None else self.d.TreeList()
        counts = []
        for c in range(ncoll):
            k = self._kw("data", collection_offset=c)
            k.pop("taxon_namespace", None)
            counts.append(tl.read(**k))
        return self.recs(tl), counts


def leaf_label_sets(tree):
    """independent walk: for every node the frozenset of leaf taxon labels below it, with the edge length"""
    out = []

    def go(nd):
        if not nd._child_nodes:
            s = frozenset([id(nd.taxon)]) if nd.taxon is not None else frozenset()
        else:
            s = frozenset()
            for c in nd._child_nodes:
                s = s | go(c)
        out.append((s, nd.edge.length))
        return s
    allset = go(tree.seed_node)
    return out, allset


def split_table_from_tree(tree):
    """{bipartition of the leaf taxa: total length of the edges inducing it} - the unrooted/rooted split content of the tree"""
    entries, allset = leaf_label_sets(tree)
    table = {}
    for s, ln in entries:
        key = s if tree.is_rooted else frozenset([s, allset - s])
        table[key] = table.get(key, Fraction(0)) + (Fraction(0) if ln is None else Fraction(ln))
    return table


def split_table_from_array(ta, i, rooted, allset_ids):
    """per-tree record of the array through its public accessors (`len`, `get_split_bitmask_and_edge_tuple`);
    allset_ids: the leaf taxa of the tree (for the complement of an unrooted split)"""
    ns = ta.taxon_namespace
    bit_taxon = {}
    for t in ns._taxa:
        bit_taxon[ns.accession_index(t)] = id(t)

    def members(mask):
        s, b = set(), 0
        while mask:
            if mask & 1:
                s.add(bit_taxon.get(b, ("?", b)))
            mask >>= 1
            b += 1
        return frozenset(s)
    allset = frozenset(allset_ids)
    splits, lengths = ta.get_split_bitmask_and_edge_tuple(i)
    table = {}
    for split, ln in zip(splits, lengths):
        s = members(split)
        key = s if rooted else frozenset([s, allset - s])
        table[key] = table.get(key, Fraction(0)) + (Fraction(0) if ln is None else Fraction(ln))
    return table


def matrix_rec(cm):
    rows = []
    for taxon in cm:
        rows.append([taxon.label, cm[taxon].symbols_as_string()])
    return {"label": cm.label, "type": cm.data_type, "rows": rows}


# ------------------------------------------------------------------------------------------ oracle: pairwise route comparison
class Case(object):
    def __init__(self, ctx, doc, mode):
        self.ctx = ctx
        self.doc = doc
        self.mode = mode
        self.nfail = 0

    def replay(self, route, **extra):
        r = {"schema": self.doc["schema"], "text": self.doc["text"], "opts": self.doc["opts"], "mode": self.mode, "route": route}
        r.update(extra)
        return r

    def fail(self, kind, route, what, **extra):
        self.nfail += 1
        self.ctx.fail(kind, "%s [%s, %s namespace]: %s" % (route, self.doc["schema"], self.mode, what), self.replay(route, **extra))

    def same(self, route, got, want, against="TreeList.get", **extra):
        """got / want: lists of tree records"""
        if got == want:
            return True
        if len(got) != len(want):
            self.fail("route", route, "delivers %d trees, %s delivers %d" % (len(got), against, len(want)), **extra)
            return False
        for i, (a, b) in enumerate(zip(got, want)):
            if a != b:
                self.fail(classify(a, b), route, "tree %d differs from %s: %s" % (i, against, first_diff(a, b)), **extra)
                return False
        return False

    def attempt(self, route, fn, **extra):
        """run a route that must succeed because the reference route succeeded on the same text"""
        try:
            with time_limit(ROUTE_TIMEOUT):
                return fn()
        except Timeout:
            self.fail("route-error", route, "does not finish within %d s although TreeList.get reads the source" % ROUTE_TIMEOUT, **extra)
            return None
        except Exception as e:
            self.fail("route-error", route, "raises %s (%s) although TreeList.get reads the source" % (type(e).__name__, str(e)[:150]), **extra)
            return None


def check_tree_routes(ctx, dendropy, doc, mode, tmpdir, full=True):
    """all tree routes on one document in one namespace mode; returns (ok, reference records, block structure) or None if the
    document is not readable by the reference route"""
    schema, text, opts = doc["schema"], doc["text"], doc["opts"]
    src = Source(text, tmpdir)
    R = Routes(dendropy, src, schema, opts, mode == "shared")
    case = Case(ctx, doc, mode)
    try:
        with time_limit(ROUTE_TIMEOUT):
            ref = R.tree_list("data")
    except Timeout:
        case.fail("route-error", "TreeList.get", "does not finish within %d s" % ROUTE_TIMEOUT)
        return None, "timeout"
    except Exception as e:
        if not is_refusal(e):
            case.fail("crash", "TreeList.get", "fails with %s (%s): not a parse error raised by the reader but an exception escaping from "
                      "inside it" % (type(e).__name__, str(e)[:150]))
        return None, err_name(e)
    # (c) string = stream = path
    for how in ("file", "path"):
        got = case.attempt("TreeList.get(%s=)" % how, lambda: R.tree_list(how))
        if got is not None:
            case.same("TreeList.get(%s=)" % how, got, ref, "TreeList.get(data=)")
    # data set
    blocks = None
    for via_read in (False, True):
        name = "DataSet.read" if via_read else "DataSet.get"
        r = case.attempt(name, lambda: R.dataset_blocks("data", via_read))
        if r is None:
            continue
        b, ds = r
        flat = [t for bl in b for t in bl]
        case.same(name, flat, ref)
        if blocks is None:
            blocks = b
        elif [len(x) for x in b] != [len(x) for x in blocks]:
            case.fail("route", name, "collections of sizes %s, DataSet.get gives %s" % ([len(x) for x in b], [len(x) for x in blocks]))
    if blocks is None:
        return case, ref, None
    if schema == "nexus":
        # the data set route told to skip character and SETS blocks: the same trees again
        def ds_excl():
            k = R._kw("data", exclude_chars=True)
            ds = dendropy.DataSet.get(**k)
            return [t for tl in ds.tree_lists for t in R.recs(tl)]
        got = case.attempt("DataSet.get(exclude_chars=True)", ds_excl)
        if got is not None:
            case.same("DataSet.get(exclude_chars=True)", got, ref)
    if full:
        for how in ("file", "path"):
            r = case.attempt("DataSet.get(%s=)" % how, lambda: R.dataset_blocks(how))
            if r is not None:
                case.same("DataSet.get(%s=)" % how, [t for bl in r[0] for t in bl], ref)
    # single tree by offsets: every (c, k)
    hows = ["data", "file", "path"]
    n = 0
    for c, bl in enumerate(blocks):
        for k, want in enumerate(bl):
            how = hows[n % 3] if full else "data"
            n += 1
            name = "Tree.get(collection_offset=%d, tree_offset=%d)" % (c, k)
            got = case.attempt(name, lambda: R.tree(how, collection_offset=c, tree_offset=k), coll=c, tree=k)
            if got is not None and got != want:
                case.fail(classify(got, want), name, "differs from tree %d of collection %d of the data set: %s" % (k, c, first_diff(got, want)), coll=c, tree=k)
            if full and (c + k) % 3 == 0:
                cn, kn = c - len(blocks), k - len(bl)
                name = "Tree.get(collection_offset=%d, tree_offset=%d)" % (cn, kn)
                got = case.attempt(name, lambda: R.tree("data", collection_offset=cn, tree_offset=kn), coll=cn, tree=kn)
                if got is not None and got != want:
                    case.fail(classify(got, want), name, "differs from tree %d of collection %d: %s" % (k, c, first_diff(got, want)), coll=cn, tree=kn)
    nonempty = [bl for bl in blocks if bl]
    if blocks and blocks[0]:
        got = case.attempt("Tree.get()", lambda: R.tree("data"))
        if got is not None and got != blocks[0][0]:
            case.fail(classify(got, blocks[0][0]), "Tree.get()", "differs from the first tree of the source: %s" % first_diff(got, blocks[0][0]))
        got = case.attempt("Tree.get(label=)", lambda: R.tree("data", label="given"))
        if got is not None:
            want = dict(blocks[0][0], name="given")
            if got != want:
                case.fail(classify(got, want), "Tree.get(label=)", "differs from the first tree renamed: %s" % first_diff(got, want))
    # sub-lists by offsets
    for c, bl in enumerate(blocks):
        name = "TreeList.get(collection_offset=%d)" % c
        got = case.attempt(name, lambda: R.tree_list("data", collection_offset=c), coll=c)
        if got is not None:
            case.same(name, got, bl, "collection %d of the data set" % c, coll=c)
        ks = range(len(bl)) if full else range(min(len(bl), 1))
        for k in ks:
            name = "TreeList.get(collection_offset=%d, tree_offset=%d)" % (c, k)
            got = case.attempt(name, lambda: R.tree_list("data", collection_offset=c, tree_offset=k), coll=c, tree=k)
            if got is not None:
                case.same(name, got, bl[k:], "trees %d.. of collection %d" % (k, c), coll=c, tree=k)
    if blocks and full:
        bl = blocks[-1]
        for kn in ([-1, -len(bl)] if bl else []):
            name = "TreeList.get(collection_offset=-1, tree_offset=%d)" % kn
            got = case.attempt(name, lambda: R.tree_list("data", collection_offset=-1, tree_offset=kn), coll=-1, tree=kn)
            if got is not None:
                case.same(name, got, bl[kn:], "the last %d trees of the last collection" % -kn, coll=-1, tree=kn)
        k = len(blocks[0]) // 2
        if blocks[0]:
            got = case.attempt("TreeList.get(tree_offset=%d)" % k, lambda: R.tree_list("data", tree_offset=k), tree=k)
            if got is not None:
                case.same("TreeList.get(tree_offset=%d)" % k, got, blocks[0][k:], "trees %d.. of the first collection" % k, tree=k)
    # incremental read into one existing list
    if blocks:
        r = case.attempt("TreeList.read per collection", lambda: R.incremental(len(blocks)))
        if r is not None:
            got, counts = r
            case.same("TreeList.read per collection", got, ref)
            if counts != [len(b) for b in blocks]:
                case.fail("route", "TreeList.read per collection", "reports %s trees read, collections hold %s" % (counts, [len(b) for b in blocks]))
    # incremental read WITH offsets into a list that already holds trees (pooling sources with a burn-in): the trees already
    # there stay, untouched and in place; exactly the selected trees of the selected collection are appended
    if blocks:
        combos = []
        for c, bl in enumerate(blocks):
            if bl:
                combos.append((c, None))
                combos.append((c, len(bl) // 2))
                combos.append((c, -1))
                if len(bl) > 1:
                    combos.append((c, 1))
                    combos.append((c, -len(bl)))
        if blocks[0]:
            combos.append((None, min(1, len(blocks[0]) - 1)))
            combos.append((None, -1))
        if not full:
            combos = combos[:3]
        elif len(combos) > 6:
            import random as _random     # a choice that depends on the document only, so that a replay makes the same one
            combos = [combos[i] for i in sorted(_random.Random(len(text) * 7919 + len(ref)).sample(range(len(combos)), 6))]
        for c, k in combos:
            extra = {}
            if c is not None:
                extra["collection_offset"] = c
            if k is not None:
                extra["tree_offset"] = k
            name = "TreeList.read(%s) into a populated list" % ", ".join("%s=%d" % kv for kv in sorted(extra.items()))

            def populated_read():
                tl = R.d.TreeList.get(**R._kw("data"))
                before = list(tl)
                kw2 = R._kw("data", **extra)
                kw2.pop("taxon_namespace", None)
                n = tl.read(**kw2)
                return tl, before, n
            r = case.attempt(name, populated_read, coll=c, tree=k)
            if r is None:
                continue
            tl, before, n = r
            bl = blocks[c if c is not None else 0]
            want_new = bl if k is None else bl[k:]
            if len(tl) < len(before) or any(a is not b for a, b in zip(tl, before)):
                case.fail("route", name, "the %d trees the list held before the read are not all there any more, in place (list now holds %d trees)" % (
                    len(before), len(tl)), coll=c, tree=k)
                continue
            tk2 = R.tk if R.ns is not None else TaxKey(None)
            got_new = [tree_rec(t, tk2) for t in list(tl)[len(before):]]
            if case.same(name, got_new, want_new, "the selected trees of the collection", coll=c, tree=k) and n != len(want_new):
                case.fail("route", name, "reports %d trees read, %d were selected" % (n, len(want_new)), coll=c, tree=k)
    # the one-tree-at-a-time iterator
    for how in (("file", "path") if full else ("file",)):
        name = "Tree.yield_from_files([%s])" % how
        r = case.attempt(name, lambda: R.yielded(how))
        if r is not None:
            case.same(name, r[0], ref)
    # tree array
    rootings = set(t["rooted"] for t in ref)
    if len(rootings) <= 1 and ref and not opts.get("suppress_leaf_node_taxa"):
        check_tree_array(case, dendropy, R, src, schema, opts, ref)
    return case, ref, blocks


def array_comparable(rec):
    """TreeArray keeps one (split, length) pair per edge of the *encoded* tree and looks lengths up by split: two edges with
    the same split (un-collapsible basal bifurcation: unary seed, or a seed with two leaves on an unrooted tree; leaves
    without taxon) shadow each other there.  That is the split encoder's business (C01/C05), not a reading route: such
    trees are not compared on this route."""
    root = rec["root"]

    def leaves_ok(n):
        if not n[6]:
            return n[0] is not None
        return all(leaves_ok(c) for c in n[6])
    if not leaves_ok(root):
        return False
    kids = root[6]
    if len(kids) == 1:
        return False
    if not rec["rooted"] and len(kids) == 2 and not any(len(k[6]) >= 2 for k in kids):
        return False        # the encoder collapses a basal bifurcation only into a child that has >= 2 children itself
    return True


def check_tree_array(case, dendropy, R, src, schema, opts, ref):
    def run():
        ta = dendropy.TreeArray(taxon_namespace=R.ns) if R.ns is not None else dendropy.TreeArray()
        k = dict(opts)
        k.update(src.kw("data"))
        ta.read(schema=schema, **k)
        tl = dendropy.TreeList.get(data=src.text, schema=schema, taxon_namespace=ta.taxon_namespace, **opts)
        return ta, tl
    if not all(array_comparable(t) for t in ref):
        # trees whose encoding keeps two edges with one split are the split encoder's business (see array_comparable);
        # the array may also refuse them outright: the route is judged on documents free of them, and there strictly
        comparable_only = False
    else:
        comparable_only = True
    try:
        with time_limit(ROUTE_TIMEOUT):
            r = run()
    except Timeout:
        case.fail("route-error", "TreeArray.read", "does not finish within %d s" % ROUTE_TIMEOUT)
        return
    except Exception as e:
        if comparable_only:
            case.fail("route-error", "TreeArray.read", "raises %s (%s) although TreeList.get reads the source" % (type(e).__name__, str(e)[:150]))
        else:
            case.ctx.count("treearray_raises_on_uncomparable_trees:" + type(e).__name__)
        return
    ta, tl = r
    if len(ta) != len(tl):
        case.fail("route", "TreeArray.read", "records %d trees, TreeList.get delivers %d" % (len(ta), len(tl)))
        return
    for i, tree in enumerate(tl):
        if not array_comparable(ref[i]):
            case.ctx.count("treearray_trees_not_compared")
            continue
        case.ctx.count("treearray_trees_compared")
        want = split_table_from_tree(tree)
        got = split_table_from_array(ta, i, bool(tree.is_rooted), leaf_label_sets(tree)[1])
        if got != want:
            names = {}
            for tx in list(ta.taxon_namespace._taxa) + [nd.taxon for nd in tree.leaf_node_iter() if nd.taxon is not None]:
                names[id(tx)] = tx.label

            def show(key):
                if key and isinstance(next(iter(key)), frozenset):
                    return sorted(sorted(str(names.get(x, "?")) for x in part) for part in key)
                return sorted(str(names.get(x, "?")) for x in key)
            diff = sorted(((show(k), str(v)) for k, v in (set(got.items()) ^ set(want.items()))), key=str)[:2]
            case.fail("route", "TreeArray.read", "split/length record of tree %d differs from the tree read by TreeList.get into the "
                      "array's namespace (%d vs %d splits; e.g. %s)" % (i, len(got), len(want), diff))
            return
        w = 1.0 if tree.weight is None else float(tree.weight)
        weights = getattr(ta, "_tree_weights", None)      # no public accessor for the per-tree weight
        if weights is None:
            case.ctx.count("treearray_weights_unavailable")
        elif Fraction(weights[i]) != Fraction(w):
            case.fail("route", "TreeArray.read", "weight of tree %d recorded as %s, the tree has %s" % (i, weights[i], tree.weight))
            return
        else:
            case.ctx.count("treearray_weights_compared:" + ("none" if tree.weight is None else "zero" if w == 0 else "nonzero"))
    check_array_weights(case, dendropy, src, schema, opts, tl)


def check_array_weights(case, dendropy, src, schema, opts, tl):
    """the weight clause on the remaining array routes: read_from_files records each tree's own weight (an explicit zero is a
    weight; a tree without one counts 1), an array told not to use weights records 1 for every tree, and the sum of weights an
    array works with is the sum over the trees as every other route delivers them"""
    want = [1.0 if t.weight is None else float(t.weight) for t in tl]
    for name, make, fill in (
            ("TreeArray.read_from_files([file])", lambda: dendropy.TreeArray(),
             lambda ta: ta.read_from_files([io.StringIO(src.text)], schema, **opts)),
            ("TreeArray(use_tree_weights=False).read", lambda: dendropy.TreeArray(use_tree_weights=False),
             lambda ta: ta.read(data=src.text, schema=schema, **opts))):
        def run():
            ta = make()
            fill(ta)
            return ta
        ta = case.attempt(name, run)
        if ta is None:
            continue
        weights = getattr(ta, "_tree_weights", None)
        if weights is None:
            case.ctx.count("treearray_weights_unavailable")
            continue
        expect = want if "use_tree_weights=False" not in name else [1.0] * len(want)
        got = [Fraction(x) for x in weights]
        if got != [Fraction(x) for x in expect]:
            case.fail("route", name, "records the weights %s, the trees read by TreeList.get call for %s" % (
                [str(x) for x in got], [str(Fraction(x)) for x in expect]))
            continue
        sd = getattr(ta, "split_distribution", None)
        total = getattr(sd, "sum_of_tree_weights", None)
        if total is not None and "use_tree_weights=False" not in name and Fraction(total) != sum(Fraction(x) for x in expect):
            case.fail("route", name, "works with a sum of tree weights of %s, the trees read by TreeList.get add up to %s" % (
                total, sum(Fraction(x) for x in expect)))


def check_refused_by_list_only(ctx, dendropy, doc, kind="route-error"):
    """TreeList.get refuses the source: then neither the data set nor the iterator may read it"""
    schema, text, opts = doc["schema"], doc["text"], doc["opts"]
    ok = []
    for name, fn in (("DataSet.get", lambda: dendropy.DataSet.get(data=text, schema=schema, **opts)),
                     ("Tree.yield_from_files", lambda: list(dendropy.Tree.yield_from_files([io.StringIO(text)], schema, **opts)))):
        try:
            with time_limit(ROUTE_TIMEOUT):
                fn()
            ok.append(name)
        except Timeout:
            Case(ctx, doc, "fresh").fail("route-error", name, "does not finish within %d s on a source TreeList.get refuses" % ROUTE_TIMEOUT,
                                         probe="refused-by-list-only")
        except Exception as e:
            if not is_refusal(e):
                Case(ctx, doc, "fresh").fail("crash", name, "fails with %s (%s) on a source TreeList.get refuses with a parse error: an "
                                             "exception escaping from inside the reader, not a refusal" % (type(e).__name__, str(e)[:150]),
                                             probe="refused-by-list-only")
    if ok:
        try:
            dendropy.TreeList.get(data=text, schema=schema, **opts)
            return
        except Exception as e:
            Case(ctx, doc, "fresh").fail(kind, "TreeList.get", "raises %s (%s) although %s read the source" % (
                type(e).__name__, str(e)[:120], " and ".join(ok)), probe="refused-by-list-only")


def check_two_sources(case, dendropy, docA, docB, first, alone, schema, opts):
    """routes that take several sources: the iterator and the array over [A, B], the data set read twice"""
    tk = TaxKey(None)
    lower = lambda labels: [None if x is None else x.lower() for x in labels]
    want = [tree_rec(t, tk) for t in first] + [tree_rec(t, tk) for t in alone]
    extra = {"first": docA["text"]}

    def same(route, got_trees):
        got = [tree_rec(t, tk) for t in got_trees]
        if len(got) != len(want):
            case.fail("route", route, "delivers %d trees, the two sources read one by one hold %d + %d" % (len(got), len(first), len(alone)), **extra)
        elif strip_taxa(got) != strip_taxa(want) or lower(taxa_of(got)) != lower(taxa_of(want)):
            case.fail("route", route, "differs from the two sources read one by one: %s" % first_diff(got, want), **extra)
    name = "Tree.yield_from_files([A, B])"
    got = case.attempt(name, lambda: list(dendropy.Tree.yield_from_files([io.StringIO(docA["text"]), io.StringIO(docB["text"])], schema, **opts)), **extra)
    if got is not None:
        same(name, got)
    name = "DataSet.get(A) then DataSet.read(B)"

    def two_reads():
        ds = dendropy.DataSet.get(data=docA["text"], schema=schema, **opts)
        n0 = len(ds.tree_lists)
        ds.read(data=docB["text"], schema=schema, **opts)
        return ds, n0
    r = case.attempt(name, two_reads, **extra)
    if r is not None:
        ds, n0 = r
        same(name, [t for tl in ds.tree_lists for t in tl])
        alone_ds = dendropy.DataSet.get(data=docB["text"], schema=schema, **opts)
        if [len(tl) for tl in ds.tree_lists[n0:]] != [len(tl) for tl in alone_ds.tree_lists]:
            case.fail("route", name, "second read adds collections of sizes %s, the source read alone has %s" % (
                [len(tl) for tl in ds.tree_lists[n0:]], [len(tl) for tl in alone_ds.tree_lists]), **extra)
    rootings = set(t.is_rooted for t in list(first) + list(alone))
    recs = want
    if len(rootings) == 1 and recs and all(array_comparable(r_) for r_ in recs) and not opts.get("suppress_leaf_node_taxa"):
        name = "TreeArray.read_from_files([A, B])"

        def arr():
            ta = dendropy.TreeArray()
            ta.read_from_files([io.StringIO(docA["text"]), io.StringIO(docB["text"])], schema, **opts)
            return ta
        ta = case.attempt(name, arr, **extra)
        if ta is not None and len(ta) != len(want):
            case.fail("route", name, "records %d trees, the two sources hold %d + %d" % (len(ta), len(first), len(alone)), **extra)
        # with a burn-in: the first k trees of EACH source are skipped, nothing else
        name = "TreeArray.read_from_files([A, B], tree_offset=1)"

        def arr1():
            ta = dendropy.TreeArray()
            ta.read_from_files([io.StringIO(docA["text"]), io.StringIO(docB["text"])], schema, tree_offset=1, **opts)
            return ta
        ta = case.attempt(name, arr1, **extra)
        expect = max(0, len(first) - 1) + max(0, len(alone) - 1)
        if ta is not None and len(ta) != expect:
            case.fail("route", name, "records %d trees, the two sources hold %d + %d: %d are past the first of their source" % (
                len(ta), len(first), len(alone), expect), **extra)


def check_shared_identity(ctx, dendropy, docA, docB, tmpdir):
    """two sources read one after the other into one list / through one namespace: the second read delivers the same trees as a
    read on its own, attached to the taxa the first read created"""
    if docA["schema"] != docB["schema"] or docA["opts"] != docB["opts"]:
        return
    schema, opts = docA["schema"], docA["opts"]
    doc = {"schema": schema, "text": docB["text"], "opts": opts, "first": docA["text"]}
    case = Case(ctx, doc, "shared")
    try:
        with time_limit(ROUTE_TIMEOUT):
            alone = dendropy.TreeList.get(data=docB["text"], schema=schema, **opts)
            first = dendropy.TreeList.get(data=docA["text"], schema=schema, **opts)
    except Exception:
        return

    def run():
        tl = dendropy.TreeList.get(data=docA["text"], schema=schema, **opts)
        n = tl.read(data=docB["text"], schema=schema, **opts)
        return tl, n
    check_two_sources(case, dendropy, docA, docB, first, alone, schema, opts)
    r = case.attempt("TreeList.read after TreeList.get", run, first=docA["text"])
    if r is None:
        return
    tl, n = r
    tk = TaxKey(None)
    got = [tree_rec(t, tk) for t in tl[len(first):]]
    want = [tree_rec(t, tk) for t in alone]
    if n != len(alone) or len(tl) != len(first) + len(alone):
        case.fail("route", "TreeList.read after TreeList.get", "adds %d trees (reports %d), reading the source alone gives %d" % (
            len(tl) - len(first), n, len(alone)), first=docA["text"])
        return
    # the label of a taxon may differ in case only: the first source may have introduced it (case-insensitive namespace)
    lower = lambda labels: [None if x is None else x.lower() for x in labels]
    if strip_taxa(got) != strip_taxa(want) or lower(taxa_of(got)) != lower(taxa_of(want)):
        case.fail("route", "TreeList.read after TreeList.get", "appended trees differ from reading the source alone: %s" % first_diff(got, want),
                  first=docA["text"])
        return
    # same namespace => same label (case-insensitively) means same Taxon object, and every taxon is a member
    by_label = {}
    members = set(id(t) for t in tl.taxon_namespace._taxa)
    for tree in tl:
        stack = [tree.seed_node]
        while stack:
            nd = stack.pop()
            stack.extend(nd._child_nodes)
            if nd.taxon is None:
                continue
            if id(nd.taxon) not in members:
                case.fail("route", "TreeList.read after TreeList.get", "taxon %r is not a member of the list's namespace" % nd.taxon.label,
                          first=docA["text"])
                return
            key = nd.taxon.label if opts.get("case_sensitive_taxon_labels") else nd.taxon.label.lower()
            if by_label.setdefault(key, nd.taxon) is not nd.taxon:
                case.fail("route", "TreeList.read after TreeList.get", "two Taxon objects with label %r in one namespace" % nd.taxon.label,
                          first=docA["text"])
                return


def strip_taxa(recs):
    def go(n):
        return [None] + n[1:6] + [[go(c) for c in n[6]]]
    return [dict(r, root=go(r["root"])) for r in recs]


def taxa_of(recs):
    out = []

    def go(n):
        out.append(None if n[0] is None else n[0][0])
        for c in n[6]:
            go(c)
    for r in recs:
        go(r["root"])
    return out


def check_matrices(ctx, dendropy, doc, tmpdir):
    """(b) a character matrix read on its own equals the matrix found in the data set"""
    schema, text = doc["schema"], doc["text"]
    opts = dict(doc.get("char_opts", {}))
    case = Case(ctx, doc, "fresh")
    try:
        with time_limit(ROUTE_TIMEOUT):
            ds = dendropy.DataSet.get(data=text, schema=schema, **opts)
    except Exception:
        return 0
    classes = {"dna": dendropy.DnaCharacterMatrix, "standard": dendropy.StandardCharacterMatrix,
               "protein": dendropy.ProteinCharacterMatrix, "rna": dendropy.RnaCharacterMatrix}
    src = Source(text, tmpdir)
    n = 0
    for i, cm in enumerate(ds.char_matrices):
        cls = classes.get(cm.data_type)
        if cls is None:
            continue
        want = matrix_rec(cm)
        for how in ("data", "file", "path"):
            name = "%s.get(%s=, matrix_offset=%d)" % (cls.__name__, how, i)
            k = dict(opts)
            k.pop("data_type", None)
            k.update(src.kw(how))
            got = case.attempt(name, lambda: matrix_rec(cls.get(schema=schema, matrix_offset=i, **k)), route_kind="matrix", offset=i)
            n += 1
            if got is not None and got != want:
                case.fail("matrix", name, "differs from matrix %d of DataSet.get: %s" % (i, first_diff(got, want)), route_kind="matrix", offset=i)
    return n


# ------------------------------------------------------------------------------------------ model side
def tokenize(dendropy, text, preserve_underscores):
    from dendropy.dataio.nexusprocessing import NexusTokenizer
    tk = NexusTokenizer(io.StringIO(text), preserve_unquoted_underscores=preserve_underscores)
    toks = []
    while True:
        try:
            t = tk.__next__()
        except StopIteration:
            break
        coms = tk.pull_captured_comments() or []
        toks.append((t, bool(tk.is_token_quoted), bool(tk.is_eof()), list(coms)))
    tail = tk.pull_captured_comments() or []
    return toks, list(tail)


def str_list_field(l):
    return "." if not l else ",".join(hex6(x) for x in l)


def cfg_field(opts):
    r = {None: "n", "default-unrooted": "u", "default-rooted": "r", "force-unrooted": "U", "force-rooted": "R"}[opts.get("rooting")]
    return r + "".join("1" if x else "0" for x in (
        opts.get("store_tree_weights", False), opts.get("suppress_internal_node_taxa", True),
        opts.get("suppress_leaf_node_taxa", False), opts.get("suppress_edge_lengths", False)))


def model_line(op, doc, toks, tail, ns_title=None, ns_labels=(), existing=0, coll=None, tree=None, label=None, flags=""):
    """flags: "" (what TreeList.get / Tree.get run with) or two digits exclude_chars, attached namespace"""
    words = [op, doc["schema"], cfg_field(doc["opts"]) + flags, hex6(ns_title), str_list_field(list(ns_labels)), str(existing),
             "-" if coll is None else str(coll), "-" if tree is None else str(tree), hex6(label), str_list_field(tail)]
    for t, q, e, coms in toks:
        words.append("%s|%d|%d|%s" % (hex6(t), 1 if q else 0, 1 if e else 0, str_list_field(coms)))
    return " ".join(words)


def ascii_only(doc):
    return all(ord(ch) < 128 for ch in doc["text"])


class BadNumber(Exception):
    """a length or weight text the model carries verbatim is not a number: float() refuses it, i.e. a parse error"""


def to_float(text):
    try:
        return float(text)
    except ValueError:
        raise BadNumber(text)


class ModelCanon(object):
    """turn the model's JSON answer into the same records as `tree_rec` (labels of taxa through the model's namespace)"""

    def __init__(self, opts):
        self.extract = opts.get("extract_comment_metadata", True)

    def split_comments(self, coms, item_is_tree=False):
        from dendropy.dataio import nexusprocessing
        from dendropy.datamodel import basemodel
        comments, holder = [], basemodel.Annotable()
        for c in coms:
            if self.extract and c.startswith("&"):
                a = nexusprocessing.parse_comment_metadata_to_annotations(c)
                if a:
                    holder.annotations.update(a)
                    continue
            comments.append(c)
        return comments, annots(holder)

    def weight(self, w):
        if w is None:
            return None
        if w == "D":
            return frac(1.0)
        parts = unhex6(w).split("/")
        if len(parts) > 2:
            raise BadNumber(w)
        if len(parts) == 2:
            den = to_float(parts[1])
            if den == 0:
                raise BadNumber(w)
            return frac(to_float(parts[0]) / den)
        return frac(to_float(parts[0]))

    def node(self, n, labels):
        taxon, label, ln, coms, kids = n
        comments, ann = self.split_comments([unhex6(c) for c in coms])
        return [None if taxon is None else [labels[taxon], None], None if label is None else unhex6(label),
                None if ln is None else frac(to_float(unhex6(ln))), comments, ann, [None, []],
                [self.node(k, labels) for k in kids]]

    def tree(self, t, labels):
        comments, ann = self.split_comments([unhex6(c) for c in t["c"]])
        return {"name": None if t["n"] is None else unhex6(t["n"]), "rooted": t["r"], "weight": self.weight(t["w"]),
                "comments": comments, "annots": ann, "root": self.node(t["t"], labels)}


def identity_pattern_model(trees):
    """first-occurrence numbering of the model's taxon indices over a list of model trees"""
    seen, out = {}, []

    def go(n):
        if n[0] is not None:
            out.append(seen.setdefault(n[0], len(seen)))
        for k in n[4]:
            go(k)
    for t in trees:
        go(t["t"])
    return out


def identity_pattern_impl(trees):
    seen, out = {}, []
    for t in trees:
        stack = [t.seed_node]
        while stack:
            nd = stack.pop()
            stack.extend(reversed(nd._child_nodes))
            if nd.taxon is not None:
                out.append(seen.setdefault(id(nd.taxon), len(seen)))
    return out


def canon_err(e):
    return "offset" if e in ("IndexError", "ValueError") else e


class ModelSession(object):
    """collects protocol lines with the implementation's canonical answer, then asks the driver once"""

    def __init__(self, ctx):
        self.ctx = ctx
        self.pending = []

    def add(self, line, op, case, impl_answer, canon):
        self.pending.append((line, op, case, impl_answer, canon))

    def flush(self):
        if not self.pending:
            return
        outs = self.ctx.ask([p[0] for p in self.pending])
        for (line, op, case, impl_answer, canon), m in zip(self.pending, outs):
            if m is None:
                continue
            self.ctx.compared()
            try:
                ans = canon(json.loads(m))
            except BadNumber:
                ans = {"err": "parse"}     # float() of a length/weight is applied on this side for the model
            except Exception as e:
                ans = "unreadable model answer %r (%s)" % (m[:80], e)
            if ans != impl_answer:
                a, b = json.dumps(impl_answer, sort_keys=True), json.dumps(ans, sort_keys=True)
                i = 0
                while i < min(len(a), len(b)) and a[i] == b[i]:
                    i += 1
                self.ctx.disagree(op, case, a[max(0, i - 60):i + 100], b[max(0, i - 60):i + 100])
        self.pending = []


def impl_answer(fn, pattern=True):
    """run an implementation route for the correspondence: records + identity pattern, or the error class"""
    try:
        with time_limit(ROUTE_TIMEOUT):
            return fn()
    except Exception as e:
        return {"err": err_name(e)}


def correspond(ctx, dendropy, doc, session, blocks_shape, refusal_only=False):
    """every modelled route on the model and on the implementation (fresh namespaces)"""
    if not ascii_only(doc) or doc["opts"].get("case_sensitive_taxon_labels"):
        return
    schema, text, opts = doc["schema"], doc["text"], doc["opts"]
    try:
        toks, tail = tokenize(dendropy, text, opts.get("preserve_underscores", False))
    except Exception:
        return
    mc = ModelCanon(opts)
    tk = TaxKey(None)
    case = {"schema": schema, "text": text, "opts": opts}

    def canon_list(j):
        if "err" in j:
            return {"err": canon_err(j["err"])}
        labels = [unhex6(x) for x in j["ns"]]
        return {"trees": [mc.tree(t, labels) for t in j["r"]], "ident": identity_pattern_model(j["r"])}

    def canon_blocks(j):
        if "err" in j:
            return {"err": canon_err(j["err"])}
        labels = [unhex6(x) for x in j["ns"]]
        flat = [t for b in j["r"] for t in b]
        return {"blocks": [[mc.tree(t, labels) for t in b] for b in j["r"]], "ident": identity_pattern_model(flat)}

    def canon_tree(j):
        if "err" in j:
            return {"err": canon_err(j["err"])}
        labels = [unhex6(x) for x in j["ns"]]
        return {"trees": [mc.tree(j["r"], labels)], "ident": identity_pattern_model([j["r"]])}

    def impl_list(trees):
        trees = list(trees)
        return {"trees": [tree_rec(t, tk) for t in trees], "ident": identity_pattern_impl(trees)}

    def impl_blocks(ds):
        flat = [t for tl in ds.tree_lists for t in tl]
        return {"blocks": [[tree_rec(t, tk) for t in tl] for tl in ds.tree_lists], "ident": identity_pattern_impl(flat)}

    kw = dict(opts, data=text, schema=schema)

    # an intermediate observable besides the trees: the taxon namespace the read leaves behind (labels in order of creation)
    def canon_list_ns(j):
        a = canon_list(j)
        if "err" not in a:
            a["ns"] = [unhex6(x) for x in j["ns"]]
        return a

    def impl_list_ns(trees, ns):
        a = impl_list(trees)
        a["ns"] = [t.label for t in ns._taxa]
        return a

    def whole_list():
        tl = dendropy.TreeList.get(**kw)
        return impl_list_ns(tl, tl.taxon_namespace)

    def whole_yield():
        ns = dendropy.TaxonNamespace()
        return impl_list_ns(dendropy.Tree.yield_from_files([io.StringIO(text)], schema, taxon_namespace=ns, **opts), ns)
    session.add(model_line("list", doc, toks, tail), "TreeList.get", case, impl_answer(whole_list), canon_list_ns)
    session.add(model_line("yield", doc, toks, tail), "Tree.yield_from_files", case, impl_answer(whole_yield), canon_list_ns)
    session.add(model_line("dataset", doc, toks, tail), "DataSet.get", case,
                impl_answer(lambda: impl_blocks(dendropy.DataSet.get(**kw))), canon_blocks)
    if schema == "nexus":
        # the reader front end with an ATTACHED namespace and exclude_chars (the settings under which the theorems relate it
        # to the iterator): DataSet.get(taxon_namespace=, exclude_chars=True) runs exactly that
        att = impl_answer(lambda: impl_blocks(dendropy.DataSet.get(exclude_chars=True, taxon_namespace=dendropy.TaxonNamespace(), **kw)))
        session.add(model_line("blocks", doc, toks, tail, flags="11"), "DataSet.get(attached namespace, exclude_chars)", case, att, canon_blocks)

        def flat(a):
            return a if "err" in a else {"trees": [t for b in a["blocks"] for t in b], "ident": a["ident"]}
        # the configurations on the right-hand sides of yield_eq_list_nexus_partial / dataset_eq_lists_partial, on op `list`:
        # reader into ONE list with an attached namespace resp. with character blocks parsed = those data sets, flattened
        session.add(model_line("list", doc, toks, tail, flags="11"), "list @ attached namespace", case, flat(att), canon_list)
        session.add(model_line("list", doc, toks, tail, flags="00"), "list @ exclude_chars=False", case,
                    flat(impl_answer(lambda: impl_blocks(dendropy.DataSet.get(**kw)))), canon_list)
        if not refusal_only:
            # is the document inside the domain of the stream-level theorems?  The hypotheses themselves, as executable model
            # predicates: `setsClean` on the iterator's run (reader_eq_yielder, yield_eq_list_nexus, array_read_eq_list_then_add_nexus),
            # `charsClean` on the data set route's run (dataset_blocks_eq, dataset_eq_lists)
            def counter(inside, outside):
                def canon(j):
                    ctx.count(inside if j is True else outside)
                    return None
                return canon
            session.add(model_line("setsclean", doc, toks, tail), "setsClean", case, None,
                        counter("nexus_docs_in_domain_of_reader_eq_yielder(setsClean)", "nexus_docs_outside_setsClean(correspondence only)"))
            session.add(model_line("charsclean", doc, toks, tail), "charsClean", case, None,
                        counter("nexus_docs_in_domain_of_dataset_eq_lists(charsClean)", "nexus_docs_outside_charsClean(correspondence only)"))
            if re.search(r"(?i)begin\s+(sets|assumptions|codons)\b", text):
                ctx.count("nexus_docs_with_a_SETS_class_block")
    if not refusal_only:
        correspond_array(ctx, dendropy, doc, session, toks, tail, mc, tk, case)
        correspond_source_keywords(ctx, dendropy, doc, session, toks, tail, canon_list, impl_list, case)
    if refusal_only:
        # the reference route refuses the document: the model must refuse it on the same routes (kind of refusal compared)
        # (list / yield / dataset above carry every length and weight of the source; a single-tree answer would hide a
        #  non-numeric length in a later tree, which float() - applied on this side for the model - refuses)
        return
    shape = blocks_shape if blocks_shape is not None else []
    offs = []
    for c, n in enumerate(shape):
        for k in range(n):
            offs.append((c, k))
        offs.append((c, n))                     # one past the end: IndexError / ValueError on both sides
        if n:
            offs.append((c, -1))
    offs.append((len(shape), 0))
    if shape:
        offs.append((-1, 0))
        offs.append((-len(shape) - 1, 0))
    offs.append((None, None))
    for c, k in offs:
        okw = dict(kw)
        if c is not None:
            okw["collection_offset"] = c
            okw["tree_offset"] = k
        session.add(model_line("tree", doc, toks, tail, coll=c, tree=k), "Tree.get(%s,%s)" % (c, k), dict(case, coll=c, tree=k),
                    impl_answer(lambda: impl_list([dendropy.Tree.get(**okw)])), canon_tree)
        if c is not None:
            session.add(model_line("list", doc, toks, tail, coll=c, tree=k), "TreeList.get(%s,%s)" % (c, k), dict(case, coll=c, tree=k),
                        impl_answer(lambda: impl_list(dendropy.TreeList.get(**okw))), canon_list)
    for c in range(len(shape) + 1):
        okw = dict(kw, collection_offset=c)
        session.add(model_line("list", doc, toks, tail, coll=c), "TreeList.get(%s,None)" % c, dict(case, coll=c),
                    impl_answer(lambda: impl_list(dendropy.TreeList.get(**okw))), canon_list)
    if shape and shape[0]:
        okw = dict(kw, label="given")
        session.add(model_line("tree", doc, toks, tail, label="given"), "Tree.get(label=)", dict(case, label="given"),
                    impl_answer(lambda: impl_list([dendropy.Tree.get(**okw)])), canon_tree)
        okw2 = dict(kw, tree_offset=0)
        session.add(model_line("list", doc, toks, tail, tree=0), "TreeList.get(None,0)", dict(case, tree=0),
                    impl_answer(lambda: impl_list(dendropy.TreeList.get(**okw2))), canon_list)


def array_err(e):
    from dendropy.utility import error
    if isinstance(e, error.MixedRootingError):
        return "mixed"
    if isinstance(e, error.DataParseError):
        return "parse"
    return "Internal(%s)" % type(e).__name__


def array_answer(dendropy, ta, n_before, added, tk, trees):
    """what is compared of a tree array after a read: how many trees it took, its rooting commitment, the weight it recorded
    for each, and (from the list route, which the oracle ties to the array's split records) the trees themselves"""
    weights = getattr(ta, "_tree_weights", None)          # no public accessor for the per-tree weight
    return {"added": added, "rooted": ta.is_rooted_trees,
            "weights": None if weights is None else [str(Fraction(w)) for w in list(weights)[n_before:]],
            "trees": [tree_rec(t, tk) for t in trees]}


def canon_array(mc, weights_known):
    def canon(j):
        if "err" in j:
            return {"err": {"MixedRootingError": "mixed"}.get(j["err"], canon_err(j["err"]))}
        labels = [unhex6(x) for x in j["ns"]]
        r = j["r"]
        ex = len(r["entries"]) - r["added"]
        new = r["entries"][ex:]
        kept = all(e["t"]["n"] is not None and unhex6(e["t"]["n"]) == "e%d" % i for i, e in enumerate(r["entries"][:ex]))
        ws = []
        for e in new:
            ws.append(str(Fraction(1)) if e["w"] is None else mc.weight(e["w"]))
        return {"added": r["added"] if kept else "existing entries changed", "rooted": r["rooted"],
                "weights": ws if weights_known else None, "trees": [mc.tree(e["t"], labels) for e in new]}
    return canon


def burn(trees, k):
    return list(trees) if k <= 0 else list(trees)[k:]


def correspond_array(ctx, dendropy, doc, session, toks, tail, mc, tk, case):
    """TreeArray.read on the model (op `array`) and on the implementation: trees taken (after the burn-in), rooting
    commitment, recorded weights, refusal of mixed rooting"""
    schema, text, opts = doc["schema"], doc["text"], doc["opts"]
    if opts.get("suppress_leaf_node_taxa"):
        return
    try:
        ref_trees = dendropy.TreeList.get(data=text, schema=schema, **opts)
    except Exception:
        return
    tk0 = TaxKey(None)
    if not all(array_comparable(tree_rec(t, tk0)) for t in ref_trees):
        return       # the split encoder's business (see array_comparable); the array may refuse such trees outright
    for k, use_w in ((0, True), (1, True), (0, False)):
        def run(k=k, use_w=use_w):
            ta = dendropy.TreeArray(use_tree_weights=use_w)
            kw = dict(opts, data=text, schema=schema)
            if k:
                kw["tree_offset"] = k
            try:
                with time_limit(ROUTE_TIMEOUT):
                    n = ta.read(**kw)
            except Exception as e:
                return {"err": array_err(e)}
            tl = dendropy.TreeList.get(data=text, schema=schema, taxon_namespace=ta.taxon_namespace, **opts)
            return array_answer(dendropy, ta, 0, n, tk, burn(tl, k))
        impl = run()
        session.add(model_line("array", doc, toks, tail, coll=(None if use_w else 0), tree=k),
                    "TreeArray.read(tree_offset=%d, use_tree_weights=%s)" % (k, use_w), dict(case, tree=k, use_tree_weights=use_w),
                    impl, canon_array(mc, "err" in impl or impl.get("weights") is not None))
        ctx.count("array_reads_compared_with_model")


SOURCE_SPECS = ["data", "string", "file", "stream", "path", "path!", "data+path", "file+string", "none", "data+noschema",
                "read+data", "read+file", "read+path", "read+path!", "read+data+file", "read+none"]


def correspond_source_keywords(ctx, dendropy, doc, session, toks, tail, canon_list, impl_list, case):
    """the dispatch on the source keyword (`_get_from` / `_read_from`): TreeList.get / TreeList().read through each keyword, through
    two keywords, through none, without schema, through a path that does not exist - against the model's `src:<spec>:list`"""
    schema, text, opts = doc["schema"], doc["text"], doc["opts"]
    specs = [SOURCE_SPECS[i] for i in sorted(ctx.rng.sample(range(len(SOURCE_SPECS)), 4))]
    tmpdir = tempfile.mkdtemp(prefix="c13s-")
    try:
        fd, path = tempfile.mkstemp(dir=tmpdir, suffix=".txt")
        with os.fdopen(fd, "w", newline="") as f:
            f.write(text)
        for spec in specs:
            items = spec.split("+")
            kw = dict(opts)
            if "noschema" not in items:
                kw["schema"] = schema
            for it in items:
                if it in ("data", "string"):
                    kw[it] = text
                elif it in ("file", "stream"):
                    kw[it] = io.StringIO(text)
                elif it == "path":
                    kw[it] = path
                elif it == "path!":
                    kw["path"] = os.path.join(tmpdir, "no-such-file.txt")

            def run(kw=kw, via_read="read" in items):
                try:
                    with time_limit(ROUTE_TIMEOUT):
                        if via_read:
                            tl = dendropy.TreeList()
                            tl.read(**kw)
                        else:
                            tl = dendropy.TreeList.get(**kw)
                except TypeError:
                    return {"err": "TypeError"}
                except OSError:
                    return {"err": "IOError"}
                except Exception as e:
                    return {"err": err_name(e)}
                return impl_list(tl)

            def canon(j, inner=canon_list):
                if "err" in j and j["err"] in ("TypeError", "IOError"):
                    return {"err": j["err"]}
                return inner(j)
            session.add(model_line("src:%s:list" % spec, doc, toks, tail), "TreeList.%s(%s)" % ("read" if "read" in items else "get", spec),
                        dict(case, source=spec), run(), canon)
            ctx.count("source_keyword_routes:" + spec)
    finally:
        shutil.rmtree(tmpdir, ignore_errors=True)


def model_line_multi(op, docs_toks, doc, **kw):
    """a protocol line over several sources: the groups `tail tok …` joined by `//`"""
    (toks0, tail0) = docs_toks[0]
    line = model_line(op, doc, toks0, tail0, **kw)
    for toks, tail in docs_toks[1:]:
        words = ["//", str_list_field(tail)]
        for t, q, e, coms in toks:
            words.append("%s|%d|%d|%s" % (hex6(t), 1 if q else 0, 1 if e else 0, str_list_field(coms)))
        line += " " + " ".join(words)
    return line


def correspond_multi(ctx, dendropy, docA, docB, session):
    """several sources in one call, model and implementation: Tree.yield_from_files([A, B]) per file, TreeList().read(A); .read(B),
    TreeArray.read_from_files([A, B], tree_offset=k)"""
    if not (ascii_only(docA) and ascii_only(docB)) or docA["opts"] != docB["opts"] or docA["schema"] != docB["schema"]:
        return
    opts, schema = docA["opts"], docA["schema"]
    if opts.get("case_sensitive_taxon_labels"):
        return
    try:
        dt = [tokenize(dendropy, d["text"], opts.get("preserve_underscores", False)) for d in (docA, docB)]
    except Exception:
        return
    mc = ModelCanon(opts)
    tk = TaxKey(None)
    case = {"schema": schema, "first": docA["text"], "text": docB["text"], "opts": opts}

    def files():
        return [io.StringIO(docA["text"]), io.StringIO(docB["text"])]

    def run_yield():
        try:
            with time_limit(ROUTE_TIMEOUT):
                y = dendropy.Tree.yield_from_files(files(), schema, **opts)
                groups, flat = [[], []], []
                for t in y:
                    groups[y.current_file_index].append(t)
                    flat.append(t)
        except Exception as e:
            return {"err": err_name(e)}
        return {"files": [[tree_rec(t, tk) for t in g] for g in groups], "ident": identity_pattern_impl(flat)}

    def canon_files(j):
        if "err" in j:
            return {"err": canon_err(j["err"])}
        labels = [unhex6(x) for x in j["ns"]]
        return {"files": [[mc.tree(t, labels) for t in g] for g in j["r"]], "ident": identity_pattern_model([t for g in j["r"] for t in g])}
    session.add(model_line_multi("yieldfiles", dt, docA), "Tree.yield_from_files([A, B])", case, run_yield(), canon_files)

    def run_reads():
        try:
            with time_limit(ROUTE_TIMEOUT):
                tl = dendropy.TreeList()
                tl.read(data=docA["text"], schema=schema, **opts)
                tl.read(data=docB["text"], schema=schema, **opts)
        except Exception as e:
            return {"err": err_name(e)}
        return {"trees": [tree_rec(t, tk) for t in tl], "ident": identity_pattern_impl(list(tl))}

    def canon_trees(j):
        if "err" in j:
            return {"err": canon_err(j["err"])}
        labels = [unhex6(x) for x in j["ns"]]
        return {"trees": [mc.tree(t, labels) for t in j["r"]], "ident": identity_pattern_model(j["r"])}
    session.add(model_line_multi("readmany", dt, docA), "TreeList().read(A); .read(B)", case, run_reads(), canon_trees)
    ctx.count("two_source_routes_compared_with_model")
    # the array over both files
    if opts.get("suppress_leaf_node_taxa"):
        return
    try:
        tl = dendropy.TreeList()
        tl.read(data=docA["text"], schema=schema, **opts)
        nA = len(tl)
        tl.read(data=docB["text"], schema=schema, **opts)
    except Exception:
        return
    tk0 = TaxKey(None)
    if not all(array_comparable(tree_rec(t, tk0)) for t in tl):
        return
    for k in (0, 1):
        def run_arr(k=k):
            ta = dendropy.TreeArray()
            try:
                with time_limit(ROUTE_TIMEOUT):
                    ta.read_from_files(files(), schema, tree_offset=k, **opts)
            except Exception as e:
                return {"err": array_err(e)}
            tl2 = dendropy.TreeList(taxon_namespace=ta.taxon_namespace)
            tl2.read(data=docA["text"], schema=schema, **opts)
            n1 = len(tl2)
            tl2.read(data=docB["text"], schema=schema, **opts)
            trees = burn(list(tl2)[:n1], k) + burn(list(tl2)[n1:], k)
            return array_answer(dendropy, ta, 0, len(ta), tk, trees)
        impl = run_arr()
        session.add(model_line_multi("array", dt, docA, tree=k), "TreeArray.read_from_files([A, B], tree_offset=%d)" % k, dict(case, tree=k),
                    impl, canon_array(mc, "err" in impl or impl.get("weights") is not None))


def correspond_incremental(ctx, dendropy, docA, docB, session):
    """TreeList.get(A) then .read(B) into it: the model is given the namespace the model itself produced for A"""
    if not (ascii_only(docA) and ascii_only(docB)) or docA["opts"] != docB["opts"] or docA["schema"] != docB["schema"]:
        return
    opts, schema = docA["opts"], docA["schema"]
    try:
        toksA, tailA = tokenize(dendropy, docA["text"], opts.get("preserve_underscores", False))
        toksB, tailB = tokenize(dendropy, docB["text"], opts.get("preserve_underscores", False))
    except Exception:
        return
    first = ctx.ask([model_line("list", docA, toksA, tailA)])[0]
    if first is None:
        return
    j = json.loads(first)
    if "err" in j:
        return
    try:
        with time_limit(ROUTE_TIMEOUT):
            tl = dendropy.TreeList.get(data=docA["text"], schema=schema, **opts)
            nA = len(tl)
            tl.read(data=docB["text"], schema=schema, **opts)
    except Exception:
        return
    mc = ModelCanon(opts)
    tk = TaxKey(None)
    new = list(tl)[nA:]
    # identity pattern over the old trees followed by the new ones: which old taxa the new trees are attached to
    impl = {"trees": [tree_rec(t, tk) for t in new], "ident": identity_pattern_impl(list(tl))}

    def canon(j2):
        if "err" in j2:
            return {"err": canon_err(j2["err"])}
        labels = [unhex6(x) for x in j2["ns"]]
        trees = j2["r"][len(j["r"]):]
        return {"trees": [mc.tree(t, labels) for t in trees], "ident": identity_pattern_model(j["r"] + trees)}
    line = model_line("list", docB, toksB, tailB, ns_title=None if j["title"] is None else unhex6(j["title"]),
                      ns_labels=[unhex6(x) for x in j["ns"]], existing=len(j["r"]))
    session.add(line, "TreeList.read after get", {"schema": schema, "first": docA["text"], "text": docB["text"], "opts": opts}, impl, canon)
    # the same with offsets: TreeList.read(B, collection_offset=c, tree_offset=k) into the list holding A's trees
    try:
        shapeB = [len(x) for x in dendropy.DataSet.get(data=docB["text"], schema=schema, **opts).tree_lists]
    except Exception:
        shapeB = []
    offs = []
    for c, n_ in enumerate(shapeB[:2]):
        offs += [(c, None), (c, n_ // 2), (c, -1), (c, n_)]
    offs += [(None, 1), (len(shapeB), 0)]
    for c, k in offs:
        ex = {}
        if c is not None:
            ex["collection_offset"] = c
        if k is not None:
            ex["tree_offset"] = k

        def run_(ex=ex):
            tl_ = dendropy.TreeList.get(data=docA["text"], schema=schema, **opts)
            old = list(tl_)
            tl_.read(data=docB["text"], schema=schema, **dict(opts, **ex))
            kept = len(tl_) >= len(old) and all(a is b for a, b in zip(tl_, old))
            new_ = list(tl_)[len(old):]
            return {"kept": kept, "trees": [tree_rec(t, tk) for t in new_], "ident": identity_pattern_impl(list(tl_))}

        def canon_(j2, n0=len(j["r"])):
            if "err" in j2:
                return {"err": canon_err(j2["err"])}
            labels = [unhex6(x) for x in j2["ns"]]
            old, trees = j2["r"][:n0], j2["r"][n0:]
            kept = len(old) == n0 and all(t["n"] is not None and unhex6(t["n"]) == "e%d" % i for i, t in enumerate(old))
            return {"kept": kept, "trees": [mc.tree(t, labels) for t in trees], "ident": identity_pattern_model(j["r"] + trees)}
        session.add(model_line("list", docB, toksB, tailB, ns_title=None if j["title"] is None else unhex6(j["title"]),
                               ns_labels=[unhex6(x) for x in j["ns"]], existing=len(j["r"]), coll=c, tree=k),
                    "TreeList.read(%s,%s) into a populated list" % (c, k),
                    {"schema": schema, "first": docA["text"], "text": docB["text"], "opts": opts, "coll": c, "tree": k},
                    impl_answer(run_), canon_)
    # DataSet.read into a data set that already holds the collections of A (no attached namespace: B gets namespaces of its own)
    try:
        with time_limit(ROUTE_TIMEOUT):
            ds = dendropy.DataSet.get(data=docA["text"], schema=schema, **opts)
            n0 = len(ds.tree_lists)
            ds.read(data=docB["text"], schema=schema, **opts)
    except Exception:
        return
    new_lists = ds.tree_lists[n0:]
    impl2 = {"before": n0, "blocks": [[tree_rec(t, tk) for t in tl_] for tl_ in new_lists],
             "ident": identity_pattern_impl([t for tl_ in new_lists for t in tl_])}

    def canon2(j3):
        if "err" in j3:
            return {"err": canon_err(j3["err"])}
        labels = [unhex6(x) for x in j3["ns"]]
        old, new = j3["r"][:n0], j3["r"][n0:]
        untouched = all(len(b) == 1 and b[0]["n"] is not None and unhex6(b[0]["n"]) == "e%d" % i for i, b in enumerate(old))
        return {"before": n0 if untouched else "existing collections changed",
                "blocks": [[mc.tree(t, labels) for t in b] for b in new], "ident": identity_pattern_model([t for b in new for t in b])}
    session.add(model_line("dataset", docB, toksB, tailB, existing=n0), "DataSet.read into a populated data set",
                {"schema": schema, "first": docA["text"], "text": docB["text"], "opts": opts}, impl2, canon2)


# ------------------------------------------------------------------------------------------ NeXML (implementation only)
def nexml_of(dendropy, doc):
    try:
        with time_limit(ROUTE_TIMEOUT):
            ds = dendropy.DataSet.get(data=doc["text"], schema=doc["schema"], **doc["opts"])
            if not ds.tree_lists and not ds.char_matrices:
                return None
            return ds.as_string(schema="nexml")
    except Exception:
        return None


def other_matrix_docs(rng):
    """FASTA and PHYLIP sources for clause (b)"""
    n = rng.randint(1, 5)
    nchar = rng.randint(1, 8)
    labels = rng.sample(["a", "b", "c", "d", "e", "sp1", "Homo_sapiens", "x9"], n)
    seqs = ["".join(rng.choice("ACGT-?") for _ in range(nchar)) for _ in labels]
    fasta = "".join(">%s\n%s\n" % (l, s) for l, s in zip(labels, seqs))
    phylip = "%d %d\n" % (n, nchar) + "".join("%s  %s\n" % (l, s) for l, s in zip(labels, seqs))
    return [{"schema": "fasta", "text": fasta, "opts": {}, "char_opts": {"data_type": "dna"}},
            {"schema": "phylip", "text": phylip, "opts": {}, "char_opts": {"data_type": "dna"}}]


# ------------------------------------------------------------------------------------------ driver of a run
def one_document(ctx, dendropy, doc, tmpdir, session, full=True, kind=None):
    res = check_tree_routes(ctx, dendropy, doc, "fresh", tmpdir, full)
    if res[0] is None:
        ctx.count("unreadable:" + str(res[1]))
        ctx.case([doc["schema"], doc["text"], doc["opts"]], False, kind="unreadable")
        check_refused_by_list_only(ctx, dendropy, doc)
        if doc["schema"] in ("newick", "nexus") and session is not None:
            correspond(ctx, dendropy, doc, session, None, refusal_only=True)
        return None
    case, ref, blocks = res
    shape = None if blocks is None else [len(b) for b in blocks]
    nontrivial = len(ref) >= 2 or (shape is not None and len(shape) >= 2)
    ctx.case([doc["schema"], doc["text"], doc["opts"]], nontrivial,
             sample={"schema": doc["schema"], "text": doc["text"][:400], "opts": doc["opts"], "collections": shape},
             kind=kind or doc["schema"])
    ctx.count("trees", len(ref))

    if shape is not None:
        ctx.count("collections", len(shape))
    info = doc.get("info") or {}
    if not (info.get("chars") and not info.get("taxa_block")):
        # (a DATA block that itself declares NTAX is only read into a fresh namespace: the reader counts taxa already in the
        #  namespace against NTAX, so a namespace filled by a route that skips the matrix is refused by the next route)
        res2 = check_tree_routes(ctx, dendropy, doc, "shared", tmpdir, full)
        if res2[0] is None:
            Case(ctx, doc, "shared").fail("route-error", "TreeList.get(taxon_namespace=)", "refuses the source (%s) that TreeList.get "
                                          "reads into a namespace of its own" % res2[1])
    if doc["schema"] in ("newick", "nexus") and session is not None:
        correspond(ctx, dendropy, doc, session, shape)
    return shape


def run(ctx):
    dendropy = __import__("dendropy")
    rng = ctx.rng
    ctx.set_budget(22, 780)
    tmpdir = tempfile.mkdtemp(prefix="c13-")
    session = ModelSession(ctx)
    try:
        ndocs = ctx.pick(260, 6000)
        prev = None
        for i in range(ndocs):
            if ctx.out_of_time():
                break
            size = "small" if rng.random() < 0.8 else "large"
            doc = c13docs.gen_doc(rng, size)
            shape = one_document(ctx, dendropy, doc, tmpdir, session, full=True)
            if shape is None:
                continue
            if doc["schema"] == "nexus" and doc.get("info", {}).get("chars"):
                ctx.count("matrix_routes", check_matrices(ctx, dendropy, doc, tmpdir))
            if i % 8 == 5 and not (doc.get("info") or {}).get("chars"):
                # (a damaged CHARACTERS block is seen by the data set only: the tree routes skip the block unparsed)
                one_document(ctx, dendropy, c13docs.damage(rng, doc), tmpdir, session, full=False, kind="damaged")
            # a second source with the same options, read after the first one
            if i % 3 == 0:
                doc2 = (c13docs.gen_newick if doc["schema"] == "newick" else c13docs.gen_nexus)(rng, "small", like=doc["info"])
                check_shared_identity(ctx, dendropy, doc, doc2, tmpdir)
                correspond_incremental(ctx, dendropy, doc, doc2, session)
                correspond_multi(ctx, dendropy, doc, doc2, session)
                ctx.count("second_source:same_layout")
            elif i % 3 == 1 and doc["schema"] == "nexus":
                # a second NEXUS source with a layout of its own (no TAXA block, new taxa next to known ones, TRANSLATE or not)
                doc2 = c13docs.gen_nexus(rng, "small", with_chars=False, like=dict(doc["info"], fresh_layout=True))
                check_shared_identity(ctx, dendropy, doc, doc2, tmpdir)
                correspond_multi(ctx, dendropy, doc, doc2, session)
                ctx.count("second_source:own_layout(taxa_block_first=%s,translate_second=%s)" % (
                    bool(doc["info"].get("taxa_block")), bool(re.search(r"(?i)\btranslate\b", doc2["text"]))))
            # a character block + a SETS block with CHARSET statements in front of trees full of hyphens (negative lengths,
            # exponents, labels, comments): the routes that parse the SETS block share one tokenizer with the trees behind it
            if i % 4 == 2:
                cdoc = c13docs.gen_charset_doc(rng)
                if one_document(ctx, dendropy, cdoc, tmpdir, session, full=(i % 8 == 2), kind="charsets-before-hyphen-trees") is not None:
                    ctx.count("charset_docs:ALL_" + cdoc["info"]["charset_all"] + (",suppress_edge_lengths" if cdoc["opts"].get("suppress_edge_lengths") else ""))
                    ctx.count("matrix_routes", check_matrices(ctx, dendropy, cdoc, tmpdir))
            # NeXML routes on the implementation
            if i % 4 == 0:
                x = nexml_of(dendropy, doc)
                if x is not None:
                    xdoc = {"schema": "nexml", "text": x, "opts": {}}
                    one_document(ctx, dendropy, xdoc, tmpdir, None, full=False, kind="nexml")
                    ctx.count("matrix_routes", check_matrices(ctx, dendropy, xdoc, tmpdir))
            if i % 10 == 0:
                for mdoc in other_matrix_docs(rng):
                    ctx.count("matrix_routes", check_matrices(ctx, dendropy, mdoc, tmpdir))
            if len(session.pending) >= 400:
                session.flush()
        session.flush()
        if ctx.tier == "thorough":
            count = 0
            for doc in c13docs.small_scope_docs():
                if ctx.time_left() < -100:
                    break
                one_document(ctx, dendropy, doc, tmpdir, session, full=False, kind="small-scope")
                count += 1
                if len(session.pending) >= 1000:
                    session.flush()
            session.flush()
            ctx.extra["exhaustive_small_scope"] = "%d documents of the small grammar (see gen/c13docs.small_scope_docs), every route, every offset" % count
    finally:
        shutil.rmtree(tmpdir, ignore_errors=True)


def replay(ctx, rec):
    dendropy = __import__("dendropy")
    c = rec["replay"]
    tmpdir = tempfile.mkdtemp(prefix="c13-")
    try:
        doc = {"schema": c["schema"], "text": c["text"], "opts": c.get("opts", {})}
        if "char_opts" in c:
            doc["char_opts"] = c["char_opts"]
        session = ModelSession(ctx)
        n0 = len(ctx.failures)
        if c.get("route_kind") == "matrix":
            check_matrices(ctx, dendropy, doc, tmpdir)
        elif c.get("probe") == "refused-by-list-only":
            check_refused_by_list_only(ctx, dendropy, doc, rec.get("kind") or "route-error")
        elif c.get("first") is not None:
            docA = {"schema": c["schema"], "text": c["first"], "opts": c.get("opts", {})}
            check_shared_identity(ctx, dendropy, docA, doc, tmpdir)
            correspond_incremental(ctx, dendropy, docA, doc, session)
            correspond_multi(ctx, dendropy, docA, doc, session)
        else:
            for mode in ([c["mode"]] if c.get("mode") else ["fresh", "shared"]):
                res = check_tree_routes(ctx, dendropy, doc, mode, tmpdir, True)
                if mode == "shared" and res[0] is None and check_tree_routes(ctx, dendropy, doc, "fresh", tmpdir, False)[0] is not None:
                    Case(ctx, doc, "shared").fail("route-error", "TreeList.get(taxon_namespace=)", "refuses the source (%s) that "
                                                  "TreeList.get reads into a namespace of its own" % res[1])
            if doc["schema"] in ("newick", "nexus") and res[0] is not None:
                blocks = res[2]
                correspond(ctx, dendropy, doc, session, None if blocks is None else [len(b) for b in blocks])
        session.flush()
        if c.get("first") is not None and rec.get("kind"):
            marks = {"ntax-counts-preexisting-taxa": "TooManyTaxaError", "taxon-numbers-follow-namespace-order": "appended trees differ"}
            for f in ctx.failures[n0:]:
                # a stored two-source witness names the class of its failure; any OTHER failure on it keeps its own kind
                if f["replay"].get("route") == "TreeList.read after TreeList.get" and marks.get(rec["kind"], "\0") in f["what"]:
                    f["kind"] = rec["kind"]
        # keep only the failures of the recorded route, if the record names one
        if c.get("route"):
            keep = [f for f in ctx.failures if f["replay"].get("route") == c["route"]]
            if keep:
                ctx.failures[:] = keep
    finally:
        shutil.rmtree(tmpdir, ignore_errors=True)


# ------------------------------------------------------------------------------------------ targeted search when an obligation broke
def _words_in(path, funcs):
    """every ALL-UPPER-CASE word literal in the named functions of a source file: the words the front ends compare tokens with.
    Used only as block names / statement keywords of well-formed NEXUS documents (an unknown word there is legal NEXUS)"""
    import ast
    out = set()
    try:
        tree = ast.parse(open(path).read())
    except Exception:
        return out
    for n in ast.walk(tree):
        if isinstance(n, ast.FunctionDef) and n.name in funcs:
            for c in ast.walk(n):
                if isinstance(c, ast.Constant) and isinstance(c.value, str) and re.fullmatch(r"[A-Z]{3,12}", c.value):
                    out.add(c.value)
    return out


def search(ctx, broken):
    """generation of Gen/C13Keys.lean or a theorem over it broke (or model and code disagree): the keyword tables of the reader
    and of its copy in the iterator, or the source-keyword dispatch, changed.  Look for a concrete source on which the routes
    now differ: every block name / statement keyword / source keyword either table mentions (now or as modelled), used in the
    position where the front ends test it, through every route."""
    dendropy = __import__("dendropy")
    from common import REPO
    src = os.path.join(REPO, "src", "dendropy")
    words = set(["TAXA", "CHARACTERS", "DATA", "TREES", "SETS", "ASSUMPTIONS", "CODONS", "BEGIN", "END", "ENDBLOCK", "LINK", "TITLE",
                 "TRANSLATE", "TREE", "NOTES", "PAUP"])
    words |= _words_in(os.path.join(src, "dataio", "nexusreader.py"), ("_parse_nexus_stream", "_parse_trees_block"))
    words |= _words_in(os.path.join(src, "dataio", "nexusyielder.py"), ("_yield_items_from_stream", "_yield_from_trees_block"))
    words = sorted(w.upper() for w in words)
    tmpdir = tempfile.mkdtemp(prefix="c13-")
    session = ModelSession(ctx)
    try:
        docs = []
        taxa = "BEGIN TAXA; DIMENSIONS NTAX=3; TAXLABELS a b c; END;\n"
        trees = "BEGIN TREES; TREE t1 = (a,(b,c)); TREE t2 = ((a,b),c); END;\n"
        for w in words:
            # as a block name, in front of / behind / between the trees
            for body in ("x;", "TITLE y; x 1 2;", ""):
                if w == "TAXA":
                    break          # a second TAXA block is a listed known finding of its own
                docs.append("#NEXUS\n" + taxa + "BEGIN %s; %s END;\n" % (w, body) + trees)
                docs.append("#NEXUS\n" + taxa + trees + "BEGIN %s; %s END;\n" % (w, body) + trees)
            # as a statement keyword inside a TREES block, before / between / after TREE statements
            docs.append("#NEXUS\n" + taxa + "BEGIN TREES; %s x; TREE t1 = (a,(b,c)); END;\n" % w)
            docs.append("#NEXUS\n" + taxa + "BEGIN TREES; TREE t1 = (a,(b,c)); %s x; TREE t2 = ((a,b),c); END;\n" % w)
            docs.append("#NEXUS\n" + taxa + "BEGIN TREES; TREE t1 = (a,(b,c)); TREE t2 = ((a,b),c); %s;\n" % w + trees)
            docs.append("#NEXUS\nBEGIN TREES; %s 1 a, 2 b, 3 c; TREE t1 = (1,(2,3)); %s 4 d; TREE t2 = ((1,2),4); END;\n" % (w, w))
        import time as _time
        deadline = _time.time() + ctx.pick(30, 150)      # the exploration budget is spent by now: the search has its own
        for text in docs:
            if _time.time() > deadline:
                ctx.count("search_documents_not_reached")
                continue
            one_document(ctx, dendropy, {"schema": "nexus", "text": text, "opts": {}}, tmpdir, session, full=False, kind="search")
            if len(session.pending) >= 400:
                session.flush()
        session.flush()
        # the source keywords: the DOCUMENTED ones only (`file`, `path`, `data`, and the legacy `stream`, `string`; `url` needs a
        # network), through get and read - every call made here is a valid call on the unchanged library, whatever the state of
        # the regenerated tables (never a keyword guessed from a partially parsed source)
        kws = ["file", "path", "data", "stream", "string"]
        text = "(a,(b,c));((a,b),c);"
        doc = {"schema": "newick", "text": text, "opts": {}}
        want = [tree_rec(t, TaxKey(None)) for t in dendropy.TreeList.get(data=text, schema="newick")]
        fd, path = tempfile.mkstemp(dir=tmpdir, suffix=".txt")
        with os.fdopen(fd, "w") as f:
            f.write(text)
        for kw in kws:
            val = {"file": lambda: io.StringIO(text), "stream": lambda: io.StringIO(text), "path": lambda: path}.get(kw, lambda: text)
            for via_read in (False, True):
                case = Case(ctx, doc, "fresh")
                name = "TreeList.%s(%s=)" % ("read" if via_read else "get", kw)

                def run():
                    if via_read:
                        tl = dendropy.TreeList()
                        tl.read(schema="newick", **{kw: val()})
                        return tl
                    return dendropy.TreeList.get(schema="newick", **{kw: val()})
                got = case.attempt(name, run, source=kw)
                if got is not None:
                    case.same(name, [tree_rec(t, TaxKey(None)) for t in got], want, "TreeList.get(data=)", source=kw)
    finally:
        shutil.rmtree(tmpdir, ignore_errors=True)
