"""C20 - readers terminate on every input and report bad data as a parse error.

Implementation side: Tree/TreeList/DataSet/CharacterMatrix.get(data= | path= | file=<text stream of several kinds>, schema=newick|nexus|phylip|fasta), each call
under an alarm.  Oracle (independent of the readers): outcome class in {well-formed result, DataParseError family,
documented ValueError for no data}; returned trees pass the literal arborescence check; returned matrices agree with
the dimensions the document declares (read off the text by the oracle's own regexes).  Model side (`drv_c20`): the
Lean tokenizer, Newick statement parser, PHYLIP/FASTA line readers and the NEXUS block/statement loops; their verdicts
(and token lists / tree shapes / row lengths) are compared with the implementation's on every generated input."""
import fractions
import io
import numbers
import re
import sys
import time

import treeutil as tu
from common import time_limit, Timeout, hex6

ID = "C20"
GEN_DEPENDS = ["Tables", "C20Consts"]
RULE = ("grammar-generated valid Newick/NEXUS/PHYLIP/FASTA documents (every supported block structure: TAXA, CHARACTERS/DATA "
        "sequential+interleaved, INTERLEAVE x MATCHCHAR matrices with every single-character edit of the matrix body, trees with [&k=v,..]/[&&NHX:..] metadata comments (quoted values, braces, long values) with every single-character corruption inside a comment, metadata extraction on and off, several TAXA blocks, TREES with/without TRANSLATE/LINK/TITLE, SETS/CHARSET, unknown blocks) x {every prefix, single "
        "and double edits (delete, insert, replace, drop span, duplicate span, drop word, insert keyword)}, random strings and "
        "keyword soups over each format's token alphabet, deep nesting / long comment runs; READER OPTIONS x NUMERIC FIELDS: every reader keyword "
        "that changes parsing (edge_length_type int/float/Fraction, the four rooting modes, suppress_edge_lengths, extract_comment_metadata, store_tree_weights, "
        "finish_node_fn, case_sensitive_taxon_labels with a case-sensitive namespace, preserve_underscores, suppress_internal/leaf_node_taxa, "
        "terminating_semicolon_required, ignore_unrecognized_keyword_arguments, is_parse_jplace_tokens, is_assign_internal_labels_to_edges, an attached "
        "(empty / populated) taxon_namespace; NEXUS exclude_chars / exclude_trees / store_ignored_blocks / unconstrained_taxa_accumulation_mode; PHYLIP "
        "strict / interleaved / multispace_delimiter / underscores_to_spaces / ignore_invalid_chars; every matrix class and DataSet data_type for PHYLIP and "
        "FASTA), 1-3 option sets merged, x one or two numeric fields (edge lengths, [&W] numerator and denominator, NTAX, NCHAR, CHARSET positions and "
        "steps, TRANSLATE keys, PHYLIP dimensions, continuous cells, jplace edge numbers) replaced by inf, -inf, Infinity, nan, 1e309, 1e400, 1e-400, 0x10, "
        "1_000, non-ASCII digits, '1.', '.5', '+1', '--1', '1e', 400-digit and 11-digit numbers, empty, 1/0, 0/0, quoted forms, ...; the full cross product "
        "option set x value x field on small fixed documents in the thorough tier and a sample of it (every option set, value and field) in the quick "
        "tier; FIXED OPENING GRIDS run in every tier before anything budget-bound: (i) NEXUS tree files WITHOUT a TAXA block / NTAX (MrBayes, BEAST style) with a "
        "complete or partial TRANSLATE table and leaves given by token, table label, new name, number or near miss ('3x', '0'), 126 documents, plus "
        "random members of that class every round with prefixes, edits and one-token corruptions inside TREE statements; (ii) valid multi-block "
        "interleaved PHYLIP documents (relaxed and strict, 2-4 blocks, 2-6 taxa) with EVERY truncation point and every single-line deletion / duplication, "
        "each read with interleaved=True and as sequential data, every row length of an accepted read checked against the header; "
        "a battery aimed at the regenerated constants (block names and synonyms, end keywords, DATATYPE keywords, initial FORMAT state, strict "
        "PHYLIP label widths 6-14); thorough adds every string up to a "
        "length bound over a small alphabet per format and every short NEXUS keyword sequence; non-trivial = the text is not a "
        "complete valid document (proper prefix, edited, or random) or the read ends in an error")
MODELLED_NOT_VERIFIED = [
    "C20: the Lean tokenizer / Newick parser / PHYLIP / FASTA / NEXUS block-and-statement loops are hand-written from "
    "tokenizer.py, nexusprocessing.py, newickreader.py, phylipreader.py, fastareader.py, nexusreader.py (repaired control flow) and tied "
    "to the code by the per-input comparison of token lists, verdicts, tree shapes and row lengths; the delimiter tables come from Gen/Tables.lean; "
    "the block names, end-of-block keywords, DATATYPE table, initial FORMAT state and strict PHYLIP label width are regenerated into Gen/C20Consts.lean "
    "and proved equal to the model's own (bridge theorems)",
    "C20: Python float()/int() acceptance is modelled for ASCII numerals only (non-ASCII texts are judged by the oracle only); str.upper()/lower() for ASCII + Latin-1 letters",
    "C20: NeXML is not among the four readers of the statement (it is built on the XML library, not on the tokenizer) and is left out; comment-metadata "
    "regexes, [&R]/[&U]/[&W] tree comments and the construction of state alphabets are outside "
    "the model (symbol sets are handed over as data; the oracle still judges every read)",
    "C20: the interpreter recursion limit is a runtime resource the model cannot exhibit (Newick nesting beyond it: known finding; the recursive descent "
    "has no small iterative rewrite)",
    "C20: reads with reader options (all keywords listed in the coverage rule) are judged by the oracle only; the model is of the default options "
    "(PHYLIP: strict / interleaved are modelled); NEXUS documents containing numbers of 7 or more digits are judged by the oracle only (the model keeps CHARSET "
    "position lists explicitly)",
    "C20: the budget theorem counts loop rounds of the NEXUS model; the Newick statement machine inside a TREE statement has its own real step budget "
    "(newick_fuel_suffices) and the tokenizer its own bound (token_count_bounded); the three are not added up into one number",
]
EXPLANATION = ("Theorems (Props/C20.lean, about the definitions drv_c20 runs; every loop is a total function): tokenizer_progress, "
               "token_count_bounded; newick_statement_progress, newick_never_internal (loop progress), newick_balanced, newick_inv_initial, "
               "nesting_sub_safe, skipSemis_leaves_token; ok_dims (final guards only), phylip_never_internal, phylip_loops_bounded; "
               "fasta_never_internal, fasta_rows_nonempty; reader_loop_rule, reader_loop_exit_rule, nexus_never_internal (every NEXUS loop makes "
               "progress), NEW nexus_fuel_suffices: readNexus starts with a budget of 18*|text|+8 loop rounds, every round of every loop at every nesting level "
               "(block loop, statement loops, MATRIX row / cell / multistate loops, skip_to_semicolon, CHARSET positions) takes one unit and an empty budget "
               "ends the read with a marker that is proved unreachable for every text and every outcome - a global linear step bound (the driver prints the "
               "rounds used; reader_loop_fuel_rule is the loop rule: body (a,b) gives loop (a+b+1,b+1)); "
               "statement_needs_semicolon + taxa_block_needs_end (a DIMENSIONS/TAXLABELS/LINK/FORMAT statement or TAXA block that is cut "
               "short cannot return: with termination it is a parse error), nexus_matrix_dims (one MATRIX call), "
               "nexus_result_dims (every matrix of a successful readNexus result is rectangular with positive width), rowFor_in_range, "
               "charset_positions_in_range; NEW (wave 2) phylip_never_accepts_ragged (an accepted PHYLIP matrix has all rows of the declared NCHAR, in every mode - the "
               "incomplete-last-block class); the refusal KIND of a NEXUS read is now part of the driver's answer and compared with the exception class "
               "(TooManyTaxaError, UndefinedTaxonError, other): reader_loop_error_rule (loop rule with an error side), "
               "translate_without_ntax_never_undefined_taxon (no NTAX declared => TRANSLATE never refuses with UndefinedTaxonError), "
               "too_many_taxa_needs_ntax; eof_is_parse_error (dichotomy ok / parse error on every text); NEW (wave 3) newick_fuel_suffices: the Newick statement machine run is the fuelled loop runF "
               "(one unit per machine step, budget 3*|unread input|+3) and never uses the budget up - the ghost counter is gone; matrix_row_stays_in_range: the row "
               "position handed to readStates is inside rows before and after, so rowLen's getD default is dead in the MATRIX row loop.  Tie A bridges (regenerated Gen/C20Consts.lean = the model's own definitions): block_names_bridge, "
               "end_keywords_bridge, datatype_bridge, phylip_width_bridge, reader_defaults_bridge.  "
               "Not proved: that labelsOf/nsIdx/ntax/nchar never take their getD defaults inside the NEXUS block code (rowLen's is dead in the row loop: matrix_row_stays_in_range); "
               "the 'no AttributeError/IndexError' clause for the implementation itself is evaluated by the oracle.")

ROUTES = {
    "newick": ["treelist", "treelist", "treelist", "tree", "dataset"],
    "nexus": ["dataset", "dataset", "dataset", "treelist", "dnamatrix"],
    "phylip": ["dnamatrix"],
    "fasta": ["dnamatrix"],
}
# the other matrix classes (the class fixes the reader's `data_type`); used by the option x numeric-field generator
MATRIX_ROUTES = {"dnamatrix": "DnaCharacterMatrix", "rnamatrix": "RnaCharacterMatrix", "proteinmatrix": "ProteinCharacterMatrix",
                 "standardmatrix": "StandardCharacterMatrix", "contmatrix": "ContinuousCharacterMatrix",
                 "restrictionmatrix": "RestrictionSitesCharacterMatrix", "infinitematrix": "InfiniteSitesCharacterMatrix"}

# ====================================================================== document generators
PUNCT = ";,()=:'[]{}-\" \n\t_.*?#>\\/"
LETTERS = "ABab19"
KEYWORDS = ["BEGIN", "END", "ENDBLOCK", "TAXA", "CHARACTERS", "DATA", "TREES", "SETS", "DIMENSIONS", "NTAX", "NCHAR",
            "TAXLABELS", "MATRIX", "FORMAT", "DATATYPE", "DNA", "STANDARD", "CONTINUOUS", "INTERLEAVE", "GAP", "MISSING",
            "MATCHCHAR", "SYMBOLS", "TREE", "TRANSLATE", "LINK", "TITLE", "CHARSET", "#NEXUS", "ALL", ";", "=", "NTAX=2",
            "NCHAR=3", "FOO"]
ALPHABET = {
    "newick": "(),:;'[]_ \n&RU" + "ab1.e-",
    "nexus": PUNCT + LETTERS,
    "phylip": "ACGT-?N \n\t12340ab_",
    "fasta": ">ACGT-?N \n\tab1_",
}


def _ws(rng):
    return rng.choice([" ", " ", " ", "\n", "\t", "  ", "\n  ", " [c] ", "\r\n"])


def label(rng, i, style=None):
    style = style or rng.choice(["plain", "plain", "plain", "us", "quoted", "quoted_sp", "quoted_q", "dotted"])
    if style == "plain":
        return "T%d" % i
    if style == "us":
        return "sp_%d" % i
    if style == "quoted":
        return "'t%d'" % i
    if style == "quoted_sp":
        return "'C %d'" % i
    if style == "quoted_q":
        return "'it''s%d'" % i
    return "G.s%d" % i


def newick_of(rng, shape, labels, lengths=True, internal=False, comments=False, blanks=False):
    it = iter(labels)

    def go(sh, depth):
        if not sh:
            s = next(it)
            if blanks and rng.random() < 0.1:
                s = ""
        else:
            s = "(" + ",".join(go(c, depth + 1) for c in sh) + ")"
            if internal and rng.random() < 0.5:
                s += rng.choice(["x%d" % depth, "'i n'", "0.95"])
        if comments and rng.random() < 0.2:
            s += rng.choice(["[c]", "[&a=1]", "[&&NHX:x=1]", " [c] "])
        if lengths and (depth > 0 or rng.random() < 0.3):
            s += ":" + rng.choice(["1", "0.5", "2.25", "1e-2", "0", "3.0E1", "10"])
        return s
    return go(shape, 0)


def gen_newick(rng):
    n_trees = rng.choice([1, 1, 2, 3])
    n = rng.randint(1, 7)
    labs = [label(rng, i) for i in range(n)]
    out = []
    for _ in range(n_trees):
        k = rng.randint(1, n)
        sub = rng.sample(labs, k)
        s = ""
        if rng.random() < 0.4:
            s += rng.choice(["[&R] ", "[&U] ", "[&R]", "[comment] ", "[&W 1/2] "])
        s += newick_of(rng, tu.rand_shape(rng, k, p_poly=0.3, p_unary=0.05), sub, lengths=rng.random() < 0.7,
                       internal=rng.random() < 0.4, comments=rng.random() < 0.3, blanks=rng.random() < 0.15)
        s += ";"
        out.append(s)
    sep = rng.choice(["\n", " ", "", "\n\n"])
    text = sep.join(out) + rng.choice(["\n", "", " "])
    return {"schema": "newick", "text": text, "kwargs": {}}


def kw(rng, word):
    r = rng.random()
    if r < 0.6:
        return word
    if r < 0.8:
        return word.lower()
    return word.capitalize()


def gen_continuous_rows(rng, labs, nchar, interleave):
    vals = [[rng.choice(["1.5", "0", "-2.25", "1e-2", "3", ".5", "7."]) for _ in range(nchar)] for _ in labs]
    lines = []
    if interleave:
        cuts = sorted(set([0, nchar] + [rng.randint(1, nchar) for _ in range(rng.choice([0, 1]))]))
        for a, b in zip(cuts, cuts[1:]):
            for lab, v in zip(labs, vals):
                lines.append("    %s %s" % (lab, " ".join(v[a:b])))
            lines.append("")
    else:
        for lab, v in zip(labs, vals):
            lines.append("    %s %s" % (lab, rng.choice([" ", "\n      "]).join(v)))
    return "\n".join(lines)


def gen_matrix_rows(rng, labs, nchar, datatype, interleave, matchchar):
    if datatype == "CONTINUOUS":
        return gen_continuous_rows(rng, labs, nchar, interleave)
    syms = {"DNA": "ACGT", "RNA": "ACGU", "PROTEIN": "ACDEFGHIKL", "STANDARD": "01"}[datatype]
    seqs = []
    for i, _ in enumerate(labs):
        cells = []
        for j in range(nchar):
            r = rng.random()
            if r < 0.75:
                cells.append(rng.choice(syms))
            elif r < 0.82:
                cells.append("-")
            elif r < 0.88:
                cells.append("?")
            elif r < 0.93 and len(syms) > 1:
                a, b = rng.sample(syms, 2)
                cells.append(rng.choice(["{%s%s}", "(%s%s)", "{%s %s}"]) % (a, b))
            elif matchchar and i > 0 and r < 0.97:
                cells.append(".")
            else:
                cells.append(rng.choice(syms).lower())
        seqs.append(cells)
    lines = []
    if interleave:
        cuts = sorted(set([0, nchar] + [rng.randint(1, nchar) for _ in range(rng.choice([0, 1, 2]))]))
        for a, b in zip(cuts, cuts[1:]):
            for lab, cells in zip(labs, seqs):
                lines.append("    %s %s" % (lab, "".join(cells[a:b])))
            lines.append("")
    else:
        for lab, cells in zip(labs, seqs):
            s = "".join(cells)
            if rng.random() < 0.2 and nchar > 2:
                k = rng.randint(1, nchar - 1)
                s = "".join(cells[:k]) + rng.choice([" ", "\n      "]) + "".join(cells[k:])
            lines.append("    %s%s%s" % (lab, rng.choice([" ", "  ", "\t", "\n      "]), s))
    return "\n".join(lines)


NEXUS_STRUCTURES = [
    ["taxa", "chars", "trees"], ["taxa", "trees"], ["taxa", "chars"], ["trees"], ["data"], ["taxa"],
    ["taxa", "chars", "trees", "sets"], ["taxa", "chars", "sets"], ["taxa", "unknown", "trees"], ["unknown"],
    ["taxa", "trees", "trees"], ["taxa", "chars", "chars", "trees"], ["data", "trees"],
    ["taxa", "chars", "unknown", "sets", "trees"],
]


def gen_nexus(rng, structure=None):
    n = rng.randint(1, 5)
    labs = [label(rng, i) for i in range(n)]
    blocks = []
    titled = rng.random() < 0.35
    parts = ["#NEXUS" if rng.random() < 0.85 else "#nexus"]
    if rng.random() < 0.3:
        parts.append("[a leading comment; with 'quote' and BEGIN]")
    structure = structure or rng.choice(NEXUS_STRUCTURES)
    nchar = rng.randint(1, 6)
    nmat = 0
    for b in structure:
        L = []
        if b == "taxa":
            L.append("%s %s;" % (kw(rng, "BEGIN"), kw(rng, "TAXA")))
            if titled:
                L.append("  %s tx;" % kw(rng, "TITLE"))
            L.append("  %s %s=%d;" % (kw(rng, "DIMENSIONS"), kw(rng, "NTAX"), n))
            L.append("  %s%s%s;" % (kw(rng, "TAXLABELS"), _ws(rng), _ws(rng).join(labs)))
            L.append(rng.choice(["END;", "end;", "ENDBLOCK;", "END ;"]))
        elif b in ("chars", "data"):
            nmat += 1
            datatype = rng.choice(["DNA", "DNA", "STANDARD", "PROTEIN", "RNA", "CONTINUOUS"])
            interleave = rng.random() < 0.3
            matchchar = rng.random() < 0.25
            L.append("%s %s;" % (kw(rng, "BEGIN"), kw(rng, "DATA" if b == "data" else "CHARACTERS")))
            if titled or (structure.count("chars") > 1):
                L.append("  TITLE ch%d;" % nmat)
            if titled and "taxa" in structure:
                L.append("  LINK TAXA = tx;")
            dims = "  %s " % kw(rng, "DIMENSIONS")
            if b == "data" or rng.random() < 0.3:
                dims += "%s=%d " % (kw(rng, "NTAX"), n)
            dims += "%s=%d;" % (kw(rng, "NCHAR"), nchar)
            L.append(dims)
            fmt = "  %s %s=%s" % (kw(rng, "FORMAT"), kw(rng, "DATATYPE"), datatype)
            if datatype == "STANDARD" and rng.random() < 0.6:
                fmt += ' SYMBOLS="01"' if rng.random() < 0.7 else ' SYMBOLS = "0 1"'
            if rng.random() < 0.5:
                fmt += " GAP=-"
            if rng.random() < 0.5:
                fmt += " MISSING=?"
            if matchchar:
                fmt += " MATCHCHAR=."
            if interleave:
                fmt += rng.choice([" INTERLEAVE", " INTERLEAVE=YES", " interleave=yes"])
            elif rng.random() < 0.2:
                fmt += " INTERLEAVE=NO"
            L.append(fmt + ";")
            L.append("  %s" % kw(rng, "MATRIX"))
            L.append(gen_matrix_rows(rng, labs, nchar, datatype, interleave, matchchar))
            L.append("  ;")
            L.append(rng.choice(["END;", "end;", "ENDBLOCK;"]))
        elif b == "trees":
            L.append("%s %s;" % (kw(rng, "BEGIN"), kw(rng, "TREES")))
            if titled:
                L.append("  TITLE tr%d;" % len(blocks))
                if "taxa" in structure:
                    L.append("  LINK TAXA = tx;")
            translate = rng.random() < 0.45
            if translate:
                L.append("  %s" % kw(rng, "TRANSLATE"))
                L.append(",\n".join("    %d %s" % (i + 1, l) for i, l in enumerate(labs)) + rng.choice([";", "\n  ;"]))
            for t in range(rng.choice([0, 1, 1, 2, 3])):
                k = rng.randint(1, n)
                idx = rng.sample(range(n), k)
                names = [(str(i + 1) if translate and rng.random() < 0.8 else labs[i]) for i in idx]
                L.append("  %s %s%s = %s%s;" % (kw(rng, "TREE"), rng.choice(["", "", "* "]), rng.choice(["t%d" % t, "'tree %d'" % t]),
                                                rng.choice(["", "[&R] ", "[&U] ", "[&W 1] "]),
                                                newick_of(rng, tu.rand_shape(rng, k, p_poly=0.3, p_unary=0.05), names,
                                                          lengths=rng.random() < 0.7, internal=rng.random() < 0.3,
                                                          comments=rng.random() < 0.2)))
            L.append(rng.choice(["END;", "end;", "ENDBLOCK;"]))
        elif b == "sets":
            L.append("BEGIN %s;" % rng.choice(["SETS", "SETS", "ASSUMPTIONS", "CODONS"]))
            for c in range(rng.choice([0, 1, 2])):
                a = rng.randint(1, nchar)
                bb = rng.randint(a, nchar)
                L.append("  %s c%d = %s;" % (kw(rng, "CHARSET"), c, rng.choice(
                    ["%d-%d" % (a, bb), "%d" % a, "%d %d" % (a, bb), "%d-." % a, "all", "%d-%d\\2" % (a, bb), "%d - %d" % (a, bb)])))
            L.append("END;")
        else:
            L.append("BEGIN %s;" % rng.choice(["PAUP", "MRBAYES", "NOTES", "FOO"]))
            L.append(rng.choice(["  set autoclose=yes;", "  text = 'a; b' x;", "  [just a comment]", "  log start; hsearch;"]))
            L.append(rng.choice(["END;", "end;"]))
        blocks.append("\n".join(L))
    text = "\n".join(parts) + "\n" + "\n".join(blocks) + rng.choice(["\n", "", "\n\n"])
    return {"schema": "nexus", "text": text, "kwargs": {}}


def gen_nexus_multi(rng):
    """several TAXA blocks with titles; CHARACTERS / TREES blocks linked to one of them (Mesquite style)"""
    sizes = {"tA": rng.randint(1, 4), "tB": rng.randint(1, 4)}
    labs = {"tA": ["A%d" % i for i in range(sizes["tA"])], "tB": [label(rng, i) for i in range(sizes["tB"])]}
    L = ["#NEXUS"]
    for t in ("tA", "tB"):
        L.append("BEGIN TAXA;\n  TITLE %s;\n  DIMENSIONS NTAX=%d;\n  TAXLABELS %s;\nEND;" % (t, sizes[t], " ".join(labs[t])))
    for k in range(rng.randint(1, 4)):
        t = rng.choice(["tA", "tB"])
        link = "  LINK TAXA = %s;" % (t if rng.random() < 0.8 else t.upper())
        if rng.random() < 0.55:
            nchar = rng.randint(1, 5)
            dims = "  DIMENSIONS %sNCHAR=%d;" % (("NTAX=%d " % sizes[t]) if rng.random() < 0.4 else "", nchar)
            interleave = rng.random() < 0.3
            L.append("BEGIN CHARACTERS;\n  TITLE c%d;\n%s\n%s\n  FORMAT DATATYPE=DNA%s;\n  MATRIX\n%s\n  ;\nEND;" % (
                k, link, dims, " INTERLEAVE" if interleave else "", gen_matrix_rows(rng, labs[t], nchar, "DNA", interleave, False)))
        else:
            trees = []
            for j in range(rng.randint(0, 2)):
                n = rng.randint(1, sizes[t])
                trees.append("  TREE t%d = %s;" % (j, newick_of(rng, tu.rand_shape(rng, n, p_poly=0.3, p_unary=0.05), rng.sample(labs[t], n),
                                                                lengths=rng.random() < 0.5)))
            L.append("BEGIN TREES;\n  TITLE r%d;\n%s\n%s\nEND;" % (k, link, "\n".join(trees)))
    if rng.random() < 0.3:
        L.append("BEGIN SETS;\n  LINK CHARACTERS = c0;\n  CHARSET s = 1;\nEND;")
    return {"schema": "nexus", "text": "\n".join(L) + "\n", "kwargs": {}}


def gen_nexus_interleave_match(rng):
    """an INTERLEAVE matrix that uses MATCHCHAR, in 2-3 sections; returns the document and the span of the MATRIX body"""
    n = rng.randint(2, 4)
    labs = [rng.choice(["a%d", "T%d", "sp_%d"]) % i for i in range(n)]
    datatype = rng.choice(["DNA", "DNA", "RNA", "STANDARD"])
    syms = {"DNA": "ACGT", "RNA": "ACGU", "STANDARD": "01"}[datatype]
    mc = rng.choice([".", ".", ".", "!"])
    widths = [rng.randint(1, 4) for _ in range(rng.randint(2, 3))]
    nchar = sum(widths)
    first = [rng.choice(syms) for _ in range(nchar)]
    rows = [first] + [[(mc if rng.random() < 0.5 else rng.choice(syms + "-?")) for _ in range(nchar)] for _ in range(n - 1)]
    head = "#NEXUS\nBEGIN %s;\n  DIMENSIONS NTAX=%d NCHAR=%d;\n  FORMAT DATATYPE=%s%s %s MATCHCHAR=%s%s;\n  MATRIX\n" % (
        rng.choice(["DATA", "data", "CHARACTERS"]), n, nchar, datatype, ' SYMBOLS="01"' if datatype == "STANDARD" and rng.random() < 0.5 else "",
        rng.choice(["INTERLEAVE", "interleave=yes", "INTERLEAVE"]), mc, rng.choice(["", " GAP=- MISSING=?"]))
    body, col = [], 0
    for w in widths:
        for l, r in zip(labs, rows):
            body.append("    %s%s%s\n" % (l, rng.choice([" ", "  "]), "".join(r[col:col + w])))
        body.append("\n")
        col += w
    body = "".join(body)
    tail = "  ;\nEND;\n" + rng.choice(["", "BEGIN TREES;\n  TREE t = (%s);\nEND;\n" % ",".join(labs)])
    return {"schema": "nexus", "text": head + body + tail, "kwargs": {}}, (len(head), len(head) + len(body)), mc


def matrix_body_edits(doc, span, mc):
    """every single-character edit of the MATRIX body that moves, removes or introduces a cell: delete, insert or
    substitute the match character / a state symbol / a separator at each position"""
    text = doc["text"]
    a, b = span
    for i in range(a, b):
        yield text[:i] + text[i + 1:]
        for ch in (mc, "A", "0", " ", "\n", ";"):
            yield text[:i] + ch + text[i:]
            if text[i] != ch:
                yield text[:i] + ch + text[i + 1:]


def metadata_comment(rng):
    """a FigTree/BEAST- or NHX-style metadata comment with quoted values, braces, nested brackets and long values"""
    long_text = " ".join(rng.choice(["crown", "group", "of", "the", "stem", "lineage", "node", "alpha", "beta"]) for _ in range(rng.randint(6, 12)))
    values = ['"%s"' % long_text, '"a,b"', "{0.1,0.25}", '{"x y","z"}', "0.98", "1.0E-2", "'q v'", "abc", '{%s}' % ",".join("%d.5" % i for i in range(12)),
              "[nested]", '"%s"' % ("x" * rng.randint(40, 60)), "%s" % ("y" * rng.randint(40, 60))]
    if rng.random() < 0.35:
        fields = ["%s=%s" % (rng.choice(["S", "B", "name", "T"]), rng.choice(values)) for _ in range(rng.randint(1, 4))]
        return "[&&NHX:%s]" % ":".join(fields)
    fields = ["%s=%s" % (rng.choice(["posterior", "name", "height_95%_HPD", "rate", "!color", "label"]), rng.choice(values))
              for _ in range(rng.randint(1, 4))]
    return "[&%s]" % ",".join(fields)


def gen_metadata_tree(rng, nexus=None):
    """a tree whose tree / node / edge comments carry metadata; returns the document and the spans of the comments"""
    n = rng.randint(2, 4)
    labs = ["T%d" % i for i in range(n)]
    spans = []
    parts = []

    def emit(text, comment=False):
        pos = sum(len(x) for x in parts)
        parts.append(text)
        if comment:
            spans.append((pos, pos + len(text)))
    nexus = rng.random() < 0.4 if nexus is None else nexus
    if nexus:
        emit("#NEXUS\nBEGIN TAXA;\n  DIMENSIONS NTAX=%d;\n  TAXLABELS %s;\nEND;\nBEGIN TREES;\n  TREE t1 = " % (n, " ".join(labs)))
    if rng.random() < 0.6:
        emit(rng.choice(["[&R] ", "[&U] ", ""]))
        emit(metadata_comment(rng), True)
        emit(" ")
    emit("(")
    for i, l in enumerate(labs):
        if i:
            emit(",")
        emit(l)
        if rng.random() < 0.6:
            emit(metadata_comment(rng), True)
        emit(":%s" % rng.choice(["1", "0.5", "2.25"]))
        if rng.random() < 0.4:
            emit(metadata_comment(rng), True)
    emit(")")
    if rng.random() < 0.5:
        emit(metadata_comment(rng), True)
    emit(";\n")
    if nexus:
        emit("END;\n")
    if not spans:
        return gen_metadata_tree(rng, nexus)
    return {"schema": "nexus" if nexus else "newick", "text": "".join(parts), "kwargs": {}}, spans


def comment_edits(doc, spans):
    """single-character corruptions inside the metadata comments: every deletion; quote, brace, bracket, separator insertions"""
    text = doc["text"]
    for a, b in spans:
        for i in range(a, b):
            yield text[:i] + text[i + 1:]
        for i in range(a + 1, b):
            for ch in ('"', "'", "{", "}", "=", ",", "[", "]"):
                yield text[:i] + ch + text[i:]


def gen_phylip(rng):
    n = rng.randint(1, 5)
    nchar = rng.randint(1, 9)
    strict = rng.random() < 0.35
    interleaved = rng.random() < 0.4
    labs = [rng.choice(["T%d", "sp_%d", "Tax%d", "x%d"]) % i for i in range(n)]
    seqs = ["".join(rng.choice("ACGT-?N" if rng.random() < 0.9 else "acgt") for _ in range(nchar)) for _ in range(n)]
    lines = ["%s%d %d" % (rng.choice(["", " ", "  "]), n, nchar)]

    def lab_field(l):
        if strict:
            return l.ljust(10)
        return l + rng.choice([" ", "  ", "\t", "   "])

    def spaced(s):
        if len(s) > 3 and rng.random() < 0.3:
            k = rng.randint(1, len(s) - 1)
            return s[:k] + " " + s[k:]
        return s
    if interleaved:
        cuts = sorted(set([0, nchar] + [rng.randint(1, nchar) for _ in range(rng.choice([0, 1, 2]))]))
        first = True
        for a, b in zip(cuts, cuts[1:]):
            for l, s in zip(labs, seqs):
                lines.append((lab_field(l) if first else rng.choice(["", " "])) + spaced(s[a:b]))
            first = False
            lines.append("")
    else:
        for l, s in zip(labs, seqs):
            if nchar > 2 and rng.random() < 0.25:
                k = rng.randint(1, nchar - 1)
                lines.append(lab_field(l) + spaced(s[:k]))
                lines.append(rng.choice(["", "  "]) + s[k:])
            else:
                lines.append(lab_field(l) + spaced(s))
    text = "\n".join(lines) + rng.choice(["\n", "\n", "\n\n"])
    kwargs = {}
    if strict:
        kwargs["strict"] = True
    if interleaved:
        kwargs["interleaved"] = True
    return {"schema": "phylip", "text": text, "kwargs": kwargs}


def gen_fasta(rng):
    n = rng.randint(1, 5)
    lines = []
    for i in range(n):
        lines.append(">" + rng.choice(["T%d", "sp_%d", "C d%d", " x%d "]) % i)
        for _ in range(rng.choice([1, 1, 2, 3])):
            lines.append("".join(rng.choice("ACGT-?N" if rng.random() < 0.9 else "acgt ") for _ in range(rng.randint(1, 8))))
        if rng.random() < 0.2:
            lines.append("")
    text = "\n".join(lines) + rng.choice(["\n", "", "\n\n"])
    return {"schema": "fasta", "text": text, "kwargs": {}}


NEWICK_OPTIONS = [
    {"preserve_underscores": True}, {"suppress_internal_node_taxa": False}, {"suppress_leaf_node_taxa": True},
    {"suppress_edge_lengths": True}, {"rooting": "force-rooted"}, {"rooting": "default-unrooted"}, {"store_tree_weights": True},
    {"extract_comment_metadata": False}, {"terminating_semicolon_required": False},
    {"suppress_internal_node_taxa": False, "suppress_leaf_node_taxa": True, "preserve_underscores": True},
]
# ====================================================================== reader options x numeric fields
# Every reader keyword that changes parsing; values that are not JSON are "@..." markers (see decode_kwargs).
TREE_OPTIONS = [
    {"edge_length_type": "@int"}, {"edge_length_type": "@float"}, {"edge_length_type": "@Fraction"},
    {"rooting": "default-unrooted"}, {"rooting": "default-rooted"}, {"rooting": "force-unrooted"}, {"rooting": "force-rooted"},
    {"suppress_edge_lengths": True}, {"extract_comment_metadata": False}, {"extract_comment_metadata": True},
    {"store_tree_weights": True}, {"finish_node_fn": "@fn"}, {"preserve_underscores": True},
    # case-sensitive reading is documented to need a case-sensitive namespace (anything else is a usage error on every input)
    {"case_sensitive_taxon_labels": True, "taxon_namespace": "@tnscs:"}, {"case_sensitive_taxon_labels": True, "taxon_namespace": "@tnscs:T0|t0|T1"},
    {"suppress_internal_node_taxa": False}, {"suppress_leaf_node_taxa": True}, {"terminating_semicolon_required": False},
    {"ignore_unrecognized_keyword_arguments": True, "no_such_reader_option": 1}, {"is_parse_jplace_tokens": True},
    {"is_assign_internal_labels_to_edges": True}, {"taxon_namespace": "@tns:T0|T1|sp 2"}, {"taxon_namespace": "@tns:"},
]
NEXUS_ONLY_OPTIONS = [{"exclude_chars": True}, {"exclude_trees": True}, {"store_ignored_blocks": True},
                      {"unconstrained_taxa_accumulation_mode": True}]
PHYLIP_OPTIONS = [{}, {"strict": True}, {"interleaved": True}, {"strict": True, "interleaved": True}, {"multispace_delimiter": True},
                  {"underscores_to_spaces": True}, {"ignore_invalid_chars": True}, {"multispace_delimiter": True, "interleaved": True}]
MATRIX_OPTIONS = [{"taxon_namespace": "@tns:T0|T1"}, {"taxon_namespace": "@tns:"}]
DATA_TYPES = {"dnamatrix": "dna", "rnamatrix": "rna", "proteinmatrix": "protein", "standardmatrix": "standard", "contmatrix": "continuous",
              "restrictionmatrix": "restriction", "infinitematrix": "infinite"}

# what a numeric field of a document is replaced by
NUMERIC_VALUES = ["inf", "-inf", "Infinity", "-Infinity", "nan", "NaN", "1e309", "-1e309", "1e400", "1e-400", "0x10", "1_000", "١٢",
                  "1.", ".5", "+1", "--1", "1e", "e1", "9" * 400, "99999999999", "", "1/0", "1/2", "0/0", "0", "-1", "-0", "00", "2", "1e5",
                  "1E+2", "0.0", "'inf'", "'1e309'", "'9'", "'-1'", "1 2", "1,2", "1e3.5", "٣.٥", "½", "1" + "0" * 30 + ".5"]
LONG_DIGITS = re.compile(r"\d{7,}")

# where the numeric fields of a document are: (kind, regex whose group 1 is the field)
NUMERIC_SITES = [
    ("edge_length", re.compile(r":[ \t]*('[^']*'|[^,();\[\]\s:{}]+)")),
    ("tree_weight", re.compile(r"\[&[Ww] ([^\]/]*)")),
    ("tree_weight_den", re.compile(r"\[&[Ww] [^\]/]*/([^\]]*)")),
    ("ntax", re.compile(r"(?i)\bntax\s*=\s*(\d+)")),
    ("nchar", re.compile(r"(?i)\bnchar\s*=\s*(\d+)")),
    ("charset_position", re.compile(r"(?i)\bcharset\s+\S+\s*=[^;]*?(\d+|\.)(?=[^;]*;)")),
    ("charset_step", re.compile(r"(?i)\bcharset\s+\S+\s*=[^;]*\\\s*(\d+)")),
    ("phylip_ntax", re.compile(r"\A\s*(\d+)\s+\d+")),
    ("phylip_nchar", re.compile(r"\A\s*\d+\s+(\d+)")),
    ("continuous_cell", re.compile(r"(?m)^[ \t]*[A-Za-z]\w*[ \t]+(?:-?[\d.]+(?:e-?\d+)?[ \t]+)*?(-?[\d.]+(?:e-?\d+)?)(?=[ \t\n])")),
    ("jplace_edge_number", re.compile(r"\{(\d+)\}")),
    ("translate_key", re.compile(r"(?m)^\s+(\d+) \S+[,;]?$")),
]


def numeric_fields(text):
    """all (kind, start, end) of numeric fields in a document"""
    out = []
    for kind, rx in NUMERIC_SITES:
        for m in rx.finditer(text):
            out.append((kind, m.start(1), m.end(1)))
    return out


def gen_numeric_doc(rng):
    """a valid document rich in numeric fields, with the reader options and the route it is to be read under"""
    r = rng.random()
    labs = ["T0", "T1", "sp_2", "'t 3'"][:rng.randint(2, 4)]
    n = len(labs)
    if r < 0.3:
        trees = []
        for _ in range(rng.randint(1, 2)):
            w = rng.choice(["", "[&W 1/2] ", "[&W 0.25] ", "[&w 3] ", "[&R] [&W 1/4] ", "[&U] "])
            trees.append(w + newick_of(rng, tu.rand_shape(rng, n, p_poly=0.3, p_unary=0.05), rng.sample(labs, n), lengths=True,
                                       internal=rng.random() < 0.4, comments=rng.random() < 0.2) + ";")
        return {"schema": "newick", "text": "\n".join(trees) + "\n"}, "tree"
    if r < 0.38:
        return {"schema": "newick", "text": "(%s);\n" % ",".join("%s:%s{%d}" % (l, rng.choice(["1", "0.5"]), i) for i, l in enumerate(labs))}, "jplace"
    if r < 0.7:
        nchar = rng.randint(2, 5)
        cont = rng.random() < 0.35
        interleave = rng.random() < 0.3
        L = ["#NEXUS", "BEGIN TAXA;", "  DIMENSIONS NTAX=%d;" % n, "  TAXLABELS %s;" % " ".join(labs), "END;"]
        L += ["BEGIN CHARACTERS;", "  DIMENSIONS %sNCHAR=%d;" % ("NTAX=%d " % n if rng.random() < 0.5 else "", nchar),
              "  FORMAT DATATYPE=%s%s;" % ("CONTINUOUS" if cont else "DNA", " INTERLEAVE" if interleave else ""), "  MATRIX",
              gen_matrix_rows(rng, labs, nchar, "CONTINUOUS" if cont else "DNA", interleave, False), "  ;", "END;"]
        if rng.random() < 0.7:
            a = rng.randint(1, nchar)
            L += ["BEGIN SETS;", "  CHARSET c1 = %s;" % rng.choice(["%d-%d" % (a, nchar), "1-%d\\2" % nchar, "%d %d" % (1, a), "%d-." % a, "%d" % a]), "END;"]
        translate = rng.random() < 0.5
        L += ["BEGIN TREES;"]
        if translate:
            L += ["  TRANSLATE", ",\n".join("    %d %s" % (i + 1, l) for i, l in enumerate(labs)) + ";"]
        for t in range(rng.randint(1, 2)):
            names = [str(i + 1) if translate else l for i, l in enumerate(labs)]
            L.append("  TREE t%d = %s%s;" % (t, rng.choice(["", "[&W 1/2] ", "[&R] [&W 0.5] "]),
                                            newick_of(rng, tu.rand_shape(rng, n, p_poly=0.3, p_unary=0.05), names, lengths=True)))
        L += ["END;"]
        return {"schema": "nexus", "text": "\n".join(L) + "\n"}, "nexus"
    if r < 0.87:
        doc = gen_phylip(rng)
        if rng.random() < 0.35:
            nchar = rng.randint(1, 4)
            rows = ["%s  %s" % (l.strip("'").replace(" ", "_"), " ".join(rng.choice(["1.5", "0", "-2.25", "1e-2", "3", ".5", "7."]) for _ in range(nchar))) for l in labs]
            return {"schema": "phylip", "text": "%d %d\n%s\n\n" % (n, nchar, "\n".join(rows)), "kwargs": {}}, "phylip_cont"
        return doc, "phylip"
    return gen_fasta(rng), "fasta"


def options_for(rng, kind, doc):
    """reader options (1-3 merged option sets) and a route for a document of the given kind"""
    schema = doc["schema"]
    kwargs = dict(doc.get("kwargs") or {})
    if kind in ("tree", "jplace", "nexus"):
        pool = TREE_OPTIONS + (NEXUS_ONLY_OPTIONS if kind == "nexus" else [])
        for o in rng.sample(pool, rng.choice([1, 1, 2, 3])):
            kwargs.update(o)
        if kind == "jplace" and rng.random() < 0.8:
            kwargs["is_parse_jplace_tokens"] = True
        if kwargs.get("case_sensitive_taxon_labels") and not str(kwargs.get("taxon_namespace", "")).startswith("@tnscs:"):
            kwargs["taxon_namespace"] = "@tnscs:" + str(kwargs.get("taxon_namespace", "@tns:"))[5:]
        if kwargs.get("is_assign_internal_labels_to_edges") and kwargs.get("suppress_internal_node_taxa") is False:
            del kwargs["suppress_internal_node_taxa"]            # documented as conflicting (a usage error, not a data error)
        route = rng.choice(ROUTES[schema])
        if route == "dnamatrix" and any(k in kwargs for k in ("exclude_chars",)):
            route = "dataset"
        return kwargs, route
    if kind in ("phylip", "phylip_cont"):
        kwargs.update(rng.choice(PHYLIP_OPTIONS))
        if rng.random() < 0.3:
            kwargs.update(rng.choice(MATRIX_OPTIONS))
        route = "contmatrix" if kind == "phylip_cont" and rng.random() < 0.8 else rng.choice(sorted(MATRIX_ROUTES) + ["dataset"])
    else:
        if rng.random() < 0.3:
            kwargs.update(rng.choice(MATRIX_OPTIONS))
        # FASTA is a sequence format: continuous data is a configuration, not an input, the reader cannot serve
        route = rng.choice(sorted(set(MATRIX_ROUTES) - {"contmatrix"}) + ["dataset"])
    if route == "dataset":
        kwargs["data_type"] = rng.choice(sorted(set(DATA_TYPES.values()) - ({"continuous"} if schema == "fasta" else set())))
    return kwargs, route


def option_numeric_cases(rng, n_docs, per_doc):
    """documents read under non-default reader options, with one or two numeric fields replaced"""
    for _ in range(n_docs):
        doc, kind = gen_numeric_doc(rng)
        text = doc["text"]
        fields = numeric_fields(text)
        kwargs, route = options_for(rng, kind, doc)
        yield make_case(doc["schema"], text, kwargs, route, "optvalid")
        if not fields:
            continue
        for k in range(per_doc):
            if k % 4 == 3:
                kwargs, route = options_for(rng, kind, doc)
            t = text
            picks = sorted(rng.sample(fields, min(len(fields), rng.choice([1, 1, 1, 2]))), key=lambda f: -f[1])
            kinds = []
            for fkind, a, b in picks:
                v = rng.choice(NUMERIC_VALUES)
                if fkind == "nchar" and LONG_DIGITS.fullmatch(v) and re.search(r"(?i)charset", text):
                    v = "7"       # `CHARSET x = ALL` under an astronomically large NCHAR builds the whole position set: not a parsing matter
                t = t[:a] + v + t[b:]
                kinds.append(fkind)
            yield make_case(doc["schema"], t, kwargs, route, "optnum:" + "+".join(sorted(set(kinds))))


def option_numeric_sweep(rng, full):
    """the cross product option set x numeric value x field kind on small fixed documents (thorough: complete; quick: a
    sample that still visits every option set, every value and every field kind)"""
    templates = [
        ("newick", "tree", "[&W {W}] (T0:{E},(T1:2,sp_2:0.5)x:1e-2);\n", {"E": "1", "W": "1/2"}),
        ("newick", "tree", "[&W 1/{W}] (T0:1,T1:{E});\n", {"E": "0.5", "W": "4"}),
        ("newick", "jplace", "(T0:1{{{J}}},T1:2{{1}});\n", {"J": "0"}),
        ("nexus", "nexus", "#NEXUS\nBEGIN TAXA;\n DIMENSIONS NTAX={NTAX};\n TAXLABELS T0 T1;\nEND;\nBEGIN CHARACTERS;\n DIMENSIONS NCHAR={NCHAR};\n FORMAT DATATYPE=DNA;\n MATRIX\n T0 ACG\n T1 ACG\n ;\nEND;\n"
                            "BEGIN SETS;\n CHARSET c = {P}-{Q}\\{S};\nEND;\nBEGIN TREES;\n TREE t = [&W {W}] (T0:{E},T1:1);\nEND;\n",
         {"NTAX": "2", "NCHAR": "3", "P": "1", "Q": "3", "S": "2", "W": "1", "E": "1"}),
        ("nexus", "nexus", "#NEXUS\nBEGIN DATA;\n DIMENSIONS NTAX={NTAX} NCHAR={NCHAR};\n FORMAT DATATYPE=CONTINUOUS;\n MATRIX\n T0 1.5 {C}\n T1 0 2\n ;\nEND;\nBEGIN SETS;\n CHARSET c = {P};\nEND;\n",
         {"NTAX": "2", "NCHAR": "2", "C": "2.5", "P": "1"}),
        ("phylip", "phylip", "{NTAX} {NCHAR}\nT0  ACG\nT1  ACG\n\n", {"NTAX": "2", "NCHAR": "3"}),
        ("phylip", "phylip_cont", "{NTAX} {NCHAR}\nT0  1.5 {C}\nT1  0 2\n\n", {"NTAX": "2", "NCHAR": "2", "C": "2.5"}),
    ]
    for schema, kind, tpl, valid in templates:
        if kind in ("tree", "jplace", "nexus"):
            opts = [{}] + TREE_OPTIONS + (NEXUS_ONLY_OPTIONS if kind == "nexus" else [])
        elif kind.startswith("phylip"):
            opts = PHYLIP_OPTIONS
        else:
            opts = [{}]
        if kind == "jplace":
            opts = [dict(o, is_parse_jplace_tokens=True) for o in opts]
        for field in sorted(valid):
            for v in NUMERIC_VALUES:
                if field == "NCHAR" and LONG_DIGITS.fullmatch(v) and "{P}" in tpl:
                    continue
                chosen = opts if full else rng.sample(opts, min(len(opts), 3))
                for o in chosen:
                    text = tpl.format(**dict(valid, **{field: v}))
                    route = {"phylip": "dnamatrix", "phylip_cont": "contmatrix"}.get(kind) or rng.choice(ROUTES[schema][:4])
                    yield make_case(schema, text, o, route, "optsweep:" + field)
        for o in opts:           # every option set also on the valid document and on a random value per field
            yield make_case(schema, tpl.format(**valid), o, {"phylip": "dnamatrix", "phylip_cont": "contmatrix"}.get(kind) or ROUTES[schema][0], "optvalid")
            for field in sorted(valid):
                v = rng.choice(NUMERIC_VALUES)
                if field == "NCHAR" and LONG_DIGITS.fullmatch(v) and "{P}" in tpl:
                    continue
                yield make_case(schema, tpl.format(**dict(valid, **{field: v})), o,
                                {"phylip": "dnamatrix", "phylip_cont": "contmatrix"}.get(kind) or ROUTES[schema][0], "optsweep:" + field)


def translate_only_grid():
    """fixed opening grid: NEXUS sources WITHOUT a TAXA block / NTAX before the TREES block (MrBayes / BEAST tree files) with a
    TRANSLATE statement, and tree statements whose leaves are translated tokens, labels of the table, taxon numbers, labels
    that are none of these (partial table, one corrupted token), quoted and underscore forms"""
    tables = [("1 A, 2 B, 3 C", ["1", "2", "3"]), ("1 A, 2 B", ["1", "2", "C"]), ("1 A,\n 2 B,\n 3 C", ["1", "2", "3x"]),
              ("a A, b B", ["a", "b", "zz"]), ("1 A", ["1", "B", "C"]), ("1 'A a', 2 B_b", ["1", "2", "'C c'"]),
              ("1 A, 2 B, 3 C", ["A", "B", "4"]), ("1 A, 2 B, 3 C", ["1", "2", "4x"]), ("1 A, 2 B, 3 C", ["1", "2", "0"])]
    shapes = ["(%s,%s,%s)", "(%s,(%s,%s))", "((%s:1,%s:2):0.5,%s:1)"]
    heads = ["", "[ID: 123]\n", "BEGIN NOTES;\n x;\nEND;\n"]
    for table, leaves in tables:
        for sh in shapes:
            for head in heads[:2 if sh != shapes[0] else 3]:
                for extra in ("", "  TREE u = %s;\n" % (sh % tuple(reversed(leaves)))):
                    yield "#NEXUS\n%sBEGIN TREES;\n  TRANSLATE\n %s;\n  TREE t = [&U] %s;\n%sEND;\n" % (head, table, sh % tuple(leaves), extra)


def gen_nexus_translate_only(rng):
    """random member of the same class: no TAXA block, TRANSLATE (complete or partial), trees over tokens / labels / numbers,
    then possibly one token of a tree replaced by a near miss"""
    n = rng.randint(2, 6)
    labs = [label(rng, i) for i in range(n)]
    keys = [str(i + 1) if rng.random() < 0.85 else "k%d" % i for i in range(n)]
    listed = [i for i in range(n) if rng.random() < 0.8] or [0]
    L = ["#NEXUS" if rng.random() < 0.9 else "#nexus"]
    if rng.random() < 0.3:
        L.append(rng.choice(["[ID: 0123456789]", "BEGIN MRBAYES;\n  set autoclose=yes;\nEND;", "[generated by a sampler]"]))
    L.append("%s %s;" % (kw(rng, "BEGIN"), kw(rng, "TREES")))
    L.append("  %s" % kw(rng, "TRANSLATE"))
    L.append(",\n".join("    %s %s" % (keys[i], labs[i]) for i in listed) + rng.choice([";", "\n  ;"]))
    for t in range(rng.randint(1, 3)):
        k = rng.randint(1, n)
        idx = rng.sample(range(n), k)
        names = []
        for i in idx:
            r = rng.random()
            if i in listed and r < 0.7:
                nm = keys[i]
            elif r < 0.85:
                nm = labs[i]                      # by name: a new taxon when the table does not list it
            elif r < 0.93:
                nm = str(i + 1)                   # by number
            else:
                nm = rng.choice([keys[i] + "x", "zz%d" % i, str(n + 3), "0", labs[i].upper(), "'new %d'" % i])
            names.append(nm)
        L.append("  %s %s = %s%s;" % (kw(rng, "TREE"), rng.choice(["t%d" % t, "STATE_%d" % (1000 * t), "'tree %d'" % t]),
                                      rng.choice(["", "[&R] ", "[&U] ", "[&W 1] "]),
                                      newick_of(rng, tu.rand_shape(rng, k, p_poly=0.3, p_unary=0.05), names, lengths=rng.random() < 0.7,
                                                internal=rng.random() < 0.2, comments=rng.random() < 0.2)))
    L.append(rng.choice(["END;", "end;", "ENDBLOCK;"]))
    return {"schema": "nexus", "text": "\n".join(L) + rng.choice(["\n", ""]), "kwargs": {}}


def tree_token_edits(rng, text, n):
    """local corruptions of leaf / node tokens inside TREE statements: a character appended, dropped or replaced in one token"""
    spans = [m for m in re.finditer(r"(?<=[(,])\s*([^\s(),:;\[\]']+)(?=[:,)\[])", text)]
    for _ in range(min(n, 3 * len(spans))):
        m = rng.choice(spans)
        a, b = m.start(1), m.end(1)
        tok = text[a:b]
        new = rng.choice([tok + "x", tok + "0", tok[:-1], "x" + tok, tok.upper(), tok + "_", str(rng.randint(0, 12)), "99"])
        yield text[:a] + new + text[b:]


def phylip_interleaved_docs(rng):
    """valid multi-block interleaved PHYLIP documents: relaxed and strict labels, 2-4 blocks, 2-6 taxa"""
    for strict in (False, True):
        for nblocks in (2, 3, 4):
            n = rng.randint(2, 6)
            widths = [rng.randint(2, 8) for _ in range(nblocks)]
            nchar = sum(widths)
            labs = ["T%d" % i for i in range(n)]
            seqs = ["".join(rng.choice("ACGT") for _ in range(nchar)) for _ in range(n)]
            lines = ["%d %d" % (n, nchar)]
            col = 0
            for b, w in enumerate(widths):
                for l, sq in zip(labs, seqs):
                    lines.append(((l.ljust(10) if strict else l + "  ") if b == 0 else "") + sq[col:col + w])
                if b < nblocks - 1 or rng.random() < 0.5:
                    lines.append("")
                col += w
            yield strict, lines


def phylip_interleaved_grid(rng):
    """every truncation point and every single-line deletion / duplication of those documents, each read with
    interleaved=True and (control) as sequential data"""
    for strict, lines in phylip_interleaved_docs(rng):
        text = "\n".join(lines) + "\n"
        variants = [("valid", text)]
        variants += [("prefix", text[:k]) for k in range(len(text))]
        for i in range(len(lines)):
            variants.append(("linedel", "\n".join(lines[:i] + lines[i + 1:]) + "\n"))
            variants.append(("linedup", "\n".join(lines[:i + 1] + lines[i:]) + "\n"))
        for origin, t in variants:
            for inter in (True, False):
                kwargs = {}
                if strict:
                    kwargs["strict"] = True
                if inter:
                    kwargs["interleaved"] = True
                yield make_case("phylip", t, kwargs, "dnamatrix", "interleaved-grid:" + origin)


GENS = {"newick": gen_newick, "nexus": gen_nexus, "phylip": gen_phylip, "fasta": gen_fasta}


STATEMENTS = [
    "LINK CHARACTERS = ch1;", "LINK CHARACTERS = nosuch;", "LINK TAXA = tx;", "LINK TAXA = nosuch;", "LINK FOO = x;",
    "LINK TAXA = tx CHARACTERS = ch1;", "TITLE again;", "TITLE tx;", "CHARSET c0 = 1;", "CHARSET c0 = 1-2 \\ 0;", "CHARSET dup = 1; CHARSET dup = 1;",
    "CHARSET big = 1-99;", "CHARSET w = x;", "CHARSET e = ;", "CHARSET a = all;", "CHARSET z = 0-1;", "CHARSET r = 2-1;",
    "TRANSLATE 1 T0, 2 T1;", "TRANSLATE 1 nosuch;", "TRANSLATE 1 T0", "TREE extra = (T0,T1);", "TREE x = (T0,zz);", "TREE y = ((T0,T1);",
    "TREE z = (T0,T0);", "TREE = (T0);", "TREE w (T0);", "TAXLABELS T0 T1;", "TAXLABELS T0 T0 T1 T9 T8 T7;", "DIMENSIONS NTAX=1;", "DIMENSIONS NTAX=0;",
    "DIMENSIONS NCHAR=2;", "DIMENSIONS NCHAR=0;", "DIMENSIONS NTAX=x;", "DIMENSIONS NTAX 3;", "DIMENSIONS;", "FORMAT DATATYPE=STANDARD SYMBOLS=\"-\" GAP=-;",
    "FORMAT DATATYPE=STANDARD SYMBOLS=\"01\" MISSING=1;", "FORMAT DATATYPE=STANDARD SYMBOLS=\"AA\";", "FORMAT SYMBOLS=\"\";", "FORMAT DATATYPE=DNA GAP=A;",
    "FORMAT DATATYPE=CONTINUOUS;", "FORMAT DATATYPE=NUCLEOTIDE;", "FORMAT INTERLEAVE;", "FORMAT INTERLEAVE=NO;", "FORMAT MATCHCHAR=.;", "FORMAT DATATYPE;", "FORMAT GAP;",
    "FORMAT SYMBOLS=01;", "MATRIX T0 ACGT;", "MATRIX ;", "MATRIX T0 A . ;", "END;", "BEGIN TAXA;", "BEGIN TREES;", "BEGIN DATA;", "BEGIN SETS;", "BEGIN FOO;",
    "BEGIN TAXA; DIMENSIONS NTAX=1; TAXLABELS Q; END;", "BEGIN TAXA; TITLE tx; DIMENSIONS NTAX=1; TAXLABELS Q; END;",
]


def edit_once(rng, text, schema):
    """one local corruption: delete, insert, replace, drop a span, duplicate a span, drop a word, insert a keyword,
    (NEXUS) insert a whole statement after some ';', change a number"""
    if not text:
        return rng.choice(ALPHABET[schema])
    op = rng.choice(["del", "ins", "rep", "span", "kw", "dup", "delword"] + (["stmt", "stmt", "num"] if schema == "nexus" else ["num"]))
    if op == "stmt":
        spots = [m.end() for m in re.finditer(r";", text)] or [len(text)]
        i = rng.choice(spots)
        return text[:i] + "\n  " + rng.choice(STATEMENTS) + text[i:]
    if op == "num":
        nums = list(re.finditer(r"\d+", text))
        if nums:
            m = rng.choice(nums)
            return text[:m.start()] + rng.choice(["0", "1", "2", "3", "7", "99", str(int(m.group(0)) + 1), str(max(0, int(m.group(0)) - 1))]) + text[m.end():]
        op = "del"
    i = rng.randrange(len(text))
    ch = rng.choice(ALPHABET[schema])
    if op == "del":
        return text[:i] + text[i + 1:]
    if op == "ins":
        return text[:i] + ch + text[i:]
    if op == "rep":
        return text[:i] + ch + text[i + 1:]
    if op == "span":
        j = min(len(text), i + rng.randint(1, rng.choice([3, 10, 40])))
        return text[:i] + text[j:]
    if op == "dup":
        j = min(len(text), i + rng.randint(1, 12))
        return text[:j] + text[i:j] + text[j:]
    if op == "delword":
        a = i
        while a > 0 and text[a - 1] not in " \n\t;=,()":
            a -= 1
        b = i
        while b < len(text) and text[b] not in " \n\t;=,()":
            b += 1
        if a == b:
            b = min(len(text), a + 1)
        return text[:a] + text[b:]
    word = rng.choice(KEYWORDS) if schema == "nexus" else rng.choice(["(", ")", ";", ",", ":", "3 4", ">", "''", "[", "]", "1e", "\n"])
    return text[:i] + rng.choice(["", " "]) + word + rng.choice(["", " "]) + text[i:]


def random_string(rng, schema, maxlen=40):
    if schema == "nexus" and rng.random() < 0.7:
        toks = ["#NEXUS"] if rng.random() < 0.8 else []
        for _ in range(rng.randint(0, 14)):
            r = rng.random()
            toks.append(rng.choice(KEYWORDS) if r < 0.6 else rng.choice(
                ["A", "B", "1", "2", "(A,B)", "ACGT", "x", "'q q'", ",", "[c]", "-", "."]))
        return " ".join(toks) if rng.random() < 0.8 else "\n".join(toks)
    alpha = ALPHABET[schema]
    return "".join(rng.choice(alpha) for _ in range(rng.randint(0, maxlen)))


# ====================================================================== implementation runner
def paren_depth(text):
    d = m = 0
    for c in text:
        if c == "(":
            d += 1
            m = max(m, d)
        elif c == ")":
            d -= 1
    return m


def make_case(schema, text, kwargs=None, route=None, origin="?", source="data"):
    return {"schema": schema, "text": text, "kwargs": dict(kwargs or {}), "route": route or ROUTES[schema][0],
            "origin": origin, "paren_depth": paren_depth(text), "length": len(text), "source": source}


# how the text reaches the reader: the `get` entry points take data=, path= or file= (any readable text stream)
SOURCES = ["data", "path", "file:stringio", "file:named", "file:tempfile", "file:fd", "file:pipe", "file:spooled", "file:noname"]


class _NoNameStream(io.StringIO):
    """a text stream without a `name` attribute semantics: here its `name` is not a path"""
    name = None


def open_source(case, keep):
    """returns the keyword (data= / path= / file=) for the case's source kind; objects to close are appended to `keep`"""
    import os
    import tempfile
    text, kind = case["text"], case.get("source", "data")
    if kind == "data":
        return {"data": text}
    if kind == "file:stringio":
        return {"file": io.StringIO(text)}
    if kind == "file:noname":
        return {"file": _NoNameStream(text)}
    if kind in ("path", "file:named", "file:fd"):
        fd, p = tempfile.mkstemp(prefix="c20-", suffix=".txt")
        with os.fdopen(fd, "w", newline="") as f:
            f.write(text)
        keep.append(("unlink", p))
        if kind == "path":
            return {"path": p}
        if kind == "file:named":
            f = open(p, "r", newline="")
        else:
            f = open(os.open(p, os.O_RDONLY), "r", newline="")      # name is the integer descriptor
        keep.append(("close", f))
        return {"file": f}
    if kind == "file:tempfile":
        f = tempfile.TemporaryFile("w+", newline="")                 # name is an integer
        f.write(text)
        f.seek(0)
        keep.append(("close", f))
        return {"file": f}
    if kind == "file:spooled":
        f = tempfile.SpooledTemporaryFile(max_size=1 << 22, mode="w+", newline="")   # not rolled over: name is None
        f.write(text)
        f.seek(0)
        keep.append(("close", f))
        return {"file": f}
    if kind == "file:pipe":
        data = text.encode("utf-8")
        if len(data) > 60000:                                        # larger than a pipe buffer: use a descriptor-named file
            return open_source(dict(case, source="file:fd"), keep)
        r, w = os.pipe()
        os.write(w, data)
        os.close(w)
        f = os.fdopen(r, "r", newline="")
        keep.append(("close", f))
        return {"file": f}
    raise ValueError(kind)


def _finish_node(node):
    """a `finish_node_fn` that only looks at the node"""
    node.c20_seen = True


def decode_kwargs(dendropy, kwargs):
    """replay files hold JSON: values that are not JSON (types, functions, namespaces) are written as "@..." markers"""
    out = {}
    for k, v in kwargs.items():
        if isinstance(v, str) and v.startswith("@"):
            if v == "@int":
                v = int
            elif v == "@float":
                v = float
            elif v == "@Fraction":
                v = fractions.Fraction
            elif v == "@fn":
                v = _finish_node
            elif v.startswith("@tns:"):
                v = dendropy.TaxonNamespace([x for x in v[5:].split("|") if x])
            elif v.startswith("@tnscs:"):
                v = dendropy.TaxonNamespace([x for x in v[7:].split("|") if x], is_case_sensitive=True)
            else:
                raise ValueError(v)
        out[k] = v
    return out


def call_reader(dendropy, case):
    import os
    schema, kwargs, route = case["schema"], case["kwargs"], case["route"]
    keep = []
    try:
        src = open_source(case, keep)
        src.update(decode_kwargs(dendropy, kwargs))
        if route == "treelist":
            return dendropy.TreeList.get(schema=schema, **src)
        if route == "tree":
            return dendropy.Tree.get(schema=schema, **src)
        if route == "dataset":
            return dendropy.DataSet.get(schema=schema, **src)
        if route in MATRIX_ROUTES:
            return getattr(dendropy, MATRIX_ROUTES[route]).get(schema=schema, **src)
        raise ValueError(route)
    finally:
        for what, x in keep:
            try:
                if what == "close":
                    x.close()
                else:
                    os.unlink(x)
            except Exception:
                pass


MAX_HANGS = 6
NO_DATA = re.compile(r"^No (trees|character data) (in|available)")
TYPE_MISMATCH = re.compile(r"^Data source \(at offset \d+\) is of type '\w+', but current CharacterMatrix is of type '\w+'")


def raised_outside_readers(e):
    """no frame of dendropy/dataio is on the traceback's innermost part: the reader had already returned"""
    tb = e.__traceback__
    frames = []
    while tb is not None:
        frames.append(tb.tb_frame.f_code.co_filename.replace("\\", "/"))
        tb = tb.tb_next
    return bool(frames) and "/dataio/" not in frames[-1] and not any(
        f.endswith(("reader.py", "tokenizer.py", "nexusprocessing.py")) for f in frames[-1:])


def run_impl(dendropy, case, limit):
    """returns (klass, detail, obj): klass in ok | parse | nodata | hang | internal"""
    from dendropy.utility import error
    try:
        with time_limit(limit):
            obj = call_reader(dendropy, case)
        return "ok", "", obj
    except Timeout:
        return "hang", "no result within %.1fs" % limit, None
    except error.DataParseError as e:
        try:
            msg = str(e)
        except Exception as e2:  # the error cannot even describe itself
            return "internal", "%s while formatting %s" % (type(e2).__name__, type(e).__name__), e
        return "parse", type(e).__name__ + ": " + msg[:160], e
    except ValueError as e:
        # the documented ValueError for a source without data of the requested kind (no trees / no character data / a matrix
        # of another data type than the class asked for) is raised by the object layer after the reader has returned:
        # recognised by where it is raised (no reader frame on the stack), or by its documented wording
        if type(e) is ValueError and (case["route"] == "tree" or case["route"] in MATRIX_ROUTES) and (
                raised_outside_readers(e) or NO_DATA.match(str(e)) or TYPE_MISMATCH.match(str(e))):
            return "nodata", str(e), e
        return "internal", "%s: %s" % (type(e).__name__, str(e)[:160]), e
    except Exception as e:
        return "internal", "%s: %s" % (type(e).__name__, str(e)[:160]), e


# ====================================================================== the oracle (statement evaluated on the outcome)
def strip_comments_and_quotes(text):
    """the oracle's own reading of NEXUS lexical structure: comments removed, quoted tokens replaced by ` q ` (or by their
    content when it is a number).  A quote character opens a quoted token only at the start of a token; inside an
    unquoted token it is an ordinary character."""
    out, i, n = [], 0, len(text)
    at_start = True           # at the start of a token
    while i < n:
        c = text[i]
        if c == "[":
            depth = 0
            while i < n:
                if text[i] == "[":
                    depth += 1
                elif text[i] == "]":
                    depth -= 1
                    if depth <= 0:
                        i += 1
                        break
                i += 1
            at_start = False if not at_start else False
            # a comment does not end the token it is in; a following quote character is ordinary
            continue
        if c == "'" and at_start:
            j = i + 1
            while j < n:
                if text[j] == "'":
                    if j + 1 < n and text[j + 1] == "'":
                        j += 2
                        continue
                    break
                j += 1
            inner = text[i + 1:j]
            out.append(" " + inner + " " if inner.isdigit() else " q ")
            i = j + 1
            at_start = True
            continue
        out.append(c)
        at_start = c in " \t\n\r{}(),;:=\\\""
        i += 1
    return "".join(out)


def declared_dims(case):
    """the dimensions the document declares, read off the text by the oracle itself"""
    text = case["text"]
    if case["schema"] == "phylip":
        first = re.split(r"\r\n|\n|\r", text)[0]
        m = re.match(r"^\s*(\d+)\s+(\d+)\s*$", first)
        if not m:
            return None
        return {"ntax": [int(m.group(1))], "nchar": [int(m.group(2))]}
    if case["schema"] == "nexus":
        t = strip_comments_and_quotes(text)
        return {"ntax": [int(x) for x in re.findall(r"(?i)\bntax\s*=\s*(\d+)", t)],
                "nchar": [int(x) for x in re.findall(r"(?i)\bnchar\s*=\s*(\d+)", t)]}
    return None


def nexus_matrix_blocks(text):
    """the oracle's own reading of the declared dimensions, block by block: for every CHARACTERS/DATA block that has a
    MATRIX statement, the NCHAR in force there (NCHAR persists from earlier blocks) and the NTAX of the block's own
    DIMENSIONS statements.  None when the text is too irregular to be sure (then only the document-wide check applies)."""
    t = strip_comments_and_quotes(text)
    out = []
    nchar = None
    pieces = re.split(r"(?i)\bbegin\s+(\w+)\s*;", t)
    # pieces: [head, name1, body1, name2, body2, ...]
    if re.search(r"(?i)\bnchar\b", pieces[0]):
        return None
    for name, body in zip(pieces[1::2], pieces[2::2]):
        if name.upper() not in ("CHARACTERS", "DATA"):
            if re.search(r"(?i)\bnchar\b", body):
                return None
            continue
        m = re.search(r"(?i)\bmatrix\b", body)
        head = body if m is None else body[:m.start()]
        if len(re.findall(r"(?i)\bmatrix\b", body)) > 1 or re.search(r"(?i)\bbegin\b", body):
            return None
        ntax = None
        stmts = head.split(";")
        if m is not None:
            if stmts[-1].strip():
                return None          # MATRIX does not start a statement of its own
            stmts = stmts[:-1]
        for st in stmts:
            words = st.split()
            if not words:
                continue
            first = words[0].upper()
            if first not in ("TITLE", "LINK", "DIMENSIONS", "FORMAT", "END", "ENDBLOCK"):
                return None
            if first != "DIMENSIONS":
                if re.search(r"(?i)\b(dimensions|ntax|nchar)\b", st):
                    return None
                continue
            if not re.fullmatch(r"(?is)\s*dimensions(\s+(newtaxa|(ntax|nchar)\s*=\s*\d+))*\s*", st):
                return None
            for k, v in re.findall(r"(?i)\b(ntax|nchar)\s*=\s*(\d+)", st):
                if k.upper() == "NCHAR":
                    nchar = int(v)
                else:
                    ntax = int(v)
        if m is not None:
            out.append({"nchar": nchar, "ntax": ntax})
    return out


def tree_problems(dendropy, tree, tns):
    probs = list(tu.arborescence_problems(tree))
    if tns is not None and tree.taxon_namespace is not tns:
        probs.append("tree's namespace is not its collection's")
    members = set(id(t) for t in tree.taxon_namespace)
    for nd in tu.walk(tree.seed_node):
        if nd.taxon is not None and id(nd.taxon) not in members:
            probs.append("node taxon outside the tree's namespace")
        ln = nd.edge.length if nd._edge is not None else None
        if ln is not None and not isinstance(ln, numbers.Real):
            probs.append("edge length of type %s" % type(ln).__name__)
        if nd.label is not None and not isinstance(nd.label, str):
            probs.append("node label of type %s" % type(nd.label).__name__)
    return sorted(set(probs))


def namespace_problems(tns):
    probs = []
    for t in tns:
        if not isinstance(t.label, str):
            probs.append("taxon with label %r" % (t.label,))
    return probs


def matrix_problems(dendropy, cm, case):
    probs = namespace_problems(cm.taxon_namespace)
    members = set(id(t) for t in cm.taxon_namespace)
    lens = []
    for taxon, seq in list(cm._taxon_sequence_map.items()):     # every stored row, also one keyed by a foreign taxon
        if id(taxon) not in members:
            probs.append("row taxon outside the matrix's namespace")
        lens.append(len(seq))
        for v in seq:
            if not isinstance(v, (dendropy.datamodel.charstatemodel.StateIdentity, float, int)):
                probs.append("cell of type %s" % type(v).__name__)
                break
    dims = declared_dims(case)
    if case["schema"] == "phylip":
        if dims is None:
            probs.append("matrix returned although the first line declares no dimensions")
        else:
            if len(lens) != dims["ntax"][0]:
                probs.append("%d rows returned, %d declared" % (len(lens), dims["ntax"][0]))
            if any(x != dims["nchar"][0] for x in lens):
                probs.append("row lengths %s, %d columns declared" % (lens, dims["nchar"][0]))
    elif case["schema"] == "nexus":
        own = case.get("_block_dims")
        if own is not None:
            # this matrix's own block: NCHAR in force at its MATRIX statement, NTAX of its own DIMENSIONS
            if lens and own["nchar"] is not None and any(x != own["nchar"] for x in lens):
                probs.append("row lengths %s, declared NCHAR %d in this block" % (lens, own["nchar"]))
            if own["ntax"] is not None and len(lens) > own["ntax"]:
                probs.append("%d rows returned, declared NTAX %d in this block" % (len(lens), own["ntax"]))
        if lens and dims["nchar"] and any(x not in dims["nchar"] for x in lens):
            probs.append("row lengths %s, declared NCHAR %s" % (lens, sorted(set(dims["nchar"]))))
        if lens and len(set(lens)) > 1:
            probs.append("rows of unequal length %s" % lens)
        # document-wide fallback: only meaningful when there is a single taxon namespace the NTAX values can refer to, and
        # when the read is not under an option documented to waive the NTAX of the TAXA block (an attached namespace,
        # unconstrained_taxa_accumulation_mode); the NTAX of the matrix's own DIMENSIONS (above) binds in every mode
        waived = case["kwargs"].get("unconstrained_taxa_accumulation_mode") or "taxon_namespace" in case["kwargs"]
        if own is None and not waived and len(re.findall(r"(?i)\bbegin\s+taxa\b", case["text"])) <= 1 and lens and dims["ntax"] and len(lens) > max(dims["ntax"]):
            probs.append("%d rows returned, declared NTAX %s" % (len(lens), sorted(set(dims["ntax"]))))
    return sorted(set(probs)), lens


def result_problems(dendropy, obj, case):
    """well-formedness of a returned object; returns (problems, summary) - summary is what is compared with the model"""
    probs = []
    summary = {"trees": [], "rows": [], "obj": obj}
    if isinstance(obj, dendropy.DataSet):
        for tns in obj.taxon_namespaces:
            probs += namespace_problems(tns)
        for tl in obj.tree_lists:
            for t in tl:
                probs += tree_problems(dendropy, t, tl.taxon_namespace)
                summary["trees"].append(t)
        blocks = nexus_matrix_blocks(case["text"]) if case["schema"] == "nexus" else None
        for k, cm in enumerate(obj.char_matrices):
            c2 = case
            if blocks is not None and len(blocks) == len(obj.char_matrices):
                c2 = dict(case, _block_dims=blocks[k])
            p, lens = matrix_problems(dendropy, cm, c2)
            probs += p
            summary["rows"].append(lens)
    elif isinstance(obj, dendropy.TreeList):
        probs += namespace_problems(obj.taxon_namespace)
        for t in obj:
            probs += tree_problems(dendropy, t, obj.taxon_namespace)
            summary["trees"].append(t)
    elif isinstance(obj, dendropy.Tree):
        probs += namespace_problems(obj.taxon_namespace)
        probs += tree_problems(dendropy, obj, None)
        summary["trees"].append(obj)
    elif isinstance(obj, dendropy.CharacterMatrix):
        p, lens = matrix_problems(dendropy, obj, case)
        probs += p
        summary["rows"].append(lens)
    else:
        probs.append("reader returned %s" % type(obj).__name__)
    return sorted(set(probs)), summary


class State(object):
    def __init__(self):
        self.hangs = 0
        self.pending = []
        self.valid_docs = 0
        self.rejected_docs = 0
        self.rounds_seen = 0
        self.max_rounds_per_char = 0.0


def judge(ctx, dendropy, case, st, complete_valid=False):
    """run one read, evaluate the statement on its outcome, queue the comparison with the model"""
    klass, detail, obj = run_impl(dendropy, case, 0.5)
    if klass == "hang":
        # confirm with a generous limit, and require that the time was spent computing (a paused machine is not a hang)
        for _ in range(3):
            c0 = time.process_time()
            klass, detail, obj = run_impl(dendropy, case, 3.0)
            if klass != "hang" or time.process_time() - c0 > 1.5:
                break   # confirm with a generous limit (a GC pause is not a hang)
    nontrivial = (not complete_valid) or klass != "ok"
    ctx.case([case["schema"], case["route"], case["text"], sorted(case["kwargs"].items()), case.get("source", "data")], nontrivial,
             sample={"schema": case["schema"], "origin": case["origin"], "text": case["text"][:120], "outcome": klass},
             kind="%s:%s:%s%s" % (case["schema"], case["origin"], klass, "" if case.get("source", "data") == "data" else ":" + case["source"].split(":")[0]))
    summary = None
    rep = dict(case)
    if klass == "hang":
        st.hangs += 1
        rep.update(oracle="hang", exception="Timeout")
        ctx.fail("hang:" + case["schema"], "%s reader does not terminate on a %d-character input (%s); tail %r" % (
            case["schema"], len(case["text"]), case["origin"], case["text"][-40:]), rep)
    elif klass == "internal":
        exc = detail.split(":")[0].split(" ")[0]
        rep.update(oracle="internal_error", exception=exc)
        ctx.fail("internal:%s:%s" % (case["schema"], exc), "%s reader (%s) raised an internal error instead of a data-parse error: %s; input tail %r" % (
            case["schema"], case["route"], detail, case["text"][-40:]), rep)
    elif klass == "ok":
        probs, summary = result_problems(dendropy, obj, case)
        if probs:
            kind = "dims" if any("declared" in p or "unequal" in p for p in probs) else "malformed"
            rep.update(oracle=kind, exception=None)
            ctx.fail("%s:%s" % (kind, case["schema"]), "%s reader returned a result that is not well formed / contradicts the declared dimensions: %s" % (
                case["schema"], "; ".join(probs[:4])), rep)
    elif klass == "parse":
        if len(detail.split(": ", 1)[-1].strip()) == 0:
            rep.update(oracle="no_message", exception=detail)
            ctx.fail("nomessage:" + case["schema"], "parse error without any description: %s" % detail, rep)
    queue_model(ctx, dendropy, case, klass, summary, st, detail)
    return klass


# ====================================================================== comparison with the Lean model
def canon_tree(tree):
    """order-revealing nested rendering: labels (hex), taxon labels (hex), has-length + value as repr(float); iterative,
    so that deeply nested trees are rendered without recursion"""
    out = []
    stack = [(tree.seed_node, 0)]
    while stack:
        nd, state = stack.pop()
        if state == 1:
            out.append(")")
            continue
        lab = hex6(nd.label) if nd.label is not None else "-"
        tax = hex6(nd.taxon.label) if nd.taxon is not None else "-"
        ln = "N" if nd.edge.length is None else repr(float(nd.edge.length))
        out.append("(%s|%s|%s" % (lab, tax, ln))
        stack.append((nd, 1))
        for c in reversed(nd._child_nodes):
            stack.append((c, 0))
    return "".join(out)


LEN_RE = re.compile(r"\|L([0-9a-f=]*)")


def canon_model_trees(s):
    """the model prints an edge length as the hex of its token; read it with float() as the implementation does"""
    from common import unhex6

    def sub(m):
        return "|" + repr(float(unhex6(m.group(1))))
    return LEN_RE.sub(sub, s)


_DNA = []


def dna_symbols(dendropy):
    """the characters the DNA alphabet accepts as state symbols (data handed to the model, not modelled)"""
    if not _DNA:
        keys = [k for k in dendropy.DNA_STATE_ALPHABET.full_symbol_state_map.keys() if isinstance(k, str) and len(k) == 1]
        _DNA.append(hex6("".join(sorted(keys))))
    return _DNA[0]


_ALPHA = []


def alphabet_symbols(dendropy):
    if not _ALPHA:
        out = []
        for a in (dendropy.DNA_STATE_ALPHABET, dendropy.RNA_STATE_ALPHABET, dendropy.NUCLEOTIDE_STATE_ALPHABET, dendropy.PROTEIN_STATE_ALPHABET):
            out.append(hex6("".join(sorted(k for k in a.full_symbol_state_map.keys() if isinstance(k, str) and len(k) == 1))))
        _ALPHA.append(" ".join(out))
    return _ALPHA[0]


def obj_of(summary):
    return summary["obj"]


def ascii_ok(text):
    return all(ord(c) < 128 for c in text)


QUOTED_PUNCT = re.compile(r"'[(),:;]'")
BLANK = re.compile(r"\(-\|-\|N\)")


NEWICK_KINDS = {"UnexpectedEndOfStreamError": "eos", "UnterminatedQuoteError": "unterminated",
                "NewickReaderIncompleteTreeStatementError": "incomplete", "NewickReaderMalformedStatementError": "malformed",
                "NewickReaderDuplicateTaxonError": "duplicate"}


NEXUS_KINDS = {"TooManyTaxaError": ":toomany", "UndefinedTaxonError": ":undefined"}


def queue_model(ctx, dendropy, case, klass, summary, st, detail=""):
    # (on a hang / internal error nothing is queued: the model is of the repaired control flow)
    schema = case["schema"]
    if not ascii_ok(case["text"]):
        return
    if schema == "nexus" and LONG_DIGITS.search(case["text"]):
        # the model keeps CHARSET position lists explicitly; astronomically large numbers are left to the oracle
        ctx.count("model_unmodelled:nexus-long-number")
        return
    if schema == "newick" and not case["kwargs"]:
        if klass == "ok":
            got = "ok %d %s" % (len(summary["trees"]), " ".join(canon_tree(t) for t in summary["trees"]))
        elif klass == "parse":
            # the KIND of parse error (exception subclass) is compared too where the model distinguishes it
            got = "parse:" + NEWICK_KINDS.get(detail.split(":")[0], "?")
        elif klass == "nodata":
            got = "ok 0 "
        else:
            got = None
        if case["route"] == "tree" and klass == "ok":
            got = None   # Tree.get keeps one tree of the list; the list routes are compared
        if got is not None:
            st.pending.append(("newick " + hex6(case["text"]), case, got.strip(), "newick"))
    elif schema in ("phylip", "fasta") and (case["route"] != "dnamatrix" or set(case["kwargs"]) - ({"strict", "interleaved"} if schema == "phylip" else set())):
        return      # the line-reader models are of DNA matrices and of the options strict / interleaved
    elif schema == "phylip":
        if klass == "ok":
            got = "ok " + " ".join(str(x) for x in summary["rows"][0])
        elif klass == "parse":
            got = "parse"
        else:
            got = None
        if got is not None:
            st.pending.append(("phylip %d %d %s %s" % (1 if case["kwargs"].get("strict") else 0,
                                                      1 if case["kwargs"].get("interleaved") else 0,
                                                      dna_symbols(dendropy), hex6(case["text"])),
                               case, got.strip(), "phylip"))
    elif schema == "fasta":
        if klass == "ok":
            got = "ok " + " ".join(str(x) for x in summary["rows"][0])
        elif klass == "parse":
            got = "parse"
        else:
            got = None
        if got is not None:
            st.pending.append(("fasta %s %s" % (dna_symbols(dendropy), hex6(case["text"])), case, got.strip(), "fasta"))
    elif schema == "nexus" and case["route"] == "dataset" and not case["kwargs"]:
        if klass == "ok":
            got = "ok tns=%s trees=%s mats=%s sets=%s" % (
                ",".join(str(len(t)) for t in obj_of(summary).taxon_namespaces),
                ",".join(str(len(tl)) for tl in obj_of(summary).tree_lists),
                "/".join(".".join(str(x) for x in lens) for lens in summary["rows"]),
                "/".join(".".join(str(len(cs.character_indices)) for cs in cm.character_subsets.values())
                         for cm in obj_of(summary).char_matrices))
        elif klass == "parse":
            # the refusal kinds the reader names: a label beyond the declared NTAX, a TRANSLATE label the namespace lacks
            got = "parse" + NEXUS_KINDS.get(detail.split(":")[0], "")
        else:
            got = None
        if got is not None:
            st.pending.append(("nexus %s %s" % (alphabet_symbols(dendropy), hex6(case["text"])), case, got, "nexus"))
    if len(st.pending) >= 1500:
        flush(ctx, st)


def tokenize_impl(dendropy, text, pu):
    from dendropy.dataio import nexusprocessing, tokenizer
    tk = nexusprocessing.NexusTokenizer(io.StringIO(text), preserve_unquoted_underscores=pu)
    out = []
    try:
        while True:
            t = tk.next_token()
            if t is None:
                out.append("E")
                break
            out.append(("q" if tk.is_token_quoted else "p") + hex6(t))
    except tokenizer.Tokenizer.UnterminatedQuoteError:
        out.append("Q")
    return " ".join(out)


def judge_tokens(ctx, dendropy, text, pu, st):
    """tokenizer level: terminates, ends in end-of-stream or UnterminatedQuoteError; token list compared with the model"""
    case = make_case("newick", text, {}, "tokenizer", "tokens")
    case["pu"] = pu
    try:
        with time_limit(4.0):
            got = tokenize_impl(dendropy, text, pu)
    except Timeout:
        rep = dict(case, oracle="hang", exception="Timeout")
        ctx.fail("hang:tokenizer", "NexusTokenizer does not terminate on %r" % text[-40:], rep)
        return
    except Exception as e:
        rep = dict(case, oracle="internal_error", exception=type(e).__name__)
        ctx.fail("internal:tokenizer:%s" % type(e).__name__, "NexusTokenizer raised %s: %s on input tail %r" % (
            type(e).__name__, str(e)[:100], text[-40:]), rep)
        return
    ctx.case(["tok", text, pu], True, kind="tokenizer")
    if ascii_ok(text):
        st.pending.append(("tok %d %s" % (1 if pu else 0, hex6(text)), case, got, "tok"))


def normalise_model(op, m, got_kind_unknown=False):
    m = m.strip()
    if op == "newick" and m.startswith("parse:") and got_kind_unknown:
        return "parse:?"
    if op == "newick" and m.startswith("ok"):
        return canon_model_trees(m).strip()
    return m


def flush(ctx, st):
    if not st.pending:
        return
    outs = ctx.ask([p[0] for p in st.pending])
    for (line, case, got, op), m in zip(st.pending, outs):
        if m is None:
            continue
        m = normalise_model(op, m, got == "parse:?")
        if op == "nexus" and " rounds=" in m:
            # the model's count of loop rounds (all loops, all nesting levels) against its proved budget 18*|text|+8
            m, rr = m.rsplit(" rounds=", 1)
            used, total = (int(x) for x in rr.split("/"))
            st.rounds_seen += 1
            st.max_rounds_per_char = max(st.max_rounds_per_char, used / float(max(1, len(case["text"]))))
            if used > total or total != 18 * len(case["text"]) + 8:
                ctx.disagree("nexus-rounds", {k: case[k] for k in ("schema", "text", "kwargs", "route", "origin")}, "<= 18*len+8", rr)
        if m == "unmodelled":
            ctx.count("model_unmodelled:" + op)
            continue
        ctx.compared()
        ctx.count("compared:" + op)
        if m != got:
            ctx.disagree(op, {k: case[k] for k in ("schema", "text", "kwargs", "route", "origin")}, got[:400], m[:400])
    del st.pending[:]


# ====================================================================== the run
def corruptions_of(ctx, dendropy, doc, st, n_edits, n_double, all_prefixes=True, prefix_step=1):
    rng = ctx.rng
    schema, text, kwargs = doc["schema"], doc["text"], doc["kwargs"]
    klass = judge(ctx, dendropy, make_case(schema, text, kwargs, rng.choice(ROUTES[schema]), "valid"), st, complete_valid=True)
    if klass == "ok":
        st.valid_docs += 1
    else:
        st.rejected_docs += 1
    ks = range(0, len(text), prefix_step) if all_prefixes else sorted(rng.sample(range(len(text) + 1), min(len(text) + 1, 40)))
    for k in ks:
        if ctx.out_of_time() or st.hangs > MAX_HANGS:
            return
        judge(ctx, dendropy, make_case(schema, text[:k], kwargs, ROUTES[schema][0], "prefix"), st)
    for i in range(n_edits + n_double):
        if ctx.out_of_time() or st.hangs > MAX_HANGS:
            return
        t = edit_once(rng, text, schema)
        origin = "edit1"
        if i >= n_edits:
            t = edit_once(rng, t, schema)
            origin = "edit2"
        judge(ctx, dendropy, make_case(schema, t, kwargs, rng.choice(ROUTES[schema]), origin), st)
    # the same kinds of input through every other way a source can be handed over (path=, file=<any text stream>)
    for source in SOURCES[1:]:
        if ctx.out_of_time() or st.hangs > MAX_HANGS:
            return
        for t, origin in ((text[:rng.randint(0, len(text))], "prefix"), (edit_once(rng, text, schema), "edit1"), (text, "valid")):
            judge(ctx, dendropy, make_case(schema, t, kwargs, rng.choice(ROUTES[schema]), origin, source), st)


def special_cases(ctx, dendropy, st):
    """fixed corner inputs of the anchored mechanisms"""
    lim = sys.getrecursionlimit()
    texts = [
        ("newick", ""), ("newick", ";"), ("newick", "();"), ("newick", "(,);"), ("newick", "(a,b)"), ("newick", "a"),
        ("newick", "(a,b));"), ("newick", "((a,b);"), ("newick", "(a,b);x"), ("newick", "(a:1:2,b);"), ("newick", "(a,a);"),
        ("newick", "(a,b)c d;"), ("newick", "(a:x,b);"), ("newick", "'a"), ("newick", "[&R"), ("newick", "(a,b)(c,d);"),
        ("newick", "(" * 60 + "a" + ")" * 60 + ";"), ("newick", "(" * 200 + "a" + ")" * 200 + ";"),
        ("newick", "(" * 600 + "a" + ")" * 600 + ";"),      # well inside the interpreter's recursion limit: must be read
        ("newick", "(" * (3 * lim) + "a" + ")" * (3 * lim) + ";"),
        ("newick", "[c] " * (2 * lim) + "(a,b);"), ("newick", "[c]\n" * (2 * lim) + "(a,b);"),
        ("newick", "(a" + ",[c] " * (2 * lim) + "b);"),
        ("nexus", ""), ("nexus", " "), ("nexus", "#NEXUS"), ("nexus", "#NEXUS\n"), ("nexus", "NEXUS"), ("nexus", "#NEXUS BEGIN"),
        ("nexus", "#NEXUS\nBEGIN TAXA;\n DIMENSIONS NTAX=2;\n TAXLABELS A B;\nEND;\nBEGIN TREES;\n LINK FOO = x;\n TREE t = (A,B);\nEND;\n"),
        ("nexus", "#NEXUS\nBEGIN TAXA;\n TAXLABELS A B;\n DIMENSIONS NTAX=2;\nEND;\n"),
        ("nexus", "#NEXUS\nBEGIN TAXA;\n TAXLABELS A B;\nEND;\n"),
        ("nexus", "#NEXUS\nBEGIN TAXA;\n DIMENSIONS NTAX=2;\n TAXLABELS A B C;\nEND;\n"),
        ("nexus", "#NEXUS\nBEGIN DATA;\n DIMENSIONS NTAX=2 NCHAR=3;\n FORMAT DATATYP=DNA;\n MATRIX\n A ACG\n B ACG\n ;\nEND;\n"),
        ("nexus", "#NEXUS\nBEGIN DATA;\n DIMENSIONS NTAX=2 NCHAR=3;\n FORMAT DATATYPE=DNA;\n MATRIX\n A ACG\n B AC\n ;\nEND;\n"),
        ("nexus", "#NEXUS\nBEGIN DATA;\n DIMENSIONS NTAX=2 NCHAR=3;\n FORMAT DATATYPE=DNA INTERLEAVE;\n MATRIX\n A AC\n B AC\n\n A G\n ;\nEND;\n"),
        ("nexus", "#NEXUS\nBEGIN DATA;\n DIMENSIONS NTAX=2 NCHAR=3;\n FORMAT DATATYPE=DNA;\n MATRIX\n A ACGT\n B ACGT\n ;\nEND;\n"),
        ("nexus", "#NEXUS\nBEGIN DATA;\n DIMENSIONS NTAX=2 NCHAR=3;\n FORMAT DATATYPE=DNA;\n MATRIX\n A ACG\n B ACG\n C ACG\n ;\nEND;\n"),
        ("nexus", "#NEXUS\nBEGIN DATA;\n DIMENSIONS NTAX=2;\n FORMAT DATATYPE=DNA;\n MATRIX\n A ACG\n B ACG\n ;\nEND;\n"),
        ("nexus", "#NEXUS\nBEGIN TREES;\n TREE t = (A,B);\n TREE u = (A,(B,C));\nEND;\n"),
        ("nexus", "#NEXUS\nBEGIN TREES;\n TRANSLATE 1 A, 2 B;\n TREE t = (1,2);\n"),
        ("nexus", "#NEXUS\nBEGIN TREES;\n TRANSLATE 1 A, 2"), ("nexus", "#NEXUS\nBEGIN TREES;\n TREE t ="), ("nexus", "#NEXUS\nBEGIN TREES;\n TREE"),
        ("nexus", "#NEXUS\nBEGIN TAXA;\n DIMENSIONS NTAX=2;\n TAXLABELS A B;\nEND;\nBEGIN SETS;\n CHARSET c = 1-2;\nEND;\n"),
        ("nexus", "#NEXUS\n" + "[c]\n" * (2 * lim) + "BEGIN TAXA;\n DIMENSIONS NTAX=1;\n TAXLABELS A;\nEND;\n"),
        ("phylip", ""), ("phylip", "3 4"), ("phylip", "3 4\n"), ("phylip", "3 4\nA ACGT\nB ACGT\nC ACGT\n"),
        ("phylip", "3 4\nA ACGTAC\nB ACGT\nC ACGT\n"), ("phylip", "3 4\nA ACGT\nB ACGT\nC \n"), ("phylip", "3 4\nA ACGT\nB ACGT\n\n"),
        ("phylip", "2 4\nA ACGT\nA ACGT\nB ACGT\n"), ("phylip", "2 4\nA ACGT\nB ACGT\nC ACGT\n"), ("phylip", "0 0\n\n\n"), ("phylip", "x y\n\n\n"),
        ("phylip", "2 4\nA AC\nGTT\nB ACGT\n"),
        ("fasta", ""), ("fasta", ">"), ("fasta", ">A"), ("fasta", "ACGT"), ("fasta", ">A\nACGT\n>A\nACGT\n"), ("fasta", ">A\n>B\nACGT\n"),
        ("fasta", ">A\nAC!T\n"),
    ]
    for schema, text in texts:
        for route in sorted(set(ROUTES[schema])):
            judge(ctx, dendropy, make_case(schema, text, {}, route, "special"), st)
    for case in phylip_interleaved_grid(ctx.rng):
        judge(ctx, dendropy, case, st)
    for k, text in enumerate(translate_only_grid()):
        judge(ctx, dendropy, make_case("nexus", text, {}, ["dataset", "treelist"][k % 2], "translate-only"), st)
        if k % 4 == 0:
            judge(ctx, dendropy, make_case("nexus", text, {}, ["treelist", "dataset"][k % 2], "translate-only"), st)
    # bad and good input of every format through every way a source can be handed over
    for schema, bad, good in (("newick", "((a,b);", "(a,b);"), ("nexus", "#NEXUS\nBEGIN TAXA;\n DIMENSIONS NTAX=2", "#NEXUS\nBEGIN TAXA;\n DIMENSIONS NTAX=1;\n TAXLABELS A;\nEND;\n"),
                              ("phylip", "2 4\nA ACGTA\nB ACGT\n\n", "1 2\nA AC\n\n"), ("fasta", ">A\nAC!T\n", ">A\nACGT\n")):
        for source in SOURCES[1:]:
            for text in (bad, good, ""):
                judge(ctx, dendropy, make_case(schema, text, {}, ROUTES[schema][0], "special", source), st)
    for text in ("3 4\nA ACGT\nB ACGT\nC ACGT\n", "2 4\nA         AC\nB         AC\n\nGT\nGT\n", "2 4\nA ACGTA\nB ACGT\n\n", "2 4\nA AC\nB AC\n\nGTA\nGT\n"):
        for kwargs in ({"interleaved": True}, {"strict": True}, {"strict": True, "interleaved": True}):
            judge(ctx, dendropy, make_case("phylip", text, kwargs, "dnamatrix", "special"), st)
    for text in ("", "a", "'", "''", "'a''b' c", "[", "[[a]b]c", "a[b]c d_e 'f_g'", "a'b", "(a,b);", "[a] [b] c", " \t\n", "a[",
                 "[c] " * (2 * lim) + "x", "[c]\n" * (2 * lim)):
        for pu in (False, True):
            judge_tokens(ctx, dendropy, text, pu, st)


def run(ctx):
    dendropy = __import__("dendropy")
    rng = ctx.rng
    ctx.set_budget(24, 780)
    st = State()
    special_cases(ctx, dendropy, st)
    flush(ctx, st)
    thorough = ctx.tier == "thorough"
    r0 = rng.randrange(3)
    # the regenerated constants: block names, end keywords, DATATYPE keywords, initial FORMAT state, strict PHYLIP width
    for k, case in enumerate(constants_battery(rng)):
        if ctx.out_of_time() or st.hangs > MAX_HANGS:
            break
        if thorough or k % 3 == r0:
            judge(ctx, dendropy, case, st)
    flush(ctx, st)
    # reader options x numeric fields: the cross product on small fixed documents (complete in the thorough tier)
    for case in option_numeric_sweep(rng, thorough):
        if ctx.out_of_time() or st.hangs > MAX_HANGS:
            break
        judge(ctx, dendropy, case, st)
    flush(ctx, st)
    rounds = ctx.pick(400, 100000)
    reserve = ctx.pick(0, 330)      # thorough: keep time for the exhaustive enumeration
    for r in range(rounds):
        if ctx.time_left() <= reserve or st.hangs > MAX_HANGS:
            break
        for schema in ("nexus", "newick", "phylip", "fasta"):
            doc = GENS[schema](rng)
            if schema == "nexus" and r < len(NEXUS_STRUCTURES) and (thorough or r % 2 == 0):
                doc = gen_nexus(rng, NEXUS_STRUCTURES[r])     # every supported block structure is visited
            elif schema == "nexus" and r % 3 == 1:
                doc = gen_nexus_multi(rng)                    # several TAXA blocks, TITLE / LINK resolution
            elif schema == "newick" and r % 4 == 3:
                doc["kwargs"] = dict(rng.choice(NEWICK_OPTIONS))   # reader options: judged by the oracle only
            heavy = schema == "nexus"
            corruptions_of(ctx, dendropy, doc, st, n_edits=ctx.pick(60 if heavy else 25, 150), n_double=ctx.pick(25 if heavy else 10, 80),
                           all_prefixes=True)
            if schema == "nexus":
                # tree files without a TAXA block: TRANSLATE (complete / partial) + leaves by token, name, number, near miss
                for _ in range(ctx.pick(2, 4)):
                    tdoc = gen_nexus_translate_only(rng)
                    corruptions_of(ctx, dendropy, tdoc, st, n_edits=ctx.pick(6, 30), n_double=ctx.pick(2, 10), all_prefixes=False)
                    for t in tree_token_edits(rng, tdoc["text"], ctx.pick(10, 30)):
                        judge(ctx, dendropy, make_case("nexus", t, {}, rng.choice(ROUTES["nexus"][:4]), "treetoken"), st)
            if schema == "nexus" and (thorough or r % 2 == 0):
                # INTERLEAVE x MATCHCHAR: every truncation and every single-character edit of the matrix body
                mdoc, span, mc = gen_nexus_interleave_match(rng)
                corruptions_of(ctx, dendropy, mdoc, st, n_edits=10, n_double=10, all_prefixes=True)
                for k, t in enumerate(matrix_body_edits(mdoc, span, mc)):
                    if ctx.out_of_time() or st.hangs > MAX_HANGS:
                        break
                    judge(ctx, dendropy, make_case("nexus", t, {}, ROUTES["nexus"][k % 5 if k % 7 == 0 else 0], "matrixedit"), st)
            if schema == "newick" and (thorough or r % 2 == 1):
                # comment metadata ([&k=v,...], [&&NHX:...]) on trees, nodes and edges: the regexes of nexusprocessing are
                # reader code; every single-character corruption inside a comment, with metadata extraction on and off
                mdoc, spans = gen_metadata_tree(rng)
                corruptions_of(ctx, dendropy, mdoc, st, n_edits=5, n_double=5, all_prefixes=True, prefix_step=2)
                for k, t in enumerate(comment_edits(mdoc, spans)):
                    if ctx.out_of_time() or st.hangs > MAX_HANGS:
                        break
                    kwargs = {"extract_comment_metadata": False} if k % 5 == 4 else {}
                    judge(ctx, dendropy, make_case(mdoc["schema"], t, kwargs, ROUTES[mdoc["schema"]][0], "commentedit"), st)
            for _ in range(ctx.pick(25, 60)):
                judge(ctx, dendropy, make_case(schema, random_string(rng, schema), {}, rng.choice(ROUTES[schema]), "random"), st)
            if schema == "fasta":
                # non-default reader options x corrupted numeric fields, on grammar-generated documents of every format
                for case in option_numeric_cases(rng, ctx.pick(8, 20), ctx.pick(8, 16)):
                    if ctx.out_of_time() or st.hangs > MAX_HANGS:
                        break
                    judge(ctx, dendropy, case, st)
            for _ in range(ctx.pick(10, 30)):
                judge_tokens(ctx, dendropy, random_string(rng, rng.choice(["newick", "nexus"]), 30), rng.random() < 0.3, st)
        flush(ctx, st)
    flush(ctx, st)
    if thorough and st.hangs <= MAX_HANGS:
        exhaustive(ctx, dendropy, st)
    flush(ctx, st)
    if st.hangs > MAX_HANGS:
        ctx.note("stopped early after %d non-terminating reads" % st.hangs)
    ctx.extra["valid_documents_accepted"] = st.valid_docs
    ctx.extra["valid_documents_rejected_by_reader"] = st.rejected_docs
    ctx.extra["hangs"] = st.hangs
    ctx.extra["nexus_loop_rounds"] = "accepted NEXUS reads of the model: %d; most loop rounds per input character: %.2f (proved budget: 18 per character + 8)" % (
        st.rounds_seen, st.max_rounds_per_char)


def exhaustive(ctx, dendropy, st):
    """small-scope enumeration (labelled as enumeration, not proof)"""
    import itertools
    count = 0
    plans = [("newick", "(),:;a1 '[", 5), ("fasta", ">A\nx ", 6), ("phylip", "12 \nA", 7)]
    for schema, alpha, maxlen in plans:
        for n in range(maxlen + 1):
            for tup in itertools.product(alpha, repeat=n):
                if ctx.out_of_time():
                    break
                text = "".join(tup)
                judge(ctx, dendropy, make_case(schema, text, {}, ROUTES[schema][0], "enum"), st)
                if schema == "newick" and n <= 4:
                    judge_tokens(ctx, dendropy, text, False, st)
                count += 1
        flush(ctx, st)
    toks = ["BEGIN", "END", "TAXA", "TREES", "DATA", "SETS", "DIMENSIONS", "NTAX=1", "NCHAR=1", "TAXLABELS", "MATRIX", "FORMAT",
            "TREE", "TRANSLATE", "LINK", "TITLE", "CHARSET", ";", "=", "A", "(A)", "1"]
    heads = ["#NEXUS ", "#NEXUS BEGIN TAXA; ", "#NEXUS BEGIN TREES; ", "#NEXUS BEGIN DATA; DIMENSIONS NTAX=1 NCHAR=1; ", "#NEXUS BEGIN SETS; "]
    for head in heads:
        for n in range(0, 4):
            for tup in itertools.product(toks, repeat=n):
                if ctx.out_of_time():
                    break
                judge(ctx, dendropy, make_case("nexus", head + " ".join(tup), {}, "dataset", "enum"), st)
                count += 1
        flush(ctx, st)
    ctx.extra["exhaustive_small_scope"] = ("%d strings: newick over '(),:;a1 \\'[' up to length 5, fasta up to 6, phylip up to 7, and every "
                                           "NEXUS sequence of <= 3 tokens from a 22-keyword set after 5 block heads" % count)


def constants_battery(rng):
    """inputs aimed at the regenerated constants (Gen/C20Consts.lean): block names and their synonyms, the keywords that end a
    block, DATATYPE keywords, the initial gap / missing / match characters, and strict PHYLIP labels around the field width"""
    names = ["TAXA", "CHARACTERS", "DATA", "TREES", "SETS", "ASSUMPTIONS", "CODONS", "BEGIN", "TAXON", "CHARACTER", "TREE", "SET",
             "NOTES", "DISTANCES", "UNALIGNED", "PAUP", "END", "ENDBLOCK"]
    ends = ["END", "ENDBLOCK", "end", "EndBlock", "ENDBLOCKS", "END_BLOCK", "ENDB", "EN", "STOP"]
    bodies = [" DIMENSIONS NTAX=2;\n TAXLABELS A B;\n", " DIMENSIONS NTAX=2 NCHAR=2;\n FORMAT DATATYPE=DNA;\n MATRIX\n A AC\n B AC\n ;\n",
              " TREE t = (A,B);\n", " CHARSET c = 1;\n", " x y z;\n", ""]
    for nm in names:
        for nm2 in (nm, nm.lower()):
            for body in bodies:
                for e in (ends if nm in ("TAXA", "NOTES") else ends[:3]):
                    yield make_case("nexus", "#NEXUS\nBEGIN TAXA;\n DIMENSIONS NTAX=2;\n TAXLABELS A B;\nEND;\nBEGIN %s;\n%s%s;\nBEGIN TREES;\n TREE u = (A,B);\nEND;\n" % (nm2, body, e),
                                    {}, "dataset", "constants:block")
    dts = ["DNA", "RNA", "NUCLEOTIDE", "NUCLEOTIDES", "PROTEIN", "CONTINUOUS", "STANDARD", "AMINOACID", "NUC", "dna", "Protein", "RESTRICTION", "X"]
    rows = ["AC", "ac", "01", "1.5 2", "AU", "KL", "-?", "A.", "{AC}C", "9 9", "A-", "?1"]
    for dt in dts:
        for a in rows:
            for fmt in ("FORMAT DATATYPE=%s;" % dt, "FORMAT DATATYPE=%s GAP=- MISSING=?;" % dt, "FORMAT DATATYPE = %s INTERLEAVE;" % dt):
                yield make_case("nexus", "#NEXUS\nBEGIN DATA;\n DIMENSIONS NTAX=2 NCHAR=2;\n %s\n MATRIX\n A %s\n B %s\n ;\nEND;\n" % (fmt, a, rng.choice(rows)),
                                {}, "dataset", "constants:datatype")
    for a in rows + ["..", "A.", "-.", "?."]:       # no FORMAT statement: the initial state of the reader
        yield make_case("nexus", "#NEXUS\nBEGIN DATA;\n DIMENSIONS NTAX=2 NCHAR=2;\n MATRIX\n A 01\n B %s\n ;\nEND;\n" % a, {}, "dataset", "constants:defaults")
    for w in range(6, 15):
        for inter in (False, True):
            lab1, lab2 = "L" * w, "M" * (w - 1) + " "
            text = "2 4\n%sACGT\n%sACGT\n\n" % (lab1, lab2)
            yield make_case("phylip", text, dict({"strict": True}, **({"interleaved": True} if inter else {})), "dnamatrix", "constants:strict-width")
            yield make_case("phylip", "2 4\n%s ACGT\n%s ACGT\n\n" % (lab1[:w - 1], lab2[:w - 1]),
                            dict({"strict": True}, **({"interleaved": True} if inter else {})), "dnamatrix", "constants:strict-width")


def search(ctx, broken):
    """a regenerated constant left the supported subset, a bridge theorem no longer holds, or model and code disagree: look for a
    concrete failing input on the real code in the affected mechanisms (block names, end keywords, DATATYPE keywords, initial
    FORMAT state, strict PHYLIP label width, and the tokenizer sets)"""
    dendropy = __import__("dendropy")
    st = State()
    for case in constants_battery(ctx.rng):
        if ctx.out_of_time() or st.hangs > MAX_HANGS:
            break
        judge(ctx, dendropy, case, st)
    for text in ("a b\tc\nd;e,f(g)h:i=j[k]l'm n'o", "a'b c'", "[x[y]z] w", "a-b _c", "{a}(b)\\c/d*e\"f\""):
        for pu in (False, True):
            judge_tokens(ctx, dendropy, text, pu, st)
    flush(ctx, st)


def replay(ctx, rec):
    dendropy = __import__("dendropy")
    c = rec["replay"]
    st = State()
    if c.get("route") == "tokenizer":
        judge_tokens(ctx, dendropy, c["text"], bool(c.get("pu")), st)
    else:
        judge(ctx, dendropy, make_case(c["schema"], c["text"], c.get("kwargs"), c.get("route"), c.get("origin", "replay"),
                                       c.get("source", "data")), st)
    flush(ctx, st)
