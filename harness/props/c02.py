"""C02 - trees survive a write/read round trip through Newick, NEXUS and NeXML."""
import io
import re
import itertools
import json

import treeutil as tu
from common import time_limit, hex6, unhex6, Timeout

ID = "C02"
GEN_DEPENDS = ["Tables"]
RULE = ("tree lists (1-3 trees, 1-8 leaves quick / up to 30 thorough; polytomies, unary nodes, anonymous leaves, internal labels or "
        "internal taxa, lengths None/0/int/dyadic/scientific/negative, rooting True/False/None, weights) over namespaces whose labels are "
        "drawn from printable ASCII + tab + non-ASCII letters (biased to every tokenizer/protect table character, underscores, "
        "spaces, quotes, digit-only labels), written and re-read through newick/nexus/nexml with consistent writer/reader option pairs, as Tree or "
        "TreeList, into a fresh namespace or the source namespace (for NEXUS the whole document and for NeXML the element structure also go through the "
        "model writer and the model reader; input_distribution counts every model op); about 40 % of the NEXUS / NeXML cases (20 % Newick) "
        "use a namespace whose MEMBER order differs from the accession order (sort(), sort(reverse=True), reverse(), remove_taxon + add_taxon "
        "applied after the trees were built; with taxa on no node), with TRANSLATE on / off (default tokens = accession index + 1), with and "
        "without TAXA blocks (suppress_taxa_blocks), and namespaces written on their own (TAXA block / otus only, read back as a DataSet) - the "
        "namespace clause is judged on the member order at the time of writing; a fixed grid of such cases runs first for every seed; HISTORIES: every action of a menu of 33 other reader / writer activities "
        "(successful and failed NEXUS reads with CHARSET position lists, interleaved matrices, comments, quoted tokens; failed Newick reads; reads with "
        "preserve_underscores / case_sensitive_taxon_labels / extract_comment_metadata / exclude_*; writes with other options) is run in the same process "
        "right before a round trip of a tree whose text is full of '-', 'e-', '+', '_' and quotes, through each schema, for every seed, and 15 % of the "
        "random cases carry 1-3 such actions as a prelude - the round trip is judged exactly as without history, and the replay of any failing case "
        "carries everything the process did before it; "
        "plus label-level (escape/next), token-stream and malformed-statement streams for the model correspondence; thorough adds "
        "every label-domain character in first/middle/last position, all pairs of special characters and all shapes <= 4 leaves with "
        "every anonymous-leaf pattern. Non-trivial = some label contains a character outside [A-Za-z0-9] or the options are non-default "
        "or a leaf is anonymous or the list has more than one tree")
MODELLED_NOT_VERIFIED = [
    "C02: Newick side (escape_nexus_token, NexusTokenizer, NewickWriter, NewickReader statement parser, NexusTaxonSymbolMapper lookup order, "
    "rooting/weight comments) is a hand-written Lean model tied to the code by per-case comparison (ops escape, tokens, write, parse, rt); the NEXUS "
    "document writer and reader (_write: #NEXUS, _write_taxa_block, _write_trees_block, _set_and_write_translate_block; _parse_nexus_stream, "
    "_parse_taxa_block, _parse_dimensions_statement, _parse_taxlabels_statement, _parse_trees_block, _parse_tree_statement, "
    "_parse_translate_statement) likewise (ops nexus-doc, nexus-doc-text, nexus, nexus-text, taxlabels); texts are compared as token streams",
    "C02: NEXUS documents with TITLE / LINK lines (several namespaces in one file), blocks other than TAXA / TREES, and text after the first "
    "TREES block are outside the model (the model reader refuses them; the harness sends one-tree-list documents only)",
    "C02: NeXML is modelled on the ELEMENT STRUCTURE only (ops nexml-write, nexml-read, nexml-rt: otus / otu / tree / node / edge / rootedge with their "
    "id, label, otu, root, source, target, length attributes, the writer's id counter, the reader's parent assignment in edge order, seed detection and "
    "rootedge); attribute quoting (_protect_attr / quoteattr) and the parser's reading of a quoted value are modelled and proved (ops attr-quote, attr-parse, "
    "theorem label_attr_roundtrip; hexadecimal references and XML-illegal control characters are outside the model); the rest of the XML text and "
    "xml.etree parsing are trusted: the harness reads the library's text with xml.etree directly and hands the element structure over; documents a writer does not produce (duplicate ids, re-parented nodes, several "
    "parentless nodes) are refused by the model; the tree construction on written elements is proved (nexml_tree_build_roundtrip_partial), the "
    "whole nxRead(nxWrite(trees)) = trees (guards of nxReadTree, list level) is compared on every case, not proved",
    "C02: float <-> text is Python's repr/float (lengths are opaque strings in the model); NTAX is Lean's Nat.repr against Python's str(int) (token "
    "comparison); case folding is a parameter of the model (theorems hold for every folding); the driver is handed str.lower() of the characters that "
    "occur (one-character images only: the generators never emit characters such as U+0130 or a final sigma); keyword matching upper-cases ASCII only; "
    "metadata comments/annotations are outside the statement",
]
EXPLANATION = ("Theorems (Props/C02.lean, all about the definitions drv_c02 runs): special_protected, tokenizer_tables (`decide` over the regenerated "
               "tables); tokenizer_fuel_suffices, reader_fuel_suffices (every loop of the Newick reader model has enough fuel on every input); "
               "token_roundtrip(_kind), token_roundtrip_any (both protect classes; captured / whitespace / end-of-text follower); statement_tokens; "
               "newick_tokens_roundtrip (every tree, anonymous leaves included); newick_roundtrip, newick_roundtrip_tree(_weighted)(_undefined); "
               "newick_list_roundtrip(_trees): several statements per text read into a pre-filled namespace; rooting_roundtrip, weight_absent, "
               "weight_roundtrip (incl. fractions); nexus_statements_roundtrip_partial, nexus_translate_roundtrip_partial, resolve_key, "
               "nexus_translate_roundtrip: the TREE statements of a NEXUS block under the NEXUS symbol mapper (label before number, TRANSLATE token "
               "before label; the _partial ones take the statements cut out of the block); taxlabels_tokens; nexus_trees_roundtrip and "
               "nexus_trees_translate_roundtrip: the TREES block TEXT of the model writer (BEGIN TREES; [Translate token label, ... ;] TREE name = "
               "statement ... END;) read by the model's block reader gives every ORIGINAL tree back under its name, and the table as written; "
               "nexus_document_roundtrip and nexus_document_translate_roundtrip: the WHOLE document (#NEXUS, BEGIN TAXA; DIMENSIONS NTAX=n; TAXLABELS ...; "
               "END;, TREES block) written by the model writer and read by the model document reader gives the namespace back - same labels, same "
               "order (the MEMBER order of the source namespace, which is what TAXLABELS and the TRANSLATE table list), built from TAXLABELS or handed "
               "in by the caller - and the trees; default_translate_table: the default table (token = accession index + 1, member order) has plain-word "
               "tokens and lists the namespace in member order; nexml_write_shape_partial: the NeXML writer model's id "
               "bookkeeping (one node and one edge element per node, counter arithmetic, seed first with root=\"true\" iff rooted, rootedge first) - "
               "nexml_tree_build_roundtrip_partial: for EVERY tree, the reader's tree construction nxBuild run from the seed on the node and edge "
               "elements the writer model emits returns the written tree (topology, child order, taxa, node labels, edge length texts) - partial: "
               "the guards nxReadTree evaluates first (no id twice, one parentless node = the seed, root flag / rootedge agree) and the list level "
               "are not proved - "
               "nexml_otus_roundtrip: the otus block the NeXML writer model emits is read back by the reader model as the same namespace, same "
               "order (fresh or the caller's), so any document nxRead accepts has that namespace - "
               "label_attr_roundtrip: for EVERY string, the XML parser model reads the value quoteattr writes (entities for & < >, character "
               "references for tab / LF / CR, quote choice, &quot;) back as that string - "
               "partial: the NeXML reader-after-writer identity is compared on every case (op nexml-rt) but not proved; float <-> text is trusted.")

SCHEMAS = ("newick", "nexus", "nexml")
NONASCII = u"éÉßñλЖж"        # includes the case pairs e-acute / E-acute and ZHE / zhe (each has a one-character str.lower())
PRINTABLE = [chr(i) for i in range(0x20, 0x7f)] + ["\t"] + list(NONASCII)
TABLE_CHARS = list("(){}[],;:=\\\"'`+-*/<>&_ \t")
PLAIN = list("abcXYZ019")
DEFAULT_WEIGHT = 1.0   # handed to the reader explicitly (default_tree_weight=) whenever weights are stored
CONSISTENT = [(False, False, False), (True, False, False), (True, False, True), (True, True, True)]  # (preserve_spaces, unquoted_underscores, preserve_underscores)


# ------------------------------------------------------------------ generators
UNICODE_BLANKS = [0x85, 0xA0, 0x1680] + list(range(0x2000, 0x200B)) + [0x2028, 0x2029, 0x202F, 0x205F, 0x3000]
_LIVE = {}


def in_domain(c):
    """characters the model's `labelChar` admits: tab, printable ASCII, everything beyond ASCII"""
    o = ord(c)
    return c == "\t" or 0x20 <= o <= 0x7e or o >= 0x80


def clean_label(s):
    """the statement's domain: no leading / trailing whitespace (in the sense of str.strip, which includes U+00A0 etc.)"""
    return s.strip()


def live_chars():
    """read off the LIVE library (not a fixed alphabet): every character of any tokenizer set, every character the two
    protect classes of escape_nexus_token / NewickWriter make the writer quote, their code-point neighbours, and a sample
    of Unicode blanks.  Returns (special, alphabet): the reader-special / writer-protected characters and the label alphabet"""
    if "v" in _LIVE:
        return _LIVE["v"]
    import dendropy
    from dendropy.dataio.nexusprocessing import NexusTokenizer, escape_nexus_token
    from dendropy.dataio import newickwriter
    tk = NexusTokenizer(io.StringIO(""))
    special = set()
    for st in (tk.captured_delimiters, tk.uncaptured_delimiters, tk.quote_chars, tk.comment_begin, tk.comment_end):
        special.update(st)
    w = newickwriter.NewickWriter(preserve_spaces=True, unquoted_underscores=True)
    for o in list(range(1, 0x300)) + UNICODE_BLANKS:
        c = chr(o)
        if c in " _":
            special.add(c)
            continue
        lab = "a" + c + "b"
        try:
            if escape_nexus_token(lab, preserve_spaces=True, quote_underscores=False) != lab:
                special.add(c)
            if w._render_node_tag(dendropy.Node(taxon=dendropy.Taxon(label=lab))) != lab:
                special.add(c)
        except Exception:
            special.add(c)
    alpha = set()
    for c in special:
        for d in (-1, 0, 1):
            if 0 < ord(c) + d:
                alpha.add(chr(ord(c) + d))
    alpha.update(chr(o) for o in UNICODE_BLANKS)
    alpha = sorted(c for c in alpha if in_domain(c) and len(c.lower()) == 1 and c.lower().upper() in (c, c.upper()))
    _LIVE["v"] = (sorted(c for c in special if in_domain(c)), alpha)
    return _LIVE["v"]


def gen_label(rng, maxlen=6):
    r = rng.random()
    n = rng.choice([1, 1, 2, 2, 3, 4, maxlen])
    special, alpha = live_chars()
    if r < 0.15:
        pool = PLAIN
    elif r < 0.22:
        pool = list("0123456789")
    elif r < 0.5:
        pool = PLAIN + TABLE_CHARS * 2
    elif r < 0.75:
        pool = PLAIN + alpha
    else:
        pool = PLAIN + TABLE_CHARS + PRINTABLE
    return clean_label("".join(rng.choice(pool) for _ in range(n)))


def gen_labels(rng, n, maxlen=6):
    out, seen = [], set()
    while len(out) < n:
        s = gen_label(rng, maxlen)
        if not s or s.lower() in seen or s.casefold() in seen or s.upper() in seen:
            continue
        seen.update((s.lower(), s.casefold(), s.upper()))
        out.append(s)
    return out


def gen_length(rng, style):
    if style == "none":
        return None
    r = rng.random()
    if style == "mixed" and r < 0.2:
        return None
    if r < 0.3:
        return 0.0
    if r < 0.42:
        return rng.randint(0, 7)                       # int
    if r < 0.6:
        return rng.choice([1e-05, 2.5e-10, 1.5e+20, 3e+16, 1e+22, 6.02e-23, 1.0000000000000002])
    if r < 0.65:
        return -rng.randint(1, 16) / 8.0
    if r < 0.75:
        return rng.random() * 10 ** rng.randint(-8, 8)
    return rng.randint(1, 64) / 16.0


def gen_tree_spec(rng, taxa, style, internal, anon_rate, max_unary=0.08):
    """nested [taxon_label, node_label, length, children]; taxa consumed left to right"""
    n = len(taxa)
    shape = tu.rand_shape(rng, n, p_poly=rng.choice([0.0, 0.25, 0.6]), p_unary=rng.choice([0.0, max_unary])) if n else []
    it = iter(taxa)

    def go(sh, root):
        ln = gen_length(rng, style)
        if not sh:
            tx = next(it)
            return [tx, None, ln, []]
        tx = lb = None
        if internal == "labels" and rng.random() < 0.5:
            lb = gen_label(rng) or None
        elif internal == "taxa" and rng.random() < 0.4:
            tx = "@int"          # placeholder, resolved by the caller
        kids = [go(c, False) for c in sh]
        return [tx, lb, ln, kids]
    spec = go(shape, True) if n else [None, None, gen_length(rng, style), []]
    # anonymous leaves: extra leaf children without taxon, at random positions
    if anon_rate:
        def sprinkle(nd):
            for c in nd[3]:
                sprinkle(c)
            if nd[3] and rng.random() < anon_rate:
                for _ in range(rng.randint(1, 2)):
                    nd[3].insert(rng.randint(0, len(nd[3])), [None, None, gen_length(rng, style) if rng.random() < 0.3 else None, []])
        sprinkle(spec)
    return spec


def spec_nodes(spec):
    out, stack = [], [spec]
    while stack:
        nd = stack.pop()
        out.append(nd)
        stack.extend(reversed(nd[3]))
    return out


def gen_case(rng, schema=None, max_leaves=8, force=None):
    force = force or {}
    schema = schema or rng.choice(SCHEMAS)
    ntrees = rng.choice([1, 1, 1, 2, 3])
    nleaf = rng.randint(1, max_leaves)
    internal = rng.choice(["labels", "labels", "taxa", "none"])
    nint = 3 if internal == "taxa" else 0
    extra = rng.choice([0, 0, 1, 2]) if schema != "newick" or rng.random() < 0.2 else 0
    labels = force.get("labels") or gen_labels(rng, nleaf + nint + extra)
    rng.shuffle(labels)
    style = rng.choice(["none", "all", "all", "mixed"])
    anon = rng.choice([0.0, 0.0, 0.0, 0.25])
    trees = []
    for _ in range(ntrees):
        k = rng.randint(1, nleaf) if ntrees > 1 else nleaf
        k = min(k, len(labels))
        pool = list(labels)
        rng.shuffle(pool)
        leaf_taxa, rest = pool[:k], pool[k:]
        spec = gen_tree_spec(rng, leaf_taxa, style, internal, anon)
        for nd in spec_nodes(spec):
            if nd[0] == "@int":
                nd[0] = rest.pop() if rest else None
        trees.append({"spec": spec, "rooted": rng.choice([True, False, None]),
                      "weight": rng.choice([None, None, 0.5, 2.0, 0.125, "3/8", "5/2"]),
                      "name": (gen_label(rng) or None) if rng.random() < 0.3 else None})
    # trees without any leaf taxon: every leaf anonymous (taxa, if any, only on internal nodes); in a list, all trees or only some
    notax = rng.random() < 0.1
    if notax:
        which = [True] * ntrees if rng.random() < 0.6 else [rng.random() < 0.5 for _ in range(ntrees)]
        for t, strip_it in zip(trees, which):
            if not strip_it:
                continue
            for nd in spec_nodes(t["spec"]):
                if not nd[3]:
                    nd[0] = None
            root = t["spec"]
            if not root[3] and root[0] is None and not root[1] and root[2] is None:
                root[2] = 1.0       # the lone blank node has no Newick text: give it a length
        used = {nd[0] for t in trees for nd in spec_nodes(t["spec"]) if nd[0] is not None}
        if not used and not force.get("labels") and rng.random() < 0.6:
            labels = []             # an empty namespace
    ps, uu, pu = rng.choice(CONSISTENT) if rng.random() < 0.5 else CONSISTENT[0]
    wopts, ropts = {}, {}
    if schema != "nexml":
        if ps:
            wopts["preserve_spaces"] = True
        if uu:
            wopts["unquoted_underscores"] = True
        if pu:
            ropts["preserve_underscores"] = True
        if rng.random() < 0.2:
            wopts["store_tree_weights"] = True
            ropts["store_tree_weights"] = True
        if internal == "taxa":
            ropts["suppress_internal_node_taxa"] = False
        if rng.random() < 0.2:
            rts = {t["rooted"] for t in trees}
            if len(rts) == 1 and None not in rts:
                wopts["suppress_rooting"] = True
                ropts["rooting"] = "force-rooted" if True in rts else "force-unrooted"
        if schema == "nexus" and rng.random() < 0.35:
            wopts["translate_tree_taxa"] = True
        if schema == "nexus" and rng.random() < 0.08:
            wopts["suppress_taxa_blocks"] = True
    case = {"op": "roundtrip", "schema": schema, "labels": labels, "trees": trees, "wopts": wopts, "ropts": ropts,
            "via": "tree" if (ntrees == 1 and rng.random() < 0.4) else "treelist",
            "into": "source" if rng.random() < 0.2 else "fresh"}
    # other reader / writer activity in the same process right before the round trip
    if rng.random() < 0.15:
        case["prelude"] = gen_prelude(rng)
    # without a TAXA block the taxon numbers of the reader refer to the namespace under construction: digit-only labels cannot
    # be carried into a FRESH namespace by that layout (boundary of the format, see report); the matching reader option is the
    # source namespace handed in
    if wopts.get("suppress_taxa_blocks") and any(l.isdigit() for l in labels):
        case["into"] = "source"
    # namespaces whose member order is not the accession order (sorted / reversed / a member removed and added again)
    if labels and rng.random() < (0.2 if schema == "newick" else 0.4):
        case["ns_ops"] = gen_ns_ops(rng, labels)
    case.update({k: v for k, v in force.items() if k != "labels"})
    return case


# ------------------------------------------------------------------ building and observing real trees
NS_OPS = ("sort", "rsort", "reverse", "readd")


def gen_ns_ops(rng, labels):
    """operations applied to the TaxonNamespace AFTER the trees are built, so that its member (iteration) order differs from
    the accession order: sort(), sort(reverse=True), reverse(), remove_taxon + add_taxon of one member (leaves a hole in the
    accession indices and moves the member to the end)"""
    ops = []
    for _ in range(rng.choice([1, 1, 2, 3])):
        k = rng.choice(NS_OPS)
        if k == "readd":
            if labels:
                ops.append(["readd", rng.choice(labels)])
        else:
            ops.append([k])
    return ops


def ns_sim(case):
    """the namespace the writer is handed, computed from the case alone: (labels in member order, label -> accession index)"""
    order = list(case["labels"])
    acc = {l: i for i, l in enumerate(order)}
    count = len(order)
    for op in case.get("ns_ops") or ():
        if op[0] == "sort":
            order.sort()
        elif op[0] == "rsort":
            order.sort(reverse=True)
        elif op[0] == "reverse":
            order.reverse()
        elif op[0] == "readd" and op[1] in acc:
            order.remove(op[1])
            order.append(op[1])
            acc[op[1]] = count
            count += 1
    return order, acc


def apply_ns_ops(tns, case):
    by_label = {t.label: t for t in tns}
    for op in case.get("ns_ops") or ():
        if op[0] == "sort":
            tns.sort()
        elif op[0] == "rsort":
            tns.sort(reverse=True)
        elif op[0] == "reverse":
            tns.reverse()
        elif op[0] == "readd" and op[1] in by_label:
            tns.remove_taxon(by_label[op[1]])
            tns.add_taxon(by_label[op[1]])


def build_treelist(dendropy, case):
    tns = dendropy.TaxonNamespace(case["labels"])
    by_label = {t.label: t for t in tns}
    tl = dendropy.TreeList(taxon_namespace=tns)
    for t in case["trees"]:
        def go(nd):
            node = dendropy.Node()
            if nd[0] is not None:
                node.taxon = by_label[nd[0]]
            node.label = nd[1]
            node.edge.length = nd[2]
            for c in nd[3]:
                node.add_child(go(c))
            return node
        tree = dendropy.Tree(taxon_namespace=tns, seed_node=go(t["spec"]))
        tree.is_rooted = t["rooted"]
        tree.weight = tu.Fraction(t["weight"]) if isinstance(t.get("weight"), str) else t.get("weight")
        tree.label = t.get("name")
        tl.append(tree)
    apply_ns_ops(tns, case)
    return tl


def observe(tree):
    """independent walk over _child_nodes: nested [taxon label, node label, length, children]"""
    def go(nd):
        return [None if nd.taxon is None else nd.taxon.label, nd.label, nd.edge.length, [go(c) for c in nd._child_nodes]]
    return go(tree.seed_node)


def exact(x):
    return None if x is None else tu.Fraction(x)


def compare_node(a, b, schema, path, is_root, out):
    """a: source spec node, b: observed node"""
    if len(a[3]) != len(b[3]):
        out.append(("topology", "node %s: %d children written, %d read back" % (path, len(a[3]), len(b[3]))))
        return
    if a[0] != b[0]:
        out.append(("taxon", "node %s: taxon %r read back as %r" % (path, a[0], b[0])))
    if a[3] and (a[1] or None) != (b[1] or None):
        out.append(("internal-label", "internal node %s: label %r read back as %r" % (path, a[1], b[1])))
    la, lb = exact(a[2]), exact(b[2])
    if la != lb and not (schema == "nexml" and is_root and la is None and lb == 0):
        out.append(("length", "node %s: edge length %r read back as %r" % (path, a[2], b[2])))
    for i, (x, y) in enumerate(zip(a[3], b[3])):
        compare_node(x, y, schema, path + "." + str(i), False, out)


def oracle(case, tl2, order=None):
    """the statement evaluated on the re-read tree list; returns [(kind, what)].  `order`: the labels of the source namespace
    in ITS member order at the time of writing (the namespace clause is about that order, not the accession order)"""
    out = []
    schema = case["schema"]
    if order is None:
        order = ns_sim(case)[0]
    if len(tl2) != len(case["trees"]):
        return [("tree-count", "%d trees written, %d read back" % (len(case["trees"]), len(tl2)))]
    for k, (t, t2) in enumerate(zip(case["trees"], tl2)):
        probs = []
        compare_node(t["spec"], observe(t2), schema, "t%d:0" % k, True, probs)
        out.extend(probs[:3])
        if t["rooted"] is not None and t2.is_rooted is not t["rooted"]:
            out.append(("rooting", "tree %d: is_rooted %r read back as %r" % (k, t["rooted"], t2.is_rooted)))
        if (schema != "nexml" and case["wopts"].get("store_tree_weights") and case["ropts"].get("store_tree_weights")
                and t.get("weight") is not None and (t2.weight is None or exact(t2.weight) != exact(t["weight"]))):
            out.append(("weight", "tree %d: weight %r read back as %r with store_tree_weights on both sides" % (k, t["weight"], t2.weight)))
        members = {id(x) for x in tl2.taxon_namespace}
        if t2.taxon_namespace is not tl2.taxon_namespace or any(
                nd.taxon is not None and id(nd.taxon) not in members for nd in tu.walk(t2.seed_node)):
            out.append(("taxon-namespace", "tree %d: a node's Taxon object is not a member of the re-read namespace" % k))
    got = [x.label for x in tl2.taxon_namespace]
    if case.get("into") == "source":
        if got != order:
            out.append(("namespace", "read into the source namespace %r, which then lists %r" % (order, got)))
    elif schema == "newick" or (schema == "nexus" and case["wopts"].get("suppress_taxa_blocks")):
        # no TAXA block: the text carries the labels on the trees only (plus, with TRANSLATE, the table)
        used = set()
        for t in case["trees"]:
            used.update(nd[0] for nd in spec_nodes(t["spec"]) if nd[0] is not None)
        if schema == "nexus" and case["wopts"].get("translate_tree_taxa"):
            if got != order:
                out.append(("namespace", "no TAXA block, TRANSLATE table lists %r, namespace read back %r" % (order, got)))
        elif set(got) != used or len(got) != len(set(got)):
            out.append(("namespace", "taxon labels on the trees %r, namespace read back %r" % (sorted(used), got)))
    elif got != order:
        out.append(("namespace", "namespace labels (member order at writing) %r read back as %r" % (order, got)))
    return out


# ------------------------------------------------------------------ protocol encodings for the model
def fmt_len(x):
    return None if x is None else "{}".format(x)


def enc_spec(spec, token_of=None):
    out = []

    def go(nd):
        tx = nd[0]
        if tx is not None and token_of is not None:
            tx = token_of[tx]
        out.extend([str(len(nd[3])), hex6(tx), hex6(nd[1]), hex6(fmt_len(nd[2]))])
        for c in nd[3]:
            go(c)
    go(spec)
    return " ".join(out)


def wopts_bits(w):
    keys = [("suppress_leaf_taxon_labels", False), ("suppress_leaf_node_labels", True), ("suppress_internal_taxon_labels", False),
            ("suppress_internal_node_labels", False), ("suppress_rooting", False), ("suppress_edge_lengths", False),
            ("unquoted_underscores", False), ("preserve_spaces", False), ("store_tree_weights", False)]
    return "".join("1" if w.get(k, d) else "0" for k, d in keys)


ROOTING = {None: 0, "force-unrooted": 1, "force-rooted": 2, "default-unrooted": 3, "default-rooted": 4}


def ropts_bits(r):
    return "%d%d%d%d%d" % (1 if r.get("preserve_underscores") else 0, ROOTING[r.get("rooting")],
                           1 if r.get("suppress_internal_node_taxa", True) else 0,
                           1 if r.get("suppress_leaf_node_taxa", False) else 0, 1 if r.get("store_tree_weights") else 0)


def rooted_code(x):
    return 0 if x is None else (2 if x else 1)


def write_line(wopts, t, token_of=None):
    w = t.get("weight")
    return "write %s %d %s %s" % (wopts_bits(wopts), rooted_code(t["rooted"]), hex6(None if w is None else "{}".format(w)),
                                  enc_spec(t["spec"], token_of))


def case_map(*texts):
    """str.lower on the characters that occur, as the model's case-folding parameter (one-character images only;
    the generators never emit characters whose lower() is longer or context dependent)"""
    chars = sorted({c for t in texts for c in t if c.lower() != c and len(c.lower()) == 1})
    return ",".join(hex6(x) for c in chars for x in (c, c.lower())) or "-"


def parse_line(ropts, text, ns=(), tokmap=(), numbers=False):
    return "parse %s %s %d %s %s %s" % (ropts_bits(ropts), case_map(text, *ns), 1 if numbers else 0, ",".join(hex6(x) for x in ns) or "-",
                                        ",".join(hex6(x) for p in tokmap for x in p) or "-", hex6(text))


def rt_line(wopts, ropts, t):
    w = t.get("weight")
    labs = [x for nd in spec_nodes(t["spec"]) for x in (nd[0], nd[1]) if x]
    return "rt %s %s %s %d %s %s" % (wopts_bits(wopts), ropts_bits(ropts), case_map(*labs), rooted_code(t["rooted"]),
                                     hex6(None if w is None else "{}".format(w)), enc_spec(t["spec"]))


def _weight_value(expr):
    parts = expr.split("/")
    if len(parts) > 2 or not expr:
        raise ValueError
    if len(parts) == 2:
        return float(parts[0]) / float(parts[1])
    return float(parts[0])


def canon_model(line, stw, named=False):
    """model `parse`/`rt` output -> canonical python value (float() applied to length / weight tokens, as the reader does)"""
    if line == "ERR":
        return "ERR"
    try:
        head, _, rest = line.partition(" trees ")
        ns = [unhex6(x) for x in head.split(" ", 1)[1].split(",")] if head.strip() != "ns" else []
        parts = rest.split(" | ")
        trees = []
        for p in parts[1:]:
            name = None
            if named:
                nm, p = p.split(" ", 1)
                name = unhex6(nm)
            r, w, nested = p.split(" ", 2)
            toks = nested.replace("(", " ( ").replace(")", " ) ").split()
            pos = [0]

            def node():
                assert toks[pos[0]] == "("
                tx, lb, ln = (unhex6(x) for x in toks[pos[0] + 1:pos[0] + 4])
                pos[0] += 4
                kids = []
                while toks[pos[0]] == "(":
                    kids.append(node())
                pos[0] += 1
                return [tx, lb, None if ln is None else [float(x) for x in ln.split("\0")][-1].hex(), kids]
            tree = node()
            wv = None
            if stw:
                wv = DEFAULT_WEIGHT if w == "-" else _weight_value(unhex6(w))
                wv = float(wv).hex()
            trees.append(([name] if named else []) + [{"R": True, "U": False, "N": None}[r], wv, tree])
        return [ns, trees]
    except (ValueError, ZeroDivisionError, OverflowError):
        return "ERR"


def canon_impl(tl, stw):
    def go(nd):
        ln = nd.edge.length
        return [None if nd.taxon is None else nd.taxon.label, nd.label, None if ln is None else float(ln).hex(), [go(c) for c in nd._child_nodes]]
    return [[t.label for t in tl.taxon_namespace],
            [[t.is_rooted, (None if t.weight is None else float(t.weight).hex()) if stw else None, go(t.seed_node)] for t in tl]]



# ------------------------------------------------------------------ NeXML: the abstract document (element structure)
NEXML_NS = "{http://www.nexml.org/2009}"


def nexml_doc_of_text(text):
    """the element structure of a NeXML text, read with xml.etree directly (not through dendropy.dataio.xmlprocessing):
    [otus_id, [(otu_id, label)], trees_id, [(tree_id, label, [(id, label, otu, root)], [(id, source, target, length)])]];
    `rootedge` elements are edges without source.  Returns None when the layout is not the one-otus / one-trees document"""
    from xml.etree import ElementTree as ET
    root = ET.fromstring(text)      # feed(str): the declared encoding does not apply to text that is already decoded
    otus = list(root.iter(NEXML_NS + "otus"))
    trees = list(root.iter(NEXML_NS + "trees"))
    if len(otus) != 1 or len(trees) != 1:
        return None
    o, tb = otus[0], trees[0]
    if tb.get("otus") != o.get("id"):
        return None
    doc = [o.get("id"), [(e.get("id"), e.get("label")) for e in o.findall(NEXML_NS + "otu")], tb.get("id"), []]
    for t in tb.findall(NEXML_NS + "tree"):
        nodes = [(n.get("id"), n.get("label"), n.get("otu"), (n.get("root") or "").lower() in ("1", "t", "true"))
                 for n in t.findall(NEXML_NS + "node")]
        edges = []
        for e in t:
            if e.tag == NEXML_NS + "rootedge":
                edges.append((e.get("id"), None, e.get("target"), e.get("length")))
            elif e.tag == NEXML_NS + "edge":
                if e.get("source") is None:
                    return None
                edges.append((e.get("id"), e.get("source"), e.get("target"), e.get("length")))
        doc[3].append((t.get("id"), t.get("label"), nodes, edges))
    return doc


def nexml_doc_of_model(line):
    """parse the driver's `nexml-write` answer (same flat layout as `nexml_doc_tokens`)"""
    w = line.split(" ")
    pos = [0]

    def take():
        pos[0] += 1
        return w[pos[0] - 1]

    def opt(x):
        return None if x == "-" else x
    oid = take()
    otus = [(take(), unhex6(take())) for _ in range(int(take()))]
    tid = take()
    trees = []
    for _ in range(int(take())):
        t_id, lab = take(), unhex6(take())
        nodes = [(take(), unhex6(take()), opt(take()), take() == "1") for _ in range(int(take()))]
        edges = [(take(), opt(take()), take(), unhex6(take())) for _ in range(int(take()))]
        trees.append((t_id, lab, nodes, edges))
    assert pos[0] == len(w)
    return [oid, otus, tid, trees]


def nexml_doc_tokens(doc):
    """flat protocol layout with ids renumbered by first appearance (ids are arbitrary strings in the text: only their
    identity matters, so a different id scheme in the writer is not a difference)"""
    num = {}

    def n(x):
        if x is None:
            return "-"
        return str(num.setdefault(x, len(num)))
    out = [n(doc[0]), str(len(doc[1]))]
    for i, lab in doc[1]:
        out += [n(i), hex6(lab)]
    out += [n(doc[2]), str(len(doc[3]))]
    for t_id, lab, nodes, edges in doc[3]:
        out += [n(t_id), hex6(lab), str(len(nodes))]
        for i, lb, otu, root in nodes:
            out += [n(i), hex6(lb), n(otu), "1" if root else "0"]
        out.append(str(len(edges)))
        for i, src, tgt, ln in edges:
            out += [n(i), n(src), n(tgt), hex6(ln)]
    return " ".join(out)


def xw_line(case, order):
    parts = []
    for t in case["trees"]:
        parts.append("%s %d %s" % (hex6(t.get("name")), rooted_code(t["rooted"]), enc_spec(t["spec"])))
    return "%s %d %s" % (",".join(hex6(x) for x in order) or "-", len(parts), " ".join(parts))


# ------------------------------------------------------------------ histories: other reader / writer activity in the same process
# A round trip must not depend on what the process read or wrote before.  A case may carry a `prelude` (a list of actions run
# just before it); every action ever run in this process is also remembered (HISTORY) and attached to the replay of a failing
# case as `history`, so that a failure caused by state that leaked from an earlier case is reproduced by the replay alone.
_NX_HEAD = "#NEXUS\nBEGIN TAXA;\n DIMENSIONS NTAX=3;\n TAXLABELS A 'B b' C_c;\nEND;\n"
_NX_MAT = ("BEGIN CHARACTERS;\n DIMENSIONS NCHAR=8;\n FORMAT DATATYPE=DNA GAP=- MISSING=?;\n MATRIX\n A ACGT-ACG\n 'B b' AC-TTACG\n"
           " C_c ACGTTA?G\n ;\nEND;\n")
_NX_ILV = ("BEGIN CHARACTERS;\n DIMENSIONS NCHAR=8;\n FORMAT DATATYPE=DNA GAP=- MISSING=? INTERLEAVE;\n MATRIX\n A ACGT\n 'B b' AC-T\n C_c ACGT\n\n"
           " A -ACG\n 'B b' TACG\n C_c TA?G\n ;\nEND;\n")
_NX_TREES = "BEGIN TREES;\n TRANSLATE 1 A, 2 'B b', 3 C_c;\n TREE 't-1' = [&R] (1:1e-05,(2:-0.5,3:2.5E-10)'in-t':1)[&x=1-2];\nEND;\n"


def _rd(schema, text, as_="DataSet", **opts):
    return {"do": "read", "schema": schema, "as": as_, "text": text, "opts": opts}


PRELUDE_MENU = [
    # successful and FAILED NEXUS reads: CHARSET position lists, interleaved matrices, comments, quoted tokens
    ("nexus-charset-ok", _rd("nexus", _NX_HEAD + _NX_MAT + "BEGIN SETS;\n CHARSET c1 = 1-4;\n CHARSET c2 = 2-8\\3;\n CHARSET c3 = 1 3-. ;\nEND;\n")),
    ("nexus-charset-bad-position", _rd("nexus", _NX_HEAD + _NX_MAT + "BEGIN SETS;\n CHARSET c = 1-x\\3;\nEND;\n")),
    ("nexus-charset-truncated", _rd("nexus", _NX_HEAD + _NX_MAT + "BEGIN SETS;\n CHARSET c = 1-")),
    ("nexus-charset-bad-step", _rd("nexus", _NX_HEAD + _NX_MAT + "BEGIN SETS;\n CHARSET c = 1-8\\q;\nEND;\n")),
    ("nexus-interleaved-ok", _rd("nexus", _NX_HEAD + _NX_ILV + _NX_TREES)),
    ("nexus-interleaved-bad-symbol", _rd("nexus", _NX_HEAD + _NX_ILV.replace("TA?G", "TA!G"))),
    ("nexus-interleaved-truncated", _rd("nexus", _NX_HEAD + _NX_ILV[:_NX_ILV.index("\n A -ACG") + 6])),
    ("nexus-interleaved-unknown-taxon", _rd("nexus", _NX_HEAD + _NX_ILV.replace(" A -ACG", " Z -ACG"))),
    ("nexus-matrix-bad-symbol", _rd("nexus", _NX_HEAD + _NX_MAT.replace("AC-TTACG", "AC-TT!CG"))),
    ("nexus-comments-quotes", _rd("nexus", "#NEXUS\n[a [nested] comment]\nBEGIN TAXA; DIMENSIONS NTAX=2; TAXLABELS [c]A[&x=1] 'it''s' ; END;\n"
                                           "BEGIN TREES; TREE t = [&R] (A[&p=1]:1,'it''s':2)[&q={1,2}]; END;\n", extract_comment_metadata=True)),
    ("nexus-unterminated-quote", _rd("nexus", "#NEXUS\nBEGIN TAXA; DIMENSIONS NTAX=2; TAXLABELS A 'B ; END;\n")),
    ("nexus-unterminated-comment", _rd("nexus", "#NEXUS\nBEGIN TREES; TREE t = [&R (A,B); END;\n")),
    ("nexus-too-many-taxa", _rd("nexus", "#NEXUS\nBEGIN TAXA; DIMENSIONS NTAX=1; TAXLABELS A B; END;\n")),
    ("nexus-trees-only", _rd("nexus", _NX_HEAD + _NX_TREES, as_="TreeList", preserve_underscores=True)),
    ("nexus-trees-case-sensitive", _rd("nexus", _NX_HEAD + _NX_TREES, as_="TreeList", case_sensitive_taxon_labels=True)),
    ("nexus-exclude-chars", _rd("nexus", _NX_HEAD + _NX_ILV + _NX_TREES, exclude_chars=True)),
    ("nexus-exclude-trees", _rd("nexus", _NX_HEAD + _NX_MAT + _NX_TREES, exclude_trees=True)),
    # failed and unusual Newick reads
    ("newick-unbalanced-open", _rd("newick", "((A,B);", as_="TreeList")),
    ("newick-unbalanced-close", _rd("newick", "(A,B));", as_="TreeList")),
    ("newick-bad-length", _rd("newick", "(A:1:x,B:1e-);", as_="TreeList")),
    ("newick-two-labels", _rd("newick", "(A,B)C D;", as_="TreeList")),
    ("newick-open-quote", _rd("newick", "('A,B);", as_="TreeList")),
    ("newick-duplicate-taxon", _rd("newick", "(A,a,A);", as_="TreeList")),
    ("newick-preserve-underscores", _rd("newick", "(a_b:1e-05,'c d':-1)x_y;", as_="TreeList", preserve_underscores=True)),
    ("newick-case-sensitive", _rd("newick", "(Aa,aA);", as_="TreeList", case_sensitive_taxon_labels=True)),
    ("newick-comment-metadata", _rd("newick", "[&R] (A[&x=1-2]:1,B:2)[&y={a-b,c}];[&U](B,A);", as_="TreeList", extract_comment_metadata=True)),
    ("newick-internal-taxa", _rd("newick", "((A,B)C-1:1e-05,D)E+;", as_="TreeList", suppress_internal_node_taxa=False, rooting="force-rooted")),
    ("newick-tree-offset", _rd("newick", "(A,B);(C,D);", as_="Tree", tree_offset=5)),
    # NeXML: a failed read
    ("nexml-not-xml", _rd("nexml", "<nex:nexml", as_="TreeList")),
    # writes with other options
    ("write-newick-options", {"do": "write", "schema": "newick", "labels": ["a-b", "c_d", "e f", "it's"],
                              "wopts": {"preserve_spaces": True, "unquoted_underscores": True, "suppress_rooting": True, "suppress_edge_lengths": True}}),
    ("write-nexus-translate", {"do": "write", "schema": "nexus", "labels": ["a-b", "c_d", "e f", "1"],
                               "wopts": {"translate_tree_taxa": True, "store_tree_weights": True}}),
    ("write-nexus-simple", {"do": "write", "schema": "nexus", "labels": ["a-b", "c_d"], "wopts": {"simple": True, "suppress_annotations": True}}),
    ("write-nexml", {"do": "write", "schema": "nexml", "labels": ["a-b", "c<d", "e&f"], "wopts": {}}),
]
HISTORY = []          # JSON keys of the actions run so far in this process, first occurrence order
_HISTORY_SEEN = set()


def run_prelude(ctx, dendropy, actions):
    """run the actions; none of them is judged (whether a malformed document is refused is C20's subject): successes,
    refusals and crashes alike only serve as history for the round trip that follows"""
    for a in actions or ():
        key = json.dumps(a, sort_keys=True)
        if key not in _HISTORY_SEEN:
            _HISTORY_SEEN.add(key)
            HISTORY.append(a)
        outcome = "ok"
        try:
            with time_limit(10):
                if a["do"] == "read":
                    cls = {"DataSet": dendropy.DataSet, "TreeList": dendropy.TreeList, "Tree": dendropy.Tree}[a.get("as", "DataSet")]
                    cls.get(data=a["text"], schema=a["schema"], **a.get("opts", {}))
                elif a["do"] == "write":
                    tl = build_treelist(dendropy, simple_case(a["schema"], a["labels"]))
                    tl.as_string(a["schema"], **a.get("wopts", {}))
        except Timeout:
            outcome = "timeout"
        except RecursionError:
            outcome = "raised"
        except Exception:
            outcome = "raised"
        if ctx is not None:
            ctx.count("history-action:%s:%s" % (a["do"], outcome))


def with_history(case):
    """the replay record of a failing case: the case plus everything this process did before it"""
    if not HISTORY:
        return case
    rec = dict(case)
    own = {json.dumps(a, sort_keys=True) for a in case.get("prelude") or ()}
    rec["history"] = [a for a in HISTORY if json.dumps(a, sort_keys=True) not in own]
    return rec


HYPHEN_LABELS = ["Pan-troglodytes", "a+b", "c_d", "it's", "e-", "-1", "x-y z"]


def hyphen_case(schema, prelude):
    """a tree whose text carries '-', 'e-', '+', '_', quotes outside quotes wherever the format allows"""
    lens = [1e-05, -0.5, 2.5e-10, 1e+22, -3, 6.02e-23, 1.5]
    spec = [None, None, None, [[l, None, x, []] for l, x in zip(HYPHEN_LABELS[:4], lens)] +
            [[None, "in-t" if schema != "nexml" else "in-t", 1e-07, [[l, None, x, []] for l, x in zip(HYPHEN_LABELS[4:], lens[4:])]]]]
    c = simple_case(schema, list(HYPHEN_LABELS), spec=spec, rooted=True)
    c["prelude"] = prelude
    return c


def history_cases():
    out = []
    for name, action in PRELUDE_MENU:
        for schema in SCHEMAS:
            out.append(hyphen_case(schema, [action]))
    return out


def gen_prelude(rng):
    return [rng.choice(PRELUDE_MENU)[1] for _ in range(rng.choice([1, 1, 2, 3]))]

# ------------------------------------------------------------------ the round-trip case: implementation, oracle, model
def case_key(case):
    return [case.get("op"), case.get("schema"), case.get("labels"), case.get("trees"), case.get("wopts"), case.get("ropts"), case.get("text"),
            case.get("via"), case.get("into"), case.get("ns_ops"), case.get("prelude")]


def nontrivial(case):
    if case.get("op") != "roundtrip":
        return True
    if case["wopts"] or case["ropts"] or len(case["trees"]) > 1 or case.get("ns_ops") or case.get("prelude"):
        return True
    for t in case["trees"]:
        for nd in spec_nodes(t["spec"]):
            if nd[0] is None and not nd[3]:
                return True
            for s in (nd[0], nd[1]):
                if s and not s.isalnum():
                    return True
    return any(not s.isascii() or not s.isalnum() for s in case["labels"])


def run_roundtrip(ctx, dendropy, case, pending):
    schema, wopts, ropts = case["schema"], case["wopts"], case["ropts"]
    ctx.case(case_key(case), nontrivial(case), sample=case, kind="roundtrip-" + schema)
    if case.get("history") or case.get("prelude"):
        run_prelude(ctx, dendropy, case.get("history"))
        run_prelude(ctx, dendropy, case.get("prelude"))
        ctx.count("roundtrip-after-history")
    rec = with_history(case)
    single = case.get("via") == "tree" and len(case["trees"]) == 1
    try:
        with time_limit(20):
            tl = build_treelist(dendropy, case)
            text = (tl[0] if single else tl).as_string(schema, **wopts)
    except Timeout:
        ctx.fail("hang", "writing to %s did not finish" % schema, rec)
        return
    except Exception as e:
        ctx.fail("write-error", "writing to %s raised %s: %s" % (schema, type(e).__name__, str(e)[:200]), rec)
        return
    # the source namespace in ITS member order (differs from the accession order after sort / reverse / remove + add)
    order, acc = ns_sim(case)
    actual = [t.label for t in tl.taxon_namespace]
    if actual != order:
        ctx.count("ns_sim_mismatch")      # TaxonNamespace ordering itself is C10's subject: take what the namespace says
        order = actual
        acc = {t.label: tl.taxon_namespace.accession_index(t) for t in tl.taxon_namespace}
    if case.get("ns_ops"):
        ctx.count("namespace-order:" + ("reordered" if order != list(case["labels"]) else "same-after-ops"))
    tl2 = None
    try:
        with time_limit(20):
            kw = dict(ropts)
            if kw.get("store_tree_weights"):
                kw["default_tree_weight"] = DEFAULT_WEIGHT
            if case.get("into") == "source":
                kw["taxon_namespace"] = tl.taxon_namespace
            if single:
                t2 = dendropy.Tree.get(data=text, schema=schema, **kw)
                tl2 = dendropy.TreeList([t2], taxon_namespace=t2.taxon_namespace)
            else:
                tl2 = dendropy.TreeList.get(data=text, schema=schema, **kw)
    except Timeout:
        ctx.fail("hang", "re-reading the %s text did not finish" % schema, rec)
    except Exception as e:
        ctx.fail("read-error", "re-reading the written %s text raised %s: %s | text: %r" % (
            schema, type(e).__name__, str(e)[:160], text[-300:]), rec)
    if tl2 is not None:
        probs = oracle(case, tl2, order)
        if not probs and case.get("into") == "source":
            src = {id(x) for x in tl.taxon_namespace}
            if tl2.taxon_namespace is not tl.taxon_namespace or any(
                    nd.taxon is not None and id(nd.taxon) not in src for t2_ in tl2 for nd in tu.walk(t2_.seed_node)):
                probs = [("namespace-identity", "read into the source namespace, but the trees refer to other Taxon objects / another namespace")]
        for kind, what in probs[:1]:
            ctx.fail(kind, "%s round trip (%s / %s): %s" % (schema, wopts, ropts, what), rec)
    # ---- model
    stw = bool(ropts.get("store_tree_weights"))
    if schema == "newick":
        for k, t in enumerate(case["trees"]):
            pending.append((write_line(wopts, t), ("write", case, k), None))
        pending.append((None, ("write-join", case, len(case["trees"])), text))
        ns0 = order if case.get("into") == "source" else ()
        pending.append((parse_line(ropts, text, ns=ns0), ("parse", case, stw), "ERR" if tl2 is None else canon_impl(tl2, stw)))
        if len(case["trees"]) == 1 and not ns0:
            # the composite the theorem newick_roundtrip speaks about: model write ; model read = what the library re-read
            pending.append((rt_line(wopts, ropts, case["trees"][0]), ("rt", case, stw), "ERR" if tl2 is None else canon_impl(tl2, stw)))
    elif schema == "nexus":
        lines = text.split("\n")
        stmts = [l.split(" = ", 1)[1] for l in lines if l.lstrip().upper().startswith("TREE ") and " = " in l]
        token_of, tokmap = None, ()
        if wopts.get("translate_tree_taxa"):
            # the default table: token = accession index + 1 (not the position), entries in member order
            token_of = {lab: str(acc[lab] + 1) for lab in order}
            tokmap = [(token_of[lab], lab) for lab in order]
        pu = 1 if ropts.get("preserve_underscores") else 0
        no_taxa = bool(wopts.get("suppress_taxa_blocks"))
        if no_taxa and case.get("into") != "source":
            # no TAXA block and a fresh namespace: the reader builds the namespace from the statements (and the table); the
            # block / document models start from a declared namespace, so only the real round trip (oracle) judges this case
            ctx.count("nexus_no_taxa_block_fresh")
            return
        if len(stmts) == len(case["trees"]):
            for k, t in enumerate(case["trees"]):
                pending.append((write_line(wopts, t, token_of), ("write-stmt", case, pu), stmts[k]))
            body = "\n".join(stmts) + "\n"
            expect = "ERR"
            if tl2 is not None:
                expect = canon_impl(tl2, stw)
            pending.append((parse_line(ropts, body, ns=order, tokmap=tokmap, numbers=True), ("parse-nexus", case, stw), expect))
        else:
            ctx.count("nexus_layout_not_recognised")
            ctx.note("NEXUS TREE statements not found where expected: the model comparison of this case was skipped")
        # the whole TREES block: the model's reader on the library's text, and the model's text against the library's (token streams)
        b0 = text.upper().find("BEGIN TREES;") if text.isascii() else re.compile("BEGIN TREES;", re.I).search(text).start() if re.compile("BEGIN TREES;", re.I).search(text) else -1
        if b0 >= 0:
            block = text[b0:]
            names = [(t.get("name") or str(k + 1)) for k, t in enumerate(case["trees"])]
            expect = "ERR"
            if tl2 is not None:
                ci = canon_impl(tl2, stw)
                expect = [ci[0], [[tl2[k].label] + x for k, x in enumerate(ci[1])]]
            pending.append(("nexus %s %s %s %s" % (ropts_bits(ropts), case_map(block, *order),
                                                   ",".join(hex6(x) for x in order) or "-", hex6(block)),
                            ("nexus", case, stw), expect))
            parts = []
            for nm, t in zip(names, case["trees"]):
                w = t.get("weight")
                parts.append("%s %d %s %s" % (hex6(nm), rooted_code(t["rooted"]), hex6(None if w is None else "{}".format(w)),
                                              enc_spec(t["spec"], token_of)))
            pending.append(("nexus-text %s %s %d %s" % (wopts_bits(wopts), ",".join(hex6(x) for p_ in tokmap for x in p_) or "-",
                                                        len(parts), " ".join(parts)), ("nexus-text", case, pu), block))
            # the WHOLE document (#NEXUS, TAXA block, TREES block): the model's document reader on the library's text (into the
            # caller's namespace when one was handed in), and the model's document text against the library's (token streams)
            if not no_taxa:
                attached = (",".join(hex6(x) for x in order) or "-") if case.get("into") == "source" else "*"
                pending.append(("nexus-doc %s %s %s %s" % (ropts_bits(ropts), case_map(text, *order), attached, hex6(text)),
                                ("nexus-doc", case, stw), expect))
                # the default table is built by the MODEL from the accession indices (member order, token = accession index + 1)
                pending.append(("nexus-doc-text %s %s %s %d %s" % (wopts_bits(wopts), ",".join(hex6(x) for x in order) or "-",
                                                                ("@" + ",".join(str(acc[x]) for x in order)) if tokmap else "-",
                                                                len(parts), " ".join(parts)), ("nexus-doc-text", case, pu), text))
        else:
            ctx.count("nexus_layout_not_recognised")
        # TAXLABELS list: (i) the model's text for it and the library's tokenize alike; (ii) its tokens are the labels, in order
        def find_ci(word, start=0):
            m_ = re.compile(re.escape(word), re.I).search(text, max(start, 0))
            return -1 if m_ is None else m_.start()
        i0 = -1 if no_taxa else find_ci("TAXLABELS")
        i1 = find_ci("\nEND;", i0)
        if no_taxa:
            pass
        elif i0 >= 0 and i1 > i0:
            tl_body = text[i0 + len("TAXLABELS"):i1] + "\n"
            pending.append(("taxlabels %d %d %s" % (1 if wopts.get("preserve_spaces") else 0, 1 if wopts.get("unquoted_underscores") else 0,
                                                    ",".join(hex6(x) for x in order) or "-"), ("taxlabels", case, pu), tl_body))
            # the TAXLABELS list carries the namespace's MEMBER order
            pending.append(("tokens %d %s" % (pu, hex6(tl_body)), ("token-texts", case, None), [hex6(x) for x in order] + [hex6(";")]))
        else:
            ctx.count("nexus_layout_not_recognised")
        # TRANSLATE statement: its tokens are `token label , token label , ... ;` for the table the writer was given
        if tokmap:
            j0 = find_ci("TRANSLATE")
            j1 = find_ci("\n    TREE ", j0 + 9)
            if j0 >= 0 and j1 > j0:
                tr_body = text[j0 + len("TRANSLATE"):j1]
                exp = []
                for n, (tok, lab) in enumerate(tokmap):
                    exp.extend([hex6(tok), hex6(lab)] + ([hex6(",")] if n + 1 < len(tokmap) else []))
                pending.append(("tokens %d %s" % (pu, hex6(tr_body)), ("token-texts", case, None), exp + [hex6(";")]))
            else:
                ctx.count("nexus_layout_not_recognised")

    elif schema == "nexml":
        # the element structure the library wrote (read with xml.etree directly): (i) the model writer's structure for the same
        # trees is the same up to the naming of ids; (ii) the model reader on it gives what the library re-read; (iii) the
        # composite model write ; model read (what the NeXML theorems speak about) gives that too
        try:
            doc = nexml_doc_of_text(text)
        except Exception:
            doc = None
        if doc is None:
            ctx.count("nexml_layout_not_recognised")
            return
        labs = [x for t in case["trees"] for nd in spec_nodes(t["spec"]) for x in (nd[0], nd[1]) if x] + list(order)
        cm = case_map(*labs)
        expect = "ERR"
        if tl2 is not None:
            ci = canon_impl(tl2, False)
            expect = [ci[0], [[tl2[k].label or ""] + x for k, x in enumerate(ci[1])]]
        pending.append(("nexml-write " + xw_line(case, order), ("nexml-write", case, None), nexml_doc_tokens(doc)))
        attached = (",".join(hex6(x) for x in order) or "-") if case.get("into") == "source" else "*"
        pending.append(("nexml-read %s %s %s" % (cm, attached, nexml_doc_tokens(doc)), ("nexml-read", case, False), expect))
        if case.get("into") != "source":
            pending.append(("nexml-rt %s %s" % (cm, xw_line(case, order)), ("nexml-rt", case, False), expect))


def run_taxa_only(ctx, dendropy, case, pending):
    """a TaxonNamespace written on its own (TAXA block only / otus block only) and read back as a data set: same labels, same
    MEMBER order.  case: {"op": "taxa-only", "schema": nexus|nexml, "labels": [...], "ns_ops": [...], "wopts": {...}}"""
    schema = case["schema"]
    ctx.case(case_key(case), True, sample=case, kind="taxa-only-" + schema)
    order, _ = ns_sim(case)
    try:
        with time_limit(20):
            tns = dendropy.TaxonNamespace(case["labels"])
            apply_ns_ops(tns, case)
            actual = [t.label for t in tns]
            if actual != order:
                ctx.count("ns_sim_mismatch")
                order = actual
            text = tns.as_string(schema, **case.get("wopts", {}))
    except Timeout:
        ctx.fail("hang", "writing a namespace to %s did not finish" % schema, case)
        return
    except Exception as e:
        ctx.fail("write-error", "writing a namespace to %s raised %s: %s" % (schema, type(e).__name__, str(e)[:200]), case)
        return
    got = None
    try:
        with time_limit(20):
            kw = {}
            if schema == "nexus" and case.get("wopts", {}).get("preserve_spaces") and case.get("wopts", {}).get("unquoted_underscores"):
                kw["preserve_underscores"] = True
            ds = dendropy.DataSet.get(data=text, schema=schema, **kw)
            got = [[t.label for t in ns] for ns in ds.taxon_namespaces]
    except Timeout:
        ctx.fail("hang", "re-reading the %s namespace text did not finish" % schema, case)
    except Exception as e:
        ctx.fail("read-error", "re-reading the written %s namespace text raised %s: %s | text: %r" % (
            schema, type(e).__name__, str(e)[:160], text[-300:]), case)
    if got is not None and got != [order]:
        ctx.fail("namespace", "%s: namespace %r (member order at writing) written on its own is read back as %r" % (schema, order, got), case)
    if schema == "nexus":
        ro = {"preserve_underscores": True} if (case.get("wopts", {}).get("preserve_spaces") and case.get("wopts", {}).get("unquoted_underscores")) else {}
        pending.append(("nexus-doc %s %s * %s" % (ropts_bits(ro), case_map(text, *order), hex6(text)), ("nexus-doc", case, False),
                        "ERR" if got is None else [got[0] if got else [], []]))


def gen_taxa_only(rng):
    labels = gen_labels(rng, rng.randint(1, 6))
    case = {"op": "taxa-only", "schema": rng.choice(["nexus", "nexml"]), "labels": labels, "wopts": {}, "ropts": {}, "trees": []}
    if rng.random() < 0.7:
        case["ns_ops"] = gen_ns_ops(rng, labels)
    if case["schema"] == "nexus" and rng.random() < 0.25:
        case["wopts"] = {"preserve_spaces": True, "unquoted_underscores": True}
    return case


def _tok_texts(m):
    """token texts (hex) of a model `tokens` answer, comments and the EOF flag dropped"""
    return [t[2:] for t in m.split(" ") if t[:2] in ("P:", "Q:")]


def _tok_norm(m):
    """a model `tokens` answer without the final EOF flag (trailing white space is immaterial)"""
    parts = m.split(" ")
    return " ".join(parts[:-1] if parts and parts[-1].startswith("EOF") else parts)


def flush(ctx, pending):
    """first stage: one driver line per entry; second stage: texts written by the model and by the library are compared as TOKEN
    STREAMS of the model tokenizer (white-space layout is not part of the property), not byte for byte"""
    lines = [p[0] for p in pending if p[0] is not None]
    outs = iter(ctx.ask(lines))
    acc = []
    stage2 = []      # (op, case, pu, impl_text, model_text)
    for line, (op, case, extra), impl in pending:
        if line is None:
            if all(a is not None for a in acc):
                stage2.append(("write", case, 1, impl, "".join(acc)))
            acc = []
            continue
        m = next(outs)
        if op == "write":
            acc.append(None if m is None else ((unhex6(m.strip()) or "") + "\n" if m.strip() != "bad-op" else "<bad-op>"))
            continue
        if m is None:
            continue
        m = m.strip()
        if op in ("write-stmt", "taxlabels", "nexus-text", "nexus-doc-text"):
            stage2.append((op, case, extra, impl, "<bad-op>" if m == "bad-op" else (unhex6(m) or "")))
            continue
        ctx.compared()
        ctx.count("model-op:" + op)
        if op == "token-texts":
            if _tok_texts(m) != impl or not m.endswith(("EOF0", "EOF1")):
                ctx.disagree(op, case, " ".join(impl), m)
        elif op == "nexml-write":
            try:
                got = nexml_doc_tokens(nexml_doc_of_model(m))
            except (ValueError, IndexError, AssertionError):
                got = m
            if got != impl:
                ctx.disagree(op, case, impl[:400], got[:400])
        elif op in ("parse", "parse-nexus", "parse-text", "rt", "nexus", "nexus-doc", "nexml-read", "nexml-rt"):
            got = canon_model(m, extra, named=(op in ("nexus", "nexus-doc", "nexml-read", "nexml-rt")))
            if got != impl:
                ctx.disagree(op, case, json.dumps(impl)[:400], json.dumps(got)[:400] + " <- " + m[:200])
        else:
            if m != impl:
                ctx.disagree(op, case, impl, m)
    del pending[:]
    if stage2:
        lines2 = []
        for op, case, pu, impl_text, model_text in stage2:
            lines2.append("tokens %d %s" % (pu, hex6(impl_text)))
            lines2.append("tokens %d %s" % (pu, hex6(model_text)))
        outs2 = ctx.ask(lines2)
        for k, (op, case, pu, impl_text, model_text) in enumerate(stage2):
            a, b = outs2[2 * k], outs2[2 * k + 1]
            if a is None or b is None:
                continue
            ctx.compared()
            ctx.count("model-op:" + op)
            if _tok_norm(a.strip()) != _tok_norm(b.strip()):
                ctx.disagree(op, case, impl_text, model_text)


# ------------------------------------------------------------------ label-level and token-level correspondence
def run_label(ctx, dendropy, label, ps, uu, pu, pending, follow=":"):
    """escape (both protect classes) and the single-token round trip next(escape(label) + follow)"""
    from dendropy.dataio import nexusprocessing, newickwriter
    case = {"op": "label", "label": label, "ps": ps, "uu": uu, "pu": pu, "follow": follow}
    ctx.case(case_key(case) + [label, ps, uu, pu], True, kind="label")
    d = nexusprocessing.escape_nexus_token(label, preserve_spaces=ps, quote_underscores=not uu)
    pending.append(("escape %d %d d %s" % (ps, not uu, hex6(label)), ("escape-d", case, None), hex6(d)))
    w = newickwriter.NewickWriter(preserve_spaces=ps, unquoted_underscores=uu)
    nd = dendropy.Node(taxon=dendropy.Taxon(label=label))
    n = w._render_node_tag(nd)
    pending.append(("escape %d %d n %s" % (ps, not uu, hex6(label)), ("escape-n", case, None), hex6(n)))
    # NeXML attribute protection: the library's quoted value against the model's, the XML parser's reading of it against
    # the model's, and the oracle (clause d): the value read back is the label
    try:
        from dendropy.dataio import nexmlwriter
        from xml.etree import ElementTree as ET
        qa = nexmlwriter._protect_attr(label)
        pending.append(("attr-quote %s" % hex6(label), ("attr-quote", case, None), hex6(qa)))
        try:
            back = ET.fromstring("<a x=%s y='1'/>" % qa).get("x")
        except ET.ParseError:
            back = None
        pending.append(("attr-parse %s" % hex6(qa + " y='1'/>"), ("attr-parse", case, None),
                        "ERR" if back is None else "ok %s %s" % (hex6(back) if back else "=", hex6(" y='1'/>"))))
        if back != label:
            ctx.fail("nexml-attr", "label %r written by _protect_attr as %s is read back by the XML parser as %r" % (label, qa, back),
                     with_history(case))
    except ImportError:
        pass
    for esc, which in ((d, "default"), (n, "newick")):
        text = esc + follow + "x"
        toks = impl_tokens(dendropy, text, pu)
        pending.append(("tokens %d %s" % (pu, hex6(text)), ("tokens", case, None), toks))
        # oracle (clause a): the first token is the label again, for consistent option triples
        if (ps, uu, pu) in CONSISTENT and follow in ":,);":
            first = toks.split(" ")[0]
            if first[2:] != hex6(label) or first[:2] not in ("P:", "Q:"):
                ctx.fail("label-token", "label %r written as %r (%s protect class, preserve_spaces=%s unquoted_underscores=%s) is read back "
                         "(preserve_underscores=%s) as tokens %s" % (label, esc, which, ps, uu, pu, show_tokens(toks)), with_history(case))


def show_tokens(toks):
    out = []
    for t in toks.split(" "):
        out.append(t[:2] + repr(unhex6(t[2:])) if t[1:2] == ":" else t)
    return " ".join(out[:8])


def impl_tokens(dendropy, text, pu):
    from dendropy.dataio.nexusprocessing import NexusTokenizer
    from dendropy.dataio.tokenizer import Tokenizer
    tk = NexusTokenizer(io.StringIO(text), preserve_unquoted_underscores=pu)
    out = []
    last_eof = None
    try:
        with time_limit(10):
            while True:
                t = tk.next_token()
                cm = tk.pull_captured_comments() or []
                if t is None:
                    break
                out.extend("C:" + hex6(c) for c in cm)
                out.append(("Q:" if tk.is_token_quoted else "P:") + hex6(t))
                last_eof = tk.is_eof()
                if len(out) > 5000:
                    out.append("RUNAWAY")
                    break
        at_eof = (text == "") if last_eof is None else last_eof
        out.append("EOF1" if at_eof else "EOF0")
    except Tokenizer.TokenizerError:
        out.append("ERR")
    except RecursionError:
        out.append("RecursionError")
    return " ".join(out)


TOK_ALPHA = list("ab_ '(),;:=[]\\\"\t\n{}x1.&RU-")


def run_tokens(ctx, dendropy, text, pu, pending):
    case = {"op": "tokens", "text": text, "pu": pu}
    ctx.case(case_key(case) + [pu], True, kind="tokens")
    pending.append(("tokens %d %s" % (pu, hex6(text)), ("tokens", case, None), impl_tokens(dendropy, text, pu)))


STMT_ALPHA = ["(", ")", ",", ":", ";", "A", "b", "C", "a", "1.5", "2", "'x y'", "'('", "','", "';'", "[&R]", "[&U]", "[&W 2]", "[c]", " ",
              "\n", "_", "'", "a_b", u"É", u"é", u"Ж", u"ж", "a", "A"]


def run_parse_text(ctx, dendropy, text, ropts, pending):
    """arbitrary (mostly malformed) Newick text: model vs implementation only (reader robustness is C20's property)"""
    case = {"op": "parse-text", "text": text, "ropts": ropts}
    ctx.case(case_key(case), True, kind="parse-text")
    stw = bool(ropts.get("store_tree_weights"))
    try:
        with time_limit(10):
            kw = dict(ropts)
            if stw:
                kw["default_tree_weight"] = DEFAULT_WEIGHT
            tl = dendropy.TreeList.get(data=text, schema="newick", **kw)
        impl = canon_impl(tl, stw)
    except Timeout:
        impl = "Timeout"
    except RecursionError:
        impl = "RecursionError"
    except Exception as e:
        # a refusal is a parse error; any other exception class is shown as such (the model only ever refuses)
        impl = "ERR" if is_refusal(dendropy, e) else "Internal(%s)" % type(e).__name__
    pending.append((parse_line(ropts, text), ("parse-text", case, stw), impl))


def is_refusal(dendropy, e):
    from dendropy.utility import error
    return isinstance(e, error.DataParseError)


def gen_ropts(rng):
    r = {}
    if rng.random() < 0.3:
        r["preserve_underscores"] = True
    if rng.random() < 0.5:
        r["rooting"] = rng.choice(list(ROOTING))
    if rng.random() < 0.3:
        r["suppress_internal_node_taxa"] = False
    if rng.random() < 0.2:
        r["suppress_leaf_node_taxa"] = True
    if rng.random() < 0.3:
        r["store_tree_weights"] = True
    return r


def gen_text(rng):
    r = rng.random()
    if r < 0.5:
        return "".join(rng.choice(STMT_ALPHA) for _ in range(rng.randint(1, 14)))
    # a valid statement with one mutation
    base = rng.choice(["(A,B);", "((A,B)x:1,C:2)r;", "[&R] (A:1,(B:2,C:3):4);\n(a,b);", "(,A);", "(A,);", "(A,,B);", "();", "(,);", "A;",
                       "(A,(B,));", "((,),(,,));", "('a b',c_d)'in t';", "[&U][&W 1/2] (A,B);", "(A,B)[&R];", ";;(A,B);;;(C,D)", "(A,B); ",
                       "(Abc,dEf);(aBC,DEF)x;", u"(\u00c9a,\u0416b);(\u00e9A,\u0436B);", "(Abc,aBC);", "('a b',A_B);(A_b,c);"])
    i = rng.randint(0, len(base))
    return base[:i] + rng.choice(STMT_ALPHA + [""]) + base[i + rng.choice([0, 0, 1]):]


# ------------------------------------------------------------------ run / replay / search
def run(ctx):
    import time
    dendropy = __import__("dendropy")
    rng = ctx.rng
    # own clock: the budget counts from the start of the exploration (the Lean build before it may have been cold)
    t0 = time.time()
    budget = ctx.pick(28, 600)

    def spent():
        return time.time() - t0

    def out_of_time():
        return spent() >= budget
    pending = []

    def maybe_flush(limit=400):
        if len(pending) >= limit:
            flush(ctx, pending)
    # fixed corner cases first
    for case in corner_cases():
        (run_taxa_only if case.get("op") == "taxa-only" else run_roundtrip)(ctx, dendropy, case, pending)
    flush(ctx, pending)
    # round trips PRECEDED by other activity in this process (every action of the menu, then a tree full of '-', 'e-', '+', '_', quotes)
    for case in history_cases():
        run_roundtrip(ctx, dendropy, case, pending)
    flush(ctx, pending)
    # label level
    for _ in range(ctx.pick(500, 6000)):
        if spent() >= budget * 0.15:
            break
        ps, uu, pu = rng.choice(CONSISTENT) if rng.random() < 0.8 else tuple(rng.random() < 0.5 for _ in range(3))
        lab = gen_label(rng)
        if lab:
            run_label(ctx, dendropy, lab, ps, uu, pu, pending, follow=rng.choice(":,);"))
        maybe_flush()
    # token streams and malformed statements
    for _ in range(ctx.pick(600, 8000)):
        if spent() >= budget * 0.3:
            break
        run_tokens(ctx, dendropy, "".join(rng.choice(TOK_ALPHA) for _ in range(rng.randint(0, 14))), rng.random() < 0.5, pending)
        run_parse_text(ctx, dendropy, gen_text(rng), gen_ropts(rng), pending)
        maybe_flush()
    flush(ctx, pending)
    # round trips
    n = 0
    max_leaves = ctx.pick(8, 30)
    t_end = budget * ctx.pick(1.0, 0.75)
    while spent() < t_end and n < ctx.pick(25000, 400000):
        case = gen_case(rng, max_leaves=max_leaves if rng.random() < 0.8 else 3)
        run_roundtrip(ctx, dendropy, case, pending)
        if n % 12 == 0:
            run_taxa_only(ctx, dendropy, gen_taxa_only(rng), pending)
        n += 1
        maybe_flush()
    flush(ctx, pending)
    if ctx.tier == "thorough":
        exhaustive(ctx, dendropy, pending)
        flush(ctx, pending)


def simple_case(schema, labels, spec=None, rooted=True, wopts=None, ropts=None):
    if spec is None:
        spec = [None, None, None, [[l, None, 1.5, []] for l in labels]]
    return {"op": "roundtrip", "schema": schema, "labels": labels, "trees": [{"spec": spec, "rooted": rooted, "weight": None}],
            "wopts": wopts or {}, "ropts": ropts or {}}


def corner_cases():
    out = []
    for schema in SCHEMAS:
        out.append(simple_case(schema, ["A"], spec=["A", None, None, []]))                      # single node
        out.append(simple_case(schema, ["A"], spec=["A", None, 2.5, []], rooted=None))
        out.append(simple_case(schema, ["A", "B"]))
        out.append(simple_case(schema, ["A"], spec=[None, None, None, [["A", None, None, []]]]))    # unary root
        out.append(simple_case(schema, ["A"], spec=[None, None, None, [[None, "x", 1, [["A", None, None, []]]]]]))
        out.append(simple_case(schema, ["A", "B"], spec=[None, None, None, [["A", None, None, []], [None, None, None, []]]]))   # (A,)
        out.append(simple_case(schema, ["A", "B"], spec=[None, None, None, [[None, None, None, []], ["A", None, None, []]]]))   # (,A)
        out.append(simple_case(schema, ["A", "B"], spec=[None, None, None, [["A", None, None, []], [None, None, None, []], ["B", None, None, []]]]))
        out.append(simple_case(schema, ["A"], spec=[None, None, None, [[None, None, None, []], [None, None, None, []]]]))       # (,)
        out.append(simple_case(schema, ["A"], spec=[None, "r", None, [[None, None, None, []]]]))                                # ()r
        for into in ("fresh", "source"):
            for labs in ([], ["A"]):
                c = simple_case(schema, labs, spec=[None, None, None, [[None, None, None, [[None, None, None, []], [None, None, None, []]]],
                                                                        [None, None, None, []]]])          # ((,),);
                c["into"] = into
                out.append(c)
        c = simple_case(schema, ["A", "B"], spec=[None, None, None, [["A", None, 1.0, [[None, None, None, []], [None, None, None, []]]],
                                                                      [None, None, None, []]]],
                        ropts={} if schema == "nexml" else {"suppress_internal_node_taxa": False})   # the only taxon sits on an internal node
        out.append(c)
        c = simple_case(schema, ["A", "B"])
        c["trees"].append({"spec": [None, None, None, [[None, None, None, []], [None, None, 2.0, []]]], "rooted": True, "weight": None})
        out.append(c)                                                                                     # a list: one tree with taxa, one without
        out.append(simple_case(schema, ["a=b", "a\\b"]))
        out.append(simple_case(schema, ["2", "1", "3"], spec=[None, None, None, [["3", None, 1, []], ["1", None, 2, []]]]))
        out.append(simple_case(schema, ["a_b", "c d", "e_f g"]))
        out.append(simple_case(schema, ["a_b", "c d", "e_f g"], wopts={"preserve_spaces": True, "unquoted_underscores": True} if schema != "nexml" else {},
                               ropts={"preserve_underscores": True} if schema != "nexml" else {}))
        out.append(simple_case(schema, ["A", "B"], rooted=False))
        out.append(simple_case(schema, ["A", "B"], rooted=None))
        out.append(simple_case(schema, ["(", ")", ",", ":", ";", "'", "[", "]", "=", "\\", "\""]))
        out.append(simple_case(schema, ["x<y", "a&b", "q\"r", "t\tu", u"é", "p>q"]))
        # namespaces whose member order differs from the accession order (one unused member `d`, digit-only labels too)
        for ops in ([["sort"]], [["rsort"]], [["reverse"]], [["readd", "b"]], [["readd", "d"], ["reverse"]], [["sort"], ["readd", "a"]]):
            for into in ("fresh", "source"):
                for extra in ({}, {"translate_tree_taxa": True}, {"suppress_taxa_blocks": True},
                              {"suppress_taxa_blocks": True, "translate_tree_taxa": True}) if schema == "nexus" else ({},):
                    for labs in (["b", "c", "a", "d"], ["2", "10", "1", "d"]):
                        if extra.get("suppress_taxa_blocks") and into == "fresh" and labs[0].isdigit():
                            continue      # digit-only labels need a namespace to be read into when no TAXA block is written
                        c = simple_case(schema, labs, spec=[None, None, None, [[l, None, 1.5, []] for l in labs[:3]]], wopts=dict(extra))
                        c["ns_ops"] = ops
                        c["into"] = into
                        out.append(c)
    for schema in ("nexus", "nexml"):
        for ops in ([], [["sort"]], [["rsort"]], [["reverse"]], [["readd", "b"]], [["readd", "b"], ["sort"]]):
            out.append({"op": "taxa-only", "schema": schema, "labels": ["b", "c d", "a_1", "2"], "ns_ops": ops, "wopts": {}, "ropts": {}, "trees": []})
    return out


def exhaustive(ctx, dendropy, pending):
    rng = ctx.rng
    count = 0
    # every label-domain character alone / first / middle / last, each schema, default options + each consistent triple at label level
    for c in sorted(set(PRINTABLE) | set(live_chars()[1])):
        forms = [c, c + "a", "a" + c + "b", "a" + c]
        forms = [f for f in forms if clean_label(f) == f and f]
        for f in forms:
            for ps, uu, pu in CONSISTENT:
                run_label(ctx, dendropy, f, ps, uu, pu, pending, follow=rng.choice(":,);"))
            for schema in SCHEMAS:
                run_roundtrip(ctx, dendropy, simple_case(schema, [f, "zz"], rooted=rng.choice([True, False])), pending)
                count += 1
        if len(pending) > 1500:
            flush(ctx, pending)
    # all ordered pairs of special characters, as a label and embedded
    for a, b in itertools.product(TABLE_CHARS, repeat=2):
        for f in (a + b, "x" + a + b + "y"):
            if clean_label(f) != f:
                continue
            ps, uu, pu = rng.choice(CONSISTENT)
            run_label(ctx, dendropy, f, ps, uu, pu, pending, follow=rng.choice(":,);"))
            schema = rng.choice(SCHEMAS)
            wo = {}
            ro = {}
            if schema != "nexml":
                if ps:
                    wo["preserve_spaces"] = True
                if uu:
                    wo["unquoted_underscores"] = True
                if pu:
                    ro["preserve_underscores"] = True
            run_roundtrip(ctx, dendropy, simple_case(schema, [f, "zz"], wopts=wo, ropts=ro), pending)
            count += 1
        if len(pending) > 1500:
            flush(ctx, pending)
    # every shape <= 4 leaves x every subset of leaves made anonymous x internal labels on/off, each schema
    for n in range(1, 5):
        for shape in tu.all_shapes(n):
            for mask in range(1 << n):
                for schema in SCHEMAS:
                    labels = ["t%d" % i for i in range(n)]
                    k = [0]

                    def go(sh):
                        if not sh:
                            i = k[0]
                            k[0] += 1
                            return [None if (mask >> i) & 1 else labels[i], None, rng.choice([None, 1.5]), []]
                        return [None, rng.choice([None, "in"]), rng.choice([None, 0.25]), [go(c) for c in sh]]
                    spec = go(shape)
                    if not spec[3] and spec[0] is None and spec[2] is None:
                        continue      # a lone anonymous node without length has no Newick text (`;`): outside the domain, see report
                    run_roundtrip(ctx, dendropy, simple_case(schema, labels, spec=spec, rooted=rng.choice([True, False, None])), pending)
                    count += 1
            if len(pending) > 1500:
                flush(ctx, pending)
    # every sequence of <= 2 namespace-order operations over a 4-member namespace (one member on no node), each schema, TRANSLATE on / off
    labs = ["b", "10", "a", "2"]
    single_ops = [["sort"], ["rsort"], ["reverse"]] + [["readd", l] for l in labs]
    seqs = [[o] for o in single_ops] + [[o1, o2] for o1 in single_ops for o2 in single_ops]
    for ops in seqs:
        for schema in SCHEMAS:
            for extra in (({}, {"translate_tree_taxa": True}) if schema == "nexus" else ({},)):
                for into in ("fresh", "source"):
                    c = simple_case(schema, labs, spec=[None, None, None, [[l, None, 1.5, []] for l in labs[:3]]], wopts=dict(extra),
                                    rooted=rng.choice([True, False]))
                    c["ns_ops"] = ops
                    c["into"] = into
                    run_roundtrip(ctx, dendropy, c, pending)
                    count += 1
        for schema in ("nexus", "nexml"):
            run_taxa_only(ctx, dendropy, {"op": "taxa-only", "schema": schema, "labels": labs, "ns_ops": ops, "wopts": {}, "ropts": {}, "trees": []},
                          pending)
        if len(pending) > 1500:
            flush(ctx, pending)
    ctx.extra["exhaustive_small_scope"] = ("%d enumerated round trips: every label-domain character (%d) alone/first/middle/last x 3 schemas, "
                                           "all ordered pairs of %d special characters, all shapes <= 4 leaves x every anonymous-leaf subset x 3 schemas, "
                                           "every sequence of <= 2 namespace-order operations (sort, reverse-sort, reverse, remove+add of each member) on a "
                                           "4-member namespace x 3 schemas x TRANSLATE on/off x fresh/source namespace"
                                           % (count, len(PRINTABLE), len(TABLE_CHARS)))


def replay(ctx, rec):
    dendropy = __import__("dendropy")
    c = rec["replay"]
    pending = []
    op = c.get("op")
    if op != "roundtrip" and c.get("history"):
        run_prelude(ctx, dendropy, c.get("history"))     # what the process had done before the failing case
    if op == "roundtrip":
        run_roundtrip(ctx, dendropy, c, pending)
    elif op == "taxa-only":
        run_taxa_only(ctx, dendropy, c, pending)
    elif op == "label":
        run_label(ctx, dendropy, c["label"], c["ps"], c["uu"], c["pu"], pending, follow=c.get("follow", ":"))
    elif op == "tokens":
        run_tokens(ctx, dendropy, c["text"], c["pu"], pending)
    elif op == "parse-text":
        run_parse_text(ctx, dendropy, c["text"], c["ropts"], pending)
    flush(ctx, pending)


def search(ctx, broken):
    """obligations broke or the model disagrees: take from the LIVE library every character that is special for the reader
    (tokenizer sets) or for the writer (protect classes), plus the neighbours and the Unicode blank sample, and round-trip
    labels carrying each one in first / interior / last position (where the domain allows) through every schema"""
    dendropy = __import__("dendropy")
    special, alpha = live_chars()
    pending = []
    # histories first: state that leaks from one read into the next shows only when something was read before
    for case in history_cases():
        run_roundtrip(ctx, dendropy, case, pending)
    flush(ctx, pending)
    for c in sorted(set(special) | set(alpha)):
        for f in ("a" + c + "b", c + "a", "a" + c, c, "Pan" + c + "paniscus L."):
            if clean_label(f) != f or not f:
                continue
            for ps, uu, pu in CONSISTENT:
                run_label(ctx, dendropy, f, ps, uu, pu, pending)
            for schema in SCHEMAS:
                run_roundtrip(ctx, dendropy, simple_case(schema, [f, "zz"]), pending)
        if len(pending) > 1500:
            flush(ctx, pending)
    flush(ctx, pending)
