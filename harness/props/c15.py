"""C15 - every traversal visits each node or edge exactly once in its defining order."""
from fractions import Fraction

import common
import treeutil as tu
from common import time_limit

ID = "C15"
GEN_DEPENDS = []
RULE = ("random rose trees (1-12 leaves quick, up to 40 thorough; unary nodes, polytomies, fixed families) x entry point "
        "(29 kinds, incl. two live generators (pre/level-order) stepped next() by next() in a random interleaving: every *_iter / *_node_iter / *_edge_iter of Node and Tree, ancestor_iter, Tree.nodes/leaf_nodes/"
        "internal_nodes/edges/leaf_edges/internal_edges, len, apply, iter()) x start node (Node methods on any node; Tree "
        "methods on the tree and on a Tree made of a spliced-out inner node) x filter (none, or a random set of accepted "
        "ids answered with bools, with truthy/falsy non-bool values, or by a callable that is itself falsy) x node class "
        "(Node, or subclasses whose instances and edges are falsy through __bool__ or __len__); thorough adds every shape "
        "<= 6 leaves x every start; non-trivial = start is not the seed, or a filter is given, or a falsy class is used, "
        "or the kind is apply/in-order/age-order/ancestors; a third of the cases run one or two other traversals (drained or "
        "abandoned part-way) on the same objects first")
MODELLED_NOT_VERIFIED = [
    "C15: the Lean machines are hand-written from Node.preorder_iter/postorder_iter/levelorder_iter/leaf_iter/inorder_iter/"
    "ageorder_iter/ancestor_iter/apply and Tree.preorder_edge_iter/postorder_edge_iter and the wrappers; tied to the code "
    "by the per-case comparison of visit sequences",
    "C15: Node.apply and ancestor_iter climb parent pointers; the pointer-level loops over the parent array (applyPtrTrace, "
    "ancPtrIter) are proved equal to the tree-level models on every protocol tree (apply_pointer_refinement, "
    "ancestor_pointer_refinement); that the parent array is what the Python objects hold is the per-case comparison",
    "C15: generator suspension: levelorder_iter is also modelled one next() at a time over a mutable heap (lvNext) with "
    "frame/independence theorems; the other generators are modelled as complete runs only, their abandoned prefixes and "
    "interleavings are judged by the oracle on the Python side; a tree mutated by the CALLER during iteration is outside "
    "the statement; a filter is a set of "
    "accepted node ids - what the callable returns for them (bool or any truthy/falsy object) is varied on the Python side only",
    "C15: age order: the model sorts stably (as list.sort does); the statement asks only for monotone age, so model and "
    "implementation are compared up to the order inside groups of equal age",
]
EXPLANATION = ("Last theorem round: apply_pointer_refinement(+_build) / apply_zipper_refinement (the literal loop of Node.apply over the "
               "parent array = zipper machine = closer-list machine = brackets, on every protocol tree; fuel adequacy of buildTree: "
               "protocol_faithful), generator_frame / generators_independent / levelorder_generator_spec / "
               "levelorder_generators_interleaved (levelorder_iter one next() at a time over a mutable heap: a step changes no child "
               "list and no other generator's state; any interleaving of two generators gives each the prefix of its own level "
               "order). Final round: visits_distinct (+ visits_distinct_of_ids, build_subtree_ids_distinct): the ids every node/edge iterator "
               "prints are pairwise distinct on every protocol subtree ('exactly once' about the printed ids, including inRun and "
               "ageIter); inorder_run_each_node_once (the in-order statement on the function the driver runs); start_has_parent_iff "
               "(the driver's hasParent = the ancestor chain is non-empty; the det flag is protocol input); "
               "ancestor_pointer_refinement_build with a kernel-checked instance. internal_spec, ageorder_sorted_stable and "
               "inorder_each_node_once are kept as obligations but are definitional / not about driver-run functions (their "
               "docstrings say so). Extension round: protocol_ids_distinct / protocol_subtree_ids_distinct (every tree parseTree returns has distinct ids, "
               "for any parent array), internal_nodes_driver_spec / tree_internal_lists_driver_spec (no id hypothesis left), "
               "ancestor_pointer_refinement (ancIter = the pointer climb over the parent array, driver kind ancptr), "
               "levelorder_generations / levelorder_depth_monotone (explicit non-decreasing depths), apply_dyck (labelled Dyck word, "
               "opens in pre-order, closes in post-order), apply_zipper_refinement_partial (zipper climb = closer lists; zipper "
               "<-> parent array not proved). Theorems, all about the definitions the driver runs: each machine = its defining order for every tree, start "
               "and filter (preorder_spec, postorder_spec, levelorder_spec, leaf_spec, inorder_spec, filtered_spec, "
               "edge_iter_spec + edge_order_spec, wrapped_edge_iter_spec for the level/leaf/in-order edge iterators, "
               "each_node_once, len_spec, apply_spec, tree_lists_spec, tree_internal_lists_spec); internal_nodes_spec: "
               "exactly the non-leaves, the start dropped iff exclusion is requested and it has no parent; ancestor_spec: "
               "the filtered parent chain up to the root; ageorder_spec / ageorder_driver_spec: for the real comparator "
               "Frac.lt (through Theory/FracRat.lt_iff) and the ages the driver parses, both directions, with/without "
               "leaves, any filter: monotone in age, each passing node once, stable. internal_spec and "
               "ageorder_sorted_stable (Int key) are kept but superseded.")

AGE = ["ageasc", "agedesc", "ageascint", "agedescint"]
BOTH = ["pre", "post", "level", "leaf", "in", "preint", "postint", "apply"] + AGE          # Node and Tree entry points
TREE_ONLY = ["preedge", "postedge", "preintedge", "postintedge", "leveledge", "leafedge", "inedge", "len",
             "nodes", "leafnodes", "internalnodes", "edges", "leafedges", "internaledges"]
NODE_ONLY = ["anc", "levelsched", "gensched"]
KINDS = BOTH + TREE_ONLY + NODE_ONLY
EDGE_KINDS = {"preedge", "postedge", "preintedge", "postintedge", "leveledge", "leafedge", "inedge",
              "edges", "leafedges", "internaledges"}
UNFILTERED = {"apply", "len", "leafnodes", "internalnodes", "leafedges", "internaledges", "levelsched", "gensched"}   # entry points without filter_fn
USES_EXCL = {"preint", "postint", "preintedge", "postintedge", "internalnodes", "internaledges"}
NODECLS = ["plain", "nobool", "nolen"]
FSTYLES = ["bool", "mixed", "falsyfn"]

TRUTHY = [True, 1, "x", [0], (None,), 2.5, {"a": 1}, -1]
FALSY = [False, 0, None, "", [], (), 0.0, {}]


# ---------------------------------------------------------------- building the objects of a case
_classes = {}


def node_class(dendropy, name):
    """Node, or a subclass whose instances (and whose edges) are falsy - a node class with __len__ or __bool__ is
    perfectly legal; the iterators must not confuse such a node with 'no node' or 'rejected'"""
    key = (id(dendropy), name)
    if key in _classes:
        return _classes[key]
    Edge = dendropy.Edge
    if name == "plain":
        cls = dendropy.Node
    elif name == "nobool":
        class FalsyEdge(Edge):
            def __bool__(self):
                return False

        class FalsyNode(dendropy.Node):
            @classmethod
            def edge_factory(cls, **kwargs):
                return FalsyEdge(**kwargs)

            def __bool__(self):
                return False
        cls = FalsyNode
    elif name == "nolen":
        class EmptyEdge(Edge):
            def __len__(self):
                return 0

        class EmptyNode(dendropy.Node):
            @classmethod
            def edge_factory(cls, **kwargs):
                return EmptyEdge(**kwargs)

            def __len__(self):
                return 0
        cls = EmptyNode
    else:
        raise ValueError(name)
    _classes[key] = cls
    return cls


class World(object):
    """the objects of one case: nodes numbered as in the protocol tokens, their edges, the tree"""

    def __init__(self, dendropy, toks, nodecls):
        n = int(toks[0])
        par = [int(x) for x in toks[1:1 + n]]
        cls = node_class(dendropy, nodecls)
        self.nodes = [cls() for _ in range(n)]
        root = None
        for i in range(n):
            if par[i] < 0:
                root = self.nodes[i]
            else:
                self.nodes[par[i]].add_child(self.nodes[i])
        self.tree = dendropy.Tree(seed_node=root)
        self.nmap = {id(nd): i for i, nd in enumerate(self.nodes)}
        self.emap = {id(nd.edge): i for i, nd in enumerate(self.nodes)}
        self.n = n

    def nid(self, x):
        return self.nmap.get(id(x), "?")

    def eid(self, e):
        return self.emap.get(id(e), "?")


class FalsyFn(object):
    """a filter predicate that is a falsy object itself (a callable with __bool__): it is still 'a filter'"""

    def __init__(self, fn):
        self.fn = fn

    def __call__(self, x):
        return self.fn(x)

    def __bool__(self):
        return False


def make_filter(acc, fstyle, salt, key):
    """the filter callable for a set of accepted ids. `key(obj)` -> id. None when no filter"""
    if acc is None:
        return None
    if fstyle == "mixed":
        def f(x):
            i = key(x)
            table = TRUTHY if i in acc else FALSY
            return table[(i + salt) % len(table)]
        return f
    g = lambda x: key(x) in acc
    return FalsyFn(g) if fstyle == "falsyfn" else g


# ---------------------------------------------------------------- independent oracle: the defining orders, by plain recursion on _child_nodes
def o_pre(nd):
    out = [nd]
    for c in nd._child_nodes:
        out.extend(o_pre(c))
    return out


def o_post(nd):
    out = []
    for c in nd._child_nodes:
        out.extend(o_post(c))
    out.append(nd)
    return out


def o_level(nd):
    out, level = [], [nd]
    while level:
        out.extend(level)
        level = [c for x in level for c in x._child_nodes]
    return out


class NotBinary(Exception):
    pass


def o_in(nd):
    k = len(nd._child_nodes)
    if k == 0:
        return [nd]
    if k != 2:
        raise NotBinary()
    return o_in(nd._child_nodes[0]) + [nd] + o_in(nd._child_nodes[1])


def o_brackets(nd, w):
    if not nd._child_nodes:
        return ["l%d" % w.nid(nd)]
    out = ["b%d" % w.nid(nd)]
    for c in nd._child_nodes:
        out.extend(o_brackets(c, w))
    out.append("a%d" % w.nid(nd))
    return out


def o_path(root, target):
    """root-to-target path found from the top through _child_nodes (never through parent pointers)"""
    if root is target:
        return [root]
    for c in root._child_nodes:
        p = o_path(c, target)
        if p is not None:
            return [root] + p
    return None


def oracle(c, w, seed):
    """what the statement prescribes for case c; `seed` is the node the traversal starts from.
    returns a list of ids / events, 'undefined' (in-order on a non-binary subtree), or for age kinds the list of ids that
    must appear (each once; their order is judged by monotone_age)"""
    kind, excl = c["kind"], c["excl"]
    acc = None if (c["acc"] is None or kind in UNFILTERED) else set(c["acc"])
    keep = (lambda x: True) if acc is None else (lambda x: w.nid(x) in acc)
    is_leaf = lambda x: len(x._child_nodes) == 0
    # "has a parent" decided from the child lists alone (is x listed as a child of any node of this case?), never from the
    # _parent_node pointer the code itself consults - a stale pointer after splicing must not be shared by code and oracle
    listed = {id(ch) for nd in w.nodes for ch in nd._child_nodes}
    internal = lambda x: (not is_leaf(x)) and not (excl and id(x) not in listed)
    I = lambda l: [w.nid(x) for x in l]
    if kind in ("pre", "preedge", "nodes", "edges"):
        return I(x for x in o_pre(seed) if keep(x))
    if kind in ("post", "postedge"):
        return I(x for x in o_post(seed) if keep(x))
    if kind in ("level", "leveledge"):
        return I(x for x in o_level(seed) if keep(x))
    if kind in ("leaf", "leafedge", "leafnodes", "leafedges"):
        return I(x for x in o_pre(seed) if is_leaf(x) and keep(x))
    if kind in ("in", "inedge"):
        try:
            return I(x for x in o_in(seed) if keep(x))
        except NotBinary:
            return "undefined"
    if kind in ("preint", "preintedge", "internalnodes", "internaledges"):
        return I(x for x in o_pre(seed) if internal(x) and keep(x))
    if kind in ("postint", "postintedge"):
        return I(x for x in o_post(seed) if internal(x) and keep(x))
    if kind == "apply":
        return o_brackets(seed, w)
    if kind == "len":
        return [len([x for x in o_pre(seed) if is_leaf(x)])]
    if kind in ("levelsched", "gensched"):
        # two live generators (level-order; gensched: pre-order 'p' or level-order 'l' each) stepped in the order of the schedule: each must hand out its own defining order,
        # one node per next(), then StopIteration, whatever the other one does in between
        gk = c["gk"] if kind == "gensched" else "ll"
        order = {"p": o_pre, "l": o_level}
        seqs = {"1": I(order[gk[0]](seed)), "0": I(order[gk[1]](w.nodes[c["start2"]]))}
        pos = {"1": 0, "0": 0}
        out = []
        for ch in c["sched"]:
            out.append("%s:%s" % (ch, seqs[ch][pos[ch]] if pos[ch] < len(seqs[ch]) else "-"))
            pos[ch] += 1
        return out
    if kind == "anc":
        path = o_path(w.tree.seed_node, seed)
        up = list(reversed(path[:-1]))
        return I(([seed] if (c["incl"] and keep(seed)) else []) + [x for x in up if keep(x)])
    if kind in AGE:
        return I(x for x in o_pre(seed) if (not kind.endswith("int") or not is_leaf(x)) and keep(x))
    raise ValueError(kind)


def monotone_age(seq, ages, desc):
    vals = [ages[i] for i in seq if isinstance(i, int)]
    return all((a >= b) if desc else (a <= b) for a, b in zip(vals, vals[1:]))


def age_canon(seq, ages):
    """an age-ordered answer up to the order among equal ages: runs of equal age, ids sorted inside a run"""
    out, run, cur = [], [], None
    for i in seq:
        a = ages[i] if isinstance(i, int) and 0 <= i < len(ages) else "?"
        if run and a != cur:
            out.append("%s:%s" % (cur, ",".join(str(x) for x in sorted(run, key=str))))
            run = []
        cur = a
        run.append(i)
    if run:
        out.append("%s:%s" % (cur, ",".join(str(x) for x in sorted(run, key=str))))
    return " ".join(out)


# ---------------------------------------------------------------- the implementation
def drain(it, cap):
    out = []
    for x in it:
        out.append(x)
        if len(out) > cap:
            break
    return out


def impl(c, w, seed, obj, cap=None):
    """call the entry point; obj is the Tree (via tree/subtree) or None (via node). returns list of ids/events.
    cap: abandon the generator after cap+1 items (default: far more than the tree has nodes)"""
    kind, excl = c["kind"], c["excl"]
    acc = None if c["acc"] is None else set(c["acc"])
    nf = make_filter(acc, c["fstyle"], c["fsalt"], w.nid)
    ef = make_filter(acc, c["fstyle"], c["fsalt"], w.eid)
    cap = 3 * w.n + 8 if cap is None else cap
    N = lambda it: [w.nid(x) for x in drain(it, cap)]
    E = lambda it: [w.eid(x) for x in drain(it, cap)]
    t = obj
    if kind == "pre":
        if c["alt"] and acc is None:
            return N(iter(t) if t is not None else iter(seed))
        return N(t.preorder_node_iter(nf) if t is not None else seed.preorder_iter(nf))
    if kind == "post":
        return N(t.postorder_node_iter(nf) if t is not None else seed.postorder_iter(nf))
    if kind == "level":
        if c["alt"]:   # deprecated aliases
            return N(t.level_order_node_iter(nf) if t is not None else seed.level_order_iter(nf))
        return N(t.levelorder_node_iter(nf) if t is not None else seed.levelorder_iter(nf))
    if kind == "leaf":
        if c["alt"] and acc is None and t is None:
            return N(seed.leaf_nodes())
        if c["alt"] and t is not None:
            return N(t.leaf_iter(nf))   # deprecated alias
        return N(t.leaf_node_iter(nf) if t is not None else seed.leaf_iter(nf))
    if kind == "in":
        return N(t.inorder_node_iter(nf) if t is not None else seed.inorder_iter(nf))
    if kind == "preint":
        if c["alt"]:   # keyword spelling
            return N(t.preorder_internal_node_iter(filter_fn=nf, exclude_seed_node=excl) if t is not None
                     else seed.preorder_internal_node_iter(filter_fn=nf, exclude_seed_node=excl))
        return N(t.preorder_internal_node_iter(nf, excl) if t is not None else seed.preorder_internal_node_iter(nf, excl))
    if kind == "postint":
        return N(t.postorder_internal_node_iter(nf, excl) if t is not None else seed.postorder_internal_node_iter(nf, excl))
    if kind == "preedge":
        return E(t.preorder_edge_iter(ef))
    if kind == "postedge":
        return E(t.postorder_edge_iter(ef))
    if kind == "preintedge":
        return E(t.preorder_internal_edge_iter(ef, excl))
    if kind == "postintedge":
        return E(t.postorder_internal_edge_iter(ef, excl))
    if kind == "leveledge":
        return E(t.level_order_edge_iter(ef) if c["alt"] else t.levelorder_edge_iter(ef))
    if kind == "leafedge":
        return E(t.leaf_edge_iter(ef))
    if kind == "inedge":
        return E(t.inorder_edge_iter(ef))
    if kind == "nodes":
        return N(t.nodes(nf) if nf is not None else t.nodes())
    if kind == "leafnodes":
        return N(t.leaf_nodes())
    if kind == "internalnodes":
        return N(t.internal_nodes(excl))
    if kind == "edges":
        return E(t.edges(ef) if ef is not None else t.edges())
    if kind == "leafedges":
        return E(t.leaf_edges())
    if kind == "internaledges":
        return E(t.internal_edges(excl))
    if kind == "apply":
        ev = []
        (t if t is not None else seed).apply(before_fn=lambda x: ev.append("b%s" % w.nid(x)),
                                             after_fn=lambda x: ev.append("a%s" % w.nid(x)),
                                             leaf_fn=lambda x: ev.append("l%s" % w.nid(x)))
        return ev
    if kind == "len":
        return [len(t)]
    if kind in ("levelsched", "gensched"):
        gk = c["gk"] if kind == "gensched" else "ll"
        mk = {"p": lambda nd: nd.preorder_iter(), "l": lambda nd: nd.levelorder_iter()}
        gens = {"1": mk[gk[0]](seed), "0": mk[gk[1]](w.nodes[c["start2"]])}
        out = []
        for ch in c["sched"]:
            try:
                out.append("%s:%s" % (ch, w.nid(next(gens[ch]))))
            except StopIteration:
                out.append("%s:-" % ch)
        return out
    if kind == "anc":
        return N(seed.ancestor_iter(nf, c["incl"]) if not c["alt"] else seed.ancestor_iter(filter_fn=nf, inclusive=c["incl"]))
    if kind in AGE:
        ages = [Fraction(a) for a in c["ages"]]
        for i, nd in enumerate(w.nodes):
            nd.age = float(ages[i])
        desc = "desc" in kind
        incl = not kind.endswith("int")
        if c["alt"]:   # deprecated aliases
            return N(t.age_order_node_iter(include_leaves=incl, filter_fn=nf, descending=desc) if t is not None
                     else seed.age_order_iter(include_leaves=incl, filter_fn=nf, descending=desc))
        return N(t.ageorder_node_iter(include_leaves=incl, filter_fn=nf, descending=desc) if t is not None
                 else seed.ageorder_iter(filter_fn=nf, include_leaves=incl, descending=desc))
    raise ValueError(kind)


def deliberate(e):
    """a refusal = an exception library code raises on purpose: the innermost frame is library code executing a `raise`
    statement.  A TypeError/AttributeError/IndexError escaping from an expression deep inside is a crash, not a refusal."""
    import traceback
    if not common.is_library_exception(e):
        return False
    frames = traceback.extract_tb(e.__traceback__)
    line = (frames[-1].line or "").strip() if frames else ""
    return line.startswith("raise ") or line == "raise"


def judge_prior(ctx, c, w, pk, take, want_p, got_p, exc, where):
    """earlier traversals are judged too: a drained one must be its defining order, an abandoned one a prefix of it"""
    ages = [Fraction(a) for a in c["ages"]]
    if want_p == "undefined":
        if exc is not None and not deliberate(exc):
            ctx.fail("crash", "%s: earlier traversal %s crashed with %s (not a deliberate refusal)" % (where, pk, type(exc).__name__), c)
        return
    if exc is not None:
        ctx.fail("exception", "%s: earlier traversal %s raised %s where the statement defines the answer [%s]" % (
            where, pk, type(exc).__name__, fmt(want_p)), c)
        return
    partial = take is not None and pk not in ("apply", "len") and len(got_p) == take + 1 and len(want_p) > take + 1
    if pk in AGE:
        desc = "desc" in pk
        ok = monotone_age(got_p, ages, desc) and len(set(map(str, got_p))) == len(got_p) and set(map(str, got_p)) <= set(map(str, want_p))
        if not partial:
            ok = ok and sorted(map(str, got_p)) == sorted(map(str, want_p))
        else:   # abandoned: what was yielded must be the smallest (largest) ages so far
            rest = [ages[i] for i in want_p if i not in got_p]
            if got_p and rest:
                last = ages[got_p[-1]]
                ok = ok and all((a <= last) if desc else (a >= last) for a in rest)
        if not ok:
            ctx.fail("age-order", "%s: earlier traversal %s yielded [%s]; passing nodes are [%s]" % (where, pk, fmt(got_p), fmt(want_p)), c)
        return
    exp = want_p[:take + 1] if partial else want_p
    if fmt(got_p) != fmt(exp):
        ctx.fail("order", "%s: earlier traversal %s%s visited [%s], defining order%s is [%s]" % (
            where, pk, " (abandoned)" if partial else "", fmt(got_p), " (prefix)" if partial else "", fmt(exp)), c)


def fmt(x):
    return x if isinstance(x, str) else " ".join(str(i) for i in x)


def normalise(c):
    """fill the fields older replay files do not have"""
    c = dict(c)
    if "via" not in c:
        c["via"] = "tree" if c.get("via_tree") else "node"
    c.setdefault("incl", False)
    c.setdefault("fstyle", "bool")
    c.setdefault("fsalt", 0)
    c.setdefault("nodecls", "plain")
    c.setdefault("alt", False)
    c.setdefault("prior", [])
    c.setdefault("start2", 0)
    c.setdefault("sched", "")
    c.setdefault("gk", "ll")
    return c


def one_case(ctx, dendropy, c, pending):
    c = normalise(c)
    kind, start, via = c["kind"], c["start"], c["via"]
    w = World(dendropy, c["tree"], c["nodecls"])
    seed = w.nodes[start]
    obj = None
    if via == "tree":
        if start != 0:
            raise ValueError("via=tree needs start 0")
        obj = w.tree
    elif via == "subtree":
        obj = w.tree if start == 0 else dendropy.Tree(seed_node=seed)   # splices the node out of its parent
    ages = [Fraction(a) for a in c["ages"]]
    want = oracle(c, w, seed)
    want_nofilter = oracle(dict(c, acc=None), w, seed)   # only used to recognise the documented falsy-filter defect
    want_prior = [oracle(dict(c, kind=pk, acc=None, alt=False), w, seed) for pk, take in c["prior"]]
    where = "%s via %s from node %d (filter %s/%s, node class %s%s)" % (
        kind, via, start, c["acc"], c["fstyle"], c["nodecls"],
        "".join(", after %s%s" % (pk, "" if take is None else " abandoned after %d items" % (take + 1)) for pk, take in c["prior"]))
    got, refused, refusal_ok = None, None, True
    try:
        with time_limit(10):
            # earlier traversals of the same objects (drained, or abandoned after a few items): a traversal is a read-only
            # walk, so what the judged traversal must yield is still the defining order of the tree as it was built
            for (pk, take), want_p in zip(c["prior"], want_prior):
                got_p, exc = None, None
                try:
                    got_p = impl(dict(c, kind=pk, acc=None, alt=False), w, seed, obj, cap=take)
                except Exception as e:
                    if not common.is_library_exception(e):
                        raise
                    exc = e
                judge_prior(ctx, c, w, pk, take, want_p, got_p, exc, where)
            got = impl(c, w, seed, obj)
    except common.Timeout:
        ctx.fail("hang", "%s: this sequence of traversals does not terminate within 10 s" % where, c)
        return
    except Exception as e:
        if not common.is_library_exception(e):
            raise
        refused = type(e).__name__
        refusal_ok = deliberate(e)
    filtered = c["acc"] is not None and kind not in UNFILTERED
    nontrivial = (start != 0 or filtered or c["nodecls"] != "plain" or kind in ("apply", "in", "inedge", "anc", "levelsched", "gensched") or kind in AGE)
    ctx.case([c["tree"], kind, start, via, c["excl"], c["incl"], c["acc"], c["fstyle"], c["nodecls"], c["alt"], c["prior"],
              [c["start2"], c["sched"], c["gk"]] if kind in ("levelsched", "gensched") else None, c["ages"] if kind in AGE else None], nontrivial, sample=c, kind=kind)
    if c["prior"]:
        ctx.count("after_earlier_traversals")
    if c["nodecls"] != "plain":
        ctx.count("falsy_node_class")
    if filtered and c["fstyle"] != "bool":
        ctx.count("filter_" + c["fstyle"])
    if via == "subtree" and start != 0:
        ctx.count("tree_on_spliced_subtree")
    desc = "desc" in kind
    if want == "undefined":
        # in-order on a subtree that is not strictly binary: the statement defines nothing; refusing (an exception of any
        # class raised on purpose by library code) is fine, a crash from deep inside is not
        ctx.count("inorder_undefined_" + ("refused" if refused else "answered"))
        if refused and not refusal_ok:
            ctx.fail("crash", "%s: crashed with %s on a non-binary subtree (not a deliberate refusal)" % (where, refused), c)
        canon = "refused" if refused else None
    elif refused is not None:
        ctx.fail("exception", "%s: raised %s where the statement defines the answer [%s]" % (where, refused, fmt(want)), c)
        canon = "raised"
    elif kind in AGE:
        ok_set = sorted(map(str, got)) == sorted(map(str, want))
        if not ok_set:
            ctx.fail(classify(c, got, want_nofilter, "age-order"),
                     "%s: yielded [%s]; the nodes that pass are [%s], each must appear exactly once" % (where, fmt(got), fmt(want)), c)
        elif not monotone_age(got, ages, desc):
            ctx.fail("age-order", "%s: yielded [%s] with ages [%s]: not monotone" % (
                where, fmt(got), " ".join(str(ages[i]) for i in got)), c)
        canon = age_canon(got, ages)
    else:
        if fmt(got) != fmt(want):
            ctx.fail(classify(c, got, want_nofilter, "order"),
                     "%s: visited [%s], defining order is [%s]" % (where, fmt(got), fmt(want)), c)
        canon = fmt(got)
    if canon is None:
        return
    acc = c["acc"]
    filt = "*" if (acc is None or kind in UNFILTERED) else ("-" if not acc else ",".join(str(i) for i in sorted(acc)))
    line = "iter %s %d %d %d %d %s %s %s" % (
        kind, start, 1 if (via == "subtree" and start != 0) else 0, 1 if c["excl"] else 0, 1 if c["incl"] else 0, filt,
        ",".join(tu.frac(a) for a in ages) if kind in AGE else (
            "%d:%s" % (c["start2"], c["sched"] or "0") if kind == "levelsched" else (
                "%s:%d:%s" % (c["gk"], c["start2"], c["sched"] or "0") if kind == "gensched" else "-")), " ".join(c["tree"]))
    pending.append((line, c, canon))
    if kind == "apply":   # the pointer-level loop over the parent array (apply_pointer_refinement) must say the same
        pending.append((line.replace("iter apply ", "iter applyptr ", 1), c, canon))
    if kind == "level" and not filtered and isinstance(got, list):
        # the heap generator, one next() at a time (levelorder_generator_spec): the whole output, then StopIteration
        toks_ = line.split(" ")
        toks_[1], toks_[7] = "levelgen", str(len(got) + 1)
        pending.append((" ".join(toks_), c, (canon + " -").strip()))
    if kind == "apply":   # the zipper machine (apply_zipper_refinement_partial) must say the same
        pending.append((line.replace("iter apply ", "iter applyzip ", 1), c, canon))
    if kind == "anc":   # the pointer-level climb over the parent array (ancestor_pointer_refinement) must say the same
        pending.append((line.replace("iter anc ", "iter ancptr ", 1), c, canon))


def classify(c, got, unfiltered, default):
    """give the two documented truthiness defects their own failure kinds (exactly those, nothing else on the same input):
    falsy-node-dropped: no filter given, node class falsy, and the answer is the defining order minus every falsy node/edge
                        (all of them are falsy, so: nothing is yielded / len is 0);
    falsy-filter-ignored: the filter object is falsy and the answer is exactly the unfiltered defining order"""
    kind = c["kind"]
    filtered = c["acc"] is not None and kind not in UNFILTERED
    if c["nodecls"] != "plain" and not filtered and kind in (
            "preint", "postint", "leaf", "len", "leafnodes", "internalnodes", "leafedges", "internaledges", "leafedge",
            "preintedge", "postintedge"):
        if (kind == "len" and got == [0]) or (kind != "len" and got == []):
            return "falsy-node-dropped"
    if filtered and c["fstyle"] == "falsyfn" and kind in ("preint", "postint", "leaf", "preintedge", "postintedge"):
        if fmt(got) == fmt(unfiltered) or (c["nodecls"] != "plain" and got == []):   # second: both defects composed
            return "falsy-filter-ignored"
    return default


def flush(ctx, pending):
    outs = ctx.ask([p[0] for p in pending])
    for (line, c, canon), m in zip(pending, outs):
        if m is None:
            continue
        ctx.compared()
        m = m.strip()
        if c["kind"] in AGE and m and not m.startswith("bad"):
            m = age_canon([int(x) for x in m.split()], [Fraction(a) for a in c["ages"]])
        if m == "TypeError":
            m = "refused"
        if m != canon.strip():
            ctx.disagree("iter " + c["kind"], c, canon, m)
    del pending[:]


# ---------------------------------------------------------------- generation
def gen_toks(dendropy, rng, max_leaves):
    r = rng.random()
    n = rng.randint(1, max_leaves)
    if r < 0.12:
        shape = rng.choice(tu.shape_families(n))
    elif r < 0.3:
        shape = tu.rand_shape(rng, n, p_poly=0.0, p_unary=0.0)   # binary: in-order applies
    else:
        shape = tu.rand_shape(rng, n, p_poly=rng.choice([0.1, 0.3, 0.6]), p_unary=rng.choice([0.0, 0.1, 0.3]))
    return shape_toks(dendropy, shape, n)


def shape_toks(dendropy, shape, n):
    tns = tu.make_namespace(dendropy, n)
    tree = tu.build_tree(dendropy, shape, tns, list(tns), None, None)
    toks, ids = tu.encode_tree(tree)
    return toks, len(ids)


def make_case(rng, toks, n, kind, start=None, via=None, max_age=6):
    if via is None:
        if kind in TREE_ONLY:
            via = "tree" if rng.random() < 0.5 else "subtree"
        elif kind in NODE_ONLY:
            via = "node"
        else:
            via = rng.choice(["node", "node", "tree", "subtree"])
    if start is None:
        start = 0 if via == "tree" else rng.randrange(n)
    if via == "tree":
        start = 0
    acc = None if rng.random() < 0.4 else sorted(i for i in range(n) if rng.random() < rng.choice([0.2, 0.5, 0.8]))
    prior = []
    if rng.random() < 0.35:
        pool = BOTH + (NODE_ONLY if via == "node" else TREE_ONLY)
        for _ in range(rng.choice([1, 1, 2])):
            prior.append([rng.choice(pool) if rng.random() < 0.7 else rng.choice(["level", "level", "post", "pre", "leaf"]),
                          None if rng.random() < 0.5 else rng.randrange(0, 4)])
    r = rng.random()
    extra = {}
    if kind in ("levelsched", "gensched"):
        extra = {"start2": rng.randrange(n), "sched": "".join(rng.choice("01") for _ in range(rng.randint(1, 2 * n + 3))),
                 "gk": rng.choice(["pl", "lp", "pp", "ll"])}
    return dict(extra, **{"prior": prior, "tree": toks, "kind": kind, "start": start, "via": via, "excl": rng.random() < 0.5, "incl": rng.random() < 0.5,
            "acc": acc, "fstyle": "bool" if r < 0.4 else ("mixed" if r < 0.85 else "falsyfn"), "fsalt": rng.randrange(8),
            "nodecls": "plain" if rng.random() < 0.6 else rng.choice(["nobool", "nolen"]), "alt": rng.random() < 0.3,
            "ages": [str(Fraction(rng.randint(0, max_age), 2)) for _ in range(n)]})


def run(ctx):
    dendropy = __import__("dendropy")
    rng = ctx.rng
    ctx.set_budget(35, 420)
    pending = []
    ncases = ctx.pick(6000, 120000)
    max_leaves = ctx.pick(12, 40)
    for k in range(ncases):
        if ctx.out_of_time():
            break
        toks, n = gen_toks(dendropy, rng, max_leaves if rng.random() < 0.9 else 3)
        one_case(ctx, dendropy, make_case(rng, toks, n, rng.choice(KINDS)), pending)
        if len(pending) >= 500:
            flush(ctx, pending)
    flush(ctx, pending)
    if ctx.tier == "thorough":
        # exhaustive: every shape <= 6 leaves (no unary nodes) x kind x start, without a filter and with one random filter
        ctx.budget_s = (ctx.budget_s or 420) + 240
        count = 0
        for n in range(1, 7):
            for shape in tu.all_shapes(n):
                if ctx.out_of_time():
                    break
                toks, nn = shape_toks(dendropy, shape, n)
                for kind in KINDS:
                    for start in range(nn):
                        for with_filter in (False, True):
                            via = ("tree" if start == 0 else "subtree") if kind in TREE_ONLY else (
                                "node" if (kind in NODE_ONLY or start != 0 or rng.random() < 0.5) else "tree")
                            c = make_case(rng, toks, nn, kind, start=start, via=via, max_age=3)
                            if not with_filter:
                                c["acc"] = None
                            elif c["acc"] is None:
                                c["acc"] = sorted(i for i in range(nn) if rng.random() < 0.5)
                            one_case(ctx, dendropy, c, pending)
                            count += 1
                if len(pending) >= 2000:
                    flush(ctx, pending)
        flush(ctx, pending)
        ctx.extra["exhaustive_small_scope"] = ("%d (shape<=6 leaves, kind, start) combinations, each without and with one "
                                               "random filter" % count)


def replay(ctx, rec):
    dendropy = __import__("dendropy")
    pending = []
    one_case(ctx, dendropy, rec["replay"], pending)
    flush(ctx, pending)
