"""C15 - every traversal visits each node or edge exactly once in its defining order."""
from fractions import Fraction

import common
import treeutil as tu
from common import time_limit

ID = "C15"
GEN_DEPENDS = ["C15Filters"]
RULE = ("random rose trees (1-12 leaves quick, up to 40 thorough; unary nodes, polytomies, fixed families) x entry point "
        "(39 kinds, incl. two live generators (each pre-, level-, post-order or leaf) stepped next() by next() in a random interleaving: every *_iter / *_node_iter / *_edge_iter of Node and Tree, ancestor_iter, Tree.nodes/leaf_nodes/"
        "internal_nodes/edges/leaf_edges/internal_edges, len, apply, iter(); the one-step iterators and lists of Node: child_node_iter/"
        "child_edge_iter/child_nodes/child_edges/incident_edges/adjacent_nodes/sibling_nodes/sister_nodes; the first-hit searches "
        "Tree.find_node/find_nodes/find_node_with_label/find_node_with_taxon_label/find_node_for_taxon) x start node (Node methods on any node; Tree "
        "methods on the tree and on a Tree made of a spliced-out inner node) x filter (none, or a random set of accepted "
        "ids answered with bools, with truthy/falsy non-bool values, or by a callable that is itself falsy; a PARTIAL predicate that raises when "
        "shown an item its iterator is not defined over (an inner node for a leaf iterator, a tip or the excluded seed for an internal-node iterator); "
        "STATEFUL predicates (keep every second item shown / the first k); for every filtered call the sequence of arguments the filter was called with "
        "is recorded and judged: exactly the items of the unfiltered defining order, each once, in that order (find_node: up to its first hit; age order up to "
        "ties), and compared with the model's own call sequence (= its output under the all-accepting filter); apply callbacks that are falsy callables) x node class "
        "(Node, or subclasses whose instances and edges are falsy through __bool__ or __len__) x STATE (about 40% of the cases: taxa on the "
        "tips all distinct / some tips without a taxon / two tips sharing one taxon / taxa on inner nodes / none, two taxa sharing a label, node labels, "
        "edge lengths, and a preparation run on the tree before the observation: nothing; encode_bipartitions() (stored encoding); "
        "encode followed by 1-3 structural edits with the default update_bipartitions=False (prune_subtree, remove_child, new_child, add_child, "
        "insert_child, edge collapse, prune/retain_taxa_with_labels, seed_node reassignment, reroot_at_node, reseed_at, resolve_polytomies, "
        "suppress_unifurcations, ladderize) so that the stored encoding is stale, optionally update_bipartitions() and more edits; other caches "
        "populated (calc_node_ages, calc_node_root_distances, phylogenetic_distance_matrix, node_distance_matrix, bipartition_edge_map); clone(1/2)/deepcopy; "
        "the tree the traversal is judged on is re-read after the preparation by a from-scratch walk over _child_nodes, and the model gets that tree; "
        "the evidence counts the classes: state_*, prep_*); thorough adds every shape "
        "<= 6 leaves x every start; non-trivial = start is not the seed, or a filter is given, or a falsy class is used, "
        "or the kind is apply/in-order/age-order/ancestors/a neighbour list/a search, or the case has a state; every run starts with a DEPTH/SIZE sweep (oracle only, no model): ladders 1 200 and 3 000 levels deep, a 3 000-child star, a "
        "2 000-level unary chain, built from Node objects, 34 entry points each (every iterator / list form / apply / len / in-order / age order / ancestors / "
        "find_node), judged by an iterative from-scratch oracle - a RecursionError or a wrong order is a failure; a third of the cases run one or two other traversals (drained or "
        "abandoned part-way, each judged too) on the same objects first")
MODELLED_NOT_VERIFIED = [
    "C15: the Lean machines are hand-written from Node.preorder_iter/postorder_iter/levelorder_iter/leaf_iter/inorder_iter/"
    "ageorder_iter/ancestor_iter/apply/child_node_iter/child_edge_iter/incident_edges/adjacent_nodes/sibling_nodes and "
    "Tree.preorder_edge_iter/postorder_edge_iter/find_node* and the wrappers; tied to the code by the per-case comparison of "
    "visit sequences. Regenerated from the source on every run instead (Gen/C15Filters.lean, bridges internal_filter_bridge / "
    "leaf_filter_bridge / len_bridge): the filter lambdas of the four internal-node/-edge wrappers, of leaf_iter and of "
    "Node.leaf_nodes, the traversal each of them delegates to, and the counting loop of Tree.__len__",
    "C15: Node.apply, ancestor_iter, adjacent_nodes and sibling_nodes read parent pointers; the pointer-level readings over the parent "
    "array (applyPtrTrace, ancPtrIter, adjacentPtr, siblingPtr) are proved equal to the tree-level models on every protocol tree "
    "(apply_pointer_refinement, ancestor_pointer_refinement, neighbour_pointer_refinement); that the parent array is what the "
    "Python objects hold is the per-case comparison (the array is written from a walk over _child_nodes, and a preparation that "
    "leaves parent pointers and child lists in disagreement is discarded, counted as prep_left_no_tree)",
    "C15: state (stored bipartition encodings, age/distance caches, taxa, labels) has no counterpart in the model: the model "
    "sees only the tree structure as re-read after the preparation, which IS the claim (no traversal, list form or len may depend "
    "on anything but the child lists); the preparation steps themselves (encode_bipartitions, prune_*, reroot ...) are not judged "
    "here, a refusal of one of them is counted (prep_refused) and the traversal is judged on the structure that is left",
    "C15: generator suspension: levelorder_iter and preorder_iter are also modelled one next() at a time over a mutable heap (lvNext, pvNext) with "
    "frame/independence AND output theorems; postorder_iter and leaf_iter too (poNext, lfNext) with frame/independence theorems only - that their "
    "k-th next() returns the k-th item of the post-order / the k-th leaf, and that the fuel 2*n+2 per next() suffices, is the per-case "
    "comparison (kind gensched, letters o / f); the in-order and age-order generators are modelled as complete runs only, their abandoned prefixes and "
    "interleavings are judged by the oracle on the Python side; a tree mutated by the CALLER during iteration is outside "
    "the statement; a filter is a set of "
    "accepted node ids - what the callable returns for them (bool or any truthy/falsy object) is varied on the Python side only; "
    "a stateful predicate is handed to the model as the set of ids it accepts when shown the defining order once (sound because the "
    "call sequence itself is judged by the oracle and compared with the machine's)",
    "C15: filter calls: the traced machines (calls* kinds) exist for pre/post/level/leaf/internal/children and, through the edge-order "
    "theorems, their edge variants; the call sequences of in-order, age-order, ancestor_iter and find_node are compared with the plain "
    "machine under the all-accepting filter instead",
    "C15: age order: the model sorts stably (as list.sort does); the statement asks only for monotone age, so model and "
    "implementation are compared up to the order inside groups of equal age",
    "C15: find_node_with_taxon_label compares labels: the harness translates the label asked for into the set of taxon indices "
    "carrying it (two taxa may share a label) before the model is asked; node identity (`nd is not self`, `node.taxon is taxon`) "
    "is modelled by ids / taxon indices, pairwise distinct by construction (protocol_ids_distinct)",
]
EXPLANATION = ("Wave 2: the filter CALL sequence is part of the machines (Model/C15Calls.lean: traced pre/post/level-order machines, leafIterE, "
               "internalGuard, childRunE; driver kinds calls*): traced_machines_conservative (what they yield = the plain machine under guard && keep, "
               "what they show to the filter = the plain machine under the guard), filter_calls_spec (the filter is shown exactly the unfiltered "
               "defining order, each item once; the leaf iterator shows it the leaves only, never an internal node), internal_filter_calls_spec (the "
               "internal-node iterators show it exactly the non-leaves, never the excluded seed); postorder_iter and leaf_iter one next() at a time "
               "over the heap (poNext / lfNext, Model/C15Gen.lean; driver generator letters o / f): postorder_generator_steps_local, "
               "postorder_generators_independent (a suspended post-order / leaf generator is not disturbed by any other generator; that k calls "
               "return the first k items of the post-order is compared per case, not proved); single-node corner cases of the internal edge "
               "iterators as kernel-checked examples. Round ext-3: (1) tie A - Gen/C15Filters.lean is regenerated from the source on every run (the truthiness-composed filter "
               "lambdas of preorder/postorder_internal_node_iter, preorder/postorder_internal_edge_iter, leaf_iter, Node.leaf_nodes as Boolean "
               "functions of excl/hasFilter/hasParent/hasKids/pass; the traversal each delegates to; Tree.__len__ as init + n*step over the leaf "
               "iterator) and bridged to the model by internal_filter_bridge, leaf_filter_bridge, len_bridge (case analysis: a rewrite that keeps "
               "the meaning passes, `x and ...`, `if filter_fn:`, a dropped froot, another delegate or a fast path in __len__ breaks generation or "
               "the bridge, and then search() hunts for a failing input on the real code); (2) new model parts with theorems: child_iter_spec "
               "(child_node_iter/child_edge_iter/incident_edges), find_node_spec (find_node = head of the filtered pre-order: passes, nothing "
               "before it passes; None iff nothing passes), find_by_attribute_spec + first_where_first (label / taxon predicate: first hit in "
               "pre-order; find_node_for_taxon: first hit in POST-order), neighbour_spec and neighbour_pointer_refinement(+_build) "
               "(sibling_nodes / adjacent_nodes computed on the way down = what the code reads through _parent_node on the parent array, on "
               "every protocol tree); (3) the check now observes every kind on trees carrying state (stored, possibly stale bipartition "
               "encodings; taxon-less / duplicate-taxon tips; age and distance caches; reassigned seeds; clones). The gap recorded earlier "
               "('reading the apply zipper off a parent array') was already closed by apply_pointer_refinement. "
               "Last theorem round: apply_pointer_refinement(+_build) / apply_zipper_refinement (the literal loop of Node.apply over the "
               "parent array = zipper machine = closer-list machine = brackets, on every protocol tree; fuel adequacy of buildTree: "
               "protocol_faithful), generator_frame / generators_independent / levelorder_generator_spec / "
               "levelorder_generators_interleaved (levelorder_iter one next() at a time over a mutable heap: a step changes no child "
               "list and no other generator's state; any interleaving of two generators gives each the prefix of its own level "
               "order). Final round: visits_distinct (+ visits_distinct_of_ids, build_subtree_ids_distinct): the ids every node/edge iterator "
               "prints are pairwise distinct on every protocol subtree ('exactly once' about the printed ids, including inRun and "
               "ageIter); inorder_run_each_node_once (the in-order statement on the function the driver runs); start_has_parent_iff "
               "(the driver's hasParent = the ancestor chain is non-empty; the det flag is protocol input); "
               "ancestor_pointer_refinement_build with a kernel-checked instance. internal_spec, ageorder_sorted_stable and "
               "inorder_each_node_once are kept as obligations but are definitional / not about driver-run functions (their "
               "docstrings say so). Extension round: protocol_ids_distinct / protocol_subtree_ids_distinct (every tree parseTree returns has distinct ids, "
               "for any parent array), internal_nodes_driver_spec / tree_internal_lists_driver_spec (no id hypothesis left), "
               "ancestor_pointer_refinement (ancIter = the pointer climb over the parent array, driver kind ancptr), "
               "levelorder_generations / levelorder_depth_monotone (explicit non-decreasing depths), apply_dyck (labelled Dyck word, "
               "opens in pre-order, closes in post-order), apply_zipper_refinement_partial (zipper climb = closer lists; the zipper "
               "<-> parent array step is apply_pointer_refinement; the name is kept for the lemma). Theorems, all about the definitions the driver runs: each machine = its defining order for every tree, start "
               "and filter (preorder_spec, postorder_spec, levelorder_spec, leaf_spec, inorder_spec, filtered_spec, "
               "edge_iter_spec + edge_order_spec, wrapped_edge_iter_spec for the level/leaf/in-order edge iterators, "
               "each_node_once, len_spec, apply_spec, tree_lists_spec, tree_internal_lists_spec); internal_nodes_spec: "
               "exactly the non-leaves, the start dropped iff exclusion is requested and it has no parent; ancestor_spec: "
               "the filtered parent chain up to the root; ageorder_spec / ageorder_driver_spec: for the real comparator "
               "Frac.lt (through Theory/FracRat.lt_iff) and the ages the driver parses, both directions, with/without "
               "leaves, any filter: monotone in age, each passing node once, stable. internal_spec and "
               "ageorder_sorted_stable (Int key) are kept but superseded.")

AGE = ["ageasc", "agedesc", "ageascint", "agedescint"]
BOTH = ["pre", "post", "level", "leaf", "in", "preint", "postint", "apply"] + AGE          # Node and Tree entry points
FIND = ["findnode", "findnodes", "findlabel", "findtaxlabel", "findtaxon"]     # Tree.find_node* (first hit of a traversal)
NEIGHBOURS = ["children", "childedges", "adjacent", "incident", "siblings"]   # the one-step iterators / lists of Node
TREE_ONLY = ["preedge", "postedge", "preintedge", "postintedge", "leveledge", "leafedge", "inedge", "len",
             "nodes", "leafnodes", "internalnodes", "edges", "leafedges", "internaledges"] + FIND
NODE_ONLY = ["anc", "levelsched", "gensched"] + NEIGHBOURS
KINDS = BOTH + TREE_ONLY + NODE_ONLY
EDGE_KINDS = {"preedge", "postedge", "preintedge", "postintedge", "leveledge", "leafedge", "inedge",
              "edges", "leafedges", "internaledges", "childedges", "incident"}
UNFILTERED = {"apply", "len", "leafnodes", "internalnodes", "leafedges", "internaledges", "levelsched", "gensched",
              "adjacent", "incident", "siblings", "findlabel", "findtaxlabel", "findtaxon"}   # entry points without filter_fn
NEEDS_STATE = {"findlabel", "findtaxlabel", "findtaxon"}    # need labels / taxa on the nodes
USES_EXCL = {"preint", "postint", "preintedge", "postintedge", "internalnodes", "internaledges"}
NODECLS = ["plain", "nobool", "nolen"]
FSTYLES = ["bool", "mixed", "falsyfn", "partial", "alternate", "limit"]
# kinds whose machine is also modelled with the filter call made observable (an edge iterator's filter sees the edge of
# the node the node machine sees: edge_order_spec / wrapped_edge_iter_spec)
CALLS_KIND = {"pre": "callspre", "preedge": "callspre", "nodes": "callspre", "edges": "callspre", "findnodes": "callspre",
              "post": "callspost", "postedge": "callspost", "level": "callslevel", "leveledge": "callslevel",
              "leaf": "callsleaf", "leafedge": "callsleaf", "preint": "callspreint", "preintedge": "callspreint",
              "postint": "callspostint", "postintedge": "callspostint", "children": "callschildren", "childedges": "callschildren"}
STATEFUL = {"alternate", "limit"}    # the answer depends on how often the predicate has been called, not on the node

TRUTHY = [True, 1, "x", [0], (None,), 2.5, {"a": 1}, -1]
FALSY = [False, 0, None, "", [], (), 0.0, {}]


# ---------------------------------------------------------------- building the objects of a case
_classes = {}


def node_class(dendropy, name):
    """Node, or a subclass whose instances (and whose edges) are falsy - a node class with __len__ or __bool__ is
    perfectly legal; the iterators must not confuse such a node with 'no node' or 'rejected'"""
    key = (id(dendropy), name)
    if key in _classes:
        return _classes[key]
    Edge = dendropy.Edge
    if name == "plain":
        cls = dendropy.Node
    elif name == "nobool":
        class FalsyEdge(Edge):
            def __bool__(self):
                return False

        class FalsyNode(dendropy.Node):
            @classmethod
            def edge_factory(cls, **kwargs):
                return FalsyEdge(**kwargs)

            def __bool__(self):
                return False
        cls = FalsyNode
    elif name == "nolen":
        class EmptyEdge(Edge):
            def __len__(self):
                return 0

        class EmptyNode(dendropy.Node):
            @classmethod
            def edge_factory(cls, **kwargs):
                return EmptyEdge(**kwargs)

            def __len__(self):
                return 0
        cls = EmptyNode
    else:
        raise ValueError(name)
    _classes[key] = cls
    return cls


class World(object):
    """the objects of one case: nodes numbered as in the protocol tokens, their edges, the tree.

    A plain case builds bare nodes from the parent array of c["tree"].  A *state* case (any of the fields tax / labs /
    lens / prep given) additionally hangs taxa, labels and edge lengths on the nodes, runs the preparation steps of
    c["prep"] on the tree (bipartition encoding, age / distance caches, structural edits WITHOUT update_bipartitions,
    seed reassignment, cloning ...) and then renumbers: the nodes of the case are whatever a from-scratch walk over
    `_child_nodes` from the tree's current seed finds, in pre-order; the protocol tokens the model receives are
    written from that walk (never from the library's own bookkeeping)."""

    def __init__(self, dendropy, toks, nodecls, c=None):
        n = int(toks[0])
        par = [int(x) for x in toks[1:1 + n]]
        cls = node_class(dendropy, nodecls)
        self.cls = cls
        self.nodes = [cls() for _ in range(n)]
        root = None
        for i in range(n):
            if par[i] < 0:
                root = self.nodes[i]
            else:
                self.nodes[par[i]].add_child(self.nodes[i])
        c = c or {}
        self.state = bool(c.get("tax") or c.get("labs") or c.get("lens") or c.get("prep"))
        self.taxa = []
        self.fresh_taxon = dendropy.Taxon(label="not-on-this-tree")   # what find_node_for_taxon is asked for when the case has no taxa
        self.prep_log = []
        self.consistent = True
        if not self.state:
            self.tree = dendropy.Tree(seed_node=root)
            self.toks = list(toks)
        else:
            tns = dendropy.TaxonNamespace()
            tax = c.get("tax") or [None] * n
            ntax = 1 + max([t for t in tax if t is not None] or [-1])
            tlabs = c.get("tlabs") or list(range(ntax))
            for k in range(ntax):
                tx = dendropy.Taxon(label="T%d" % tlabs[k % len(tlabs)])
                tns.add_taxon(tx)
                self.taxa.append(tx)
            for i, nd in enumerate(self.nodes):
                if i < len(tax) and tax[i] is not None:
                    nd.taxon = self.taxa[tax[i]]
                labs = c.get("labs")
                if labs and i < len(labs) and labs[i] is not None:
                    nd.label = "L%d" % labs[i]
                lens = c.get("lens")
                if lens and i < len(lens) and lens[i] is not None:
                    nd.edge.length = float(Fraction(lens[i]))
            self.tree = dendropy.Tree(seed_node=root, taxon_namespace=tns)
            self.initial = list(self.nodes)
            for step in c.get("prep") or []:
                self.prep_log.append(self.prep_step(dendropy, step))
            self.renumber()
        self.nmap = {id(nd): i for i, nd in enumerate(self.nodes)}
        self.emap = {id(nd.edge): i for i, nd in enumerate(self.nodes)}
        self.n = len(self.nodes)

    # ---- preparation steps (none of them is under test here: a refusal is logged and the structure that is left is
    #      what the traversals are judged on, provided child lists and parent pointers still agree)
    def alive(self):
        return {id(x) for x in o_pre(self.tree.seed_node)} if self.tree.seed_node is not None else set()

    def prep_step(self, dendropy, step):
        import copy
        import random as _random
        import warnings
        op, args = step[0], step[1:]
        tree = self.tree
        node = None
        if op in ("prune_subtree", "remove_child", "new_child", "add_child", "insert_child", "reseed", "reroot",
                  "reseed_at", "collapse_edge", "new_taxon_child"):
            node = self.initial[args[0] % len(self.initial)]
            if id(node) not in self.alive():
                return op + ":skipped"
            if op in ("prune_subtree", "remove_child", "collapse_edge") and node is tree.seed_node:
                return op + ":skipped"
        try:
            with warnings.catch_warnings():
                warnings.simplefilter("ignore")
                if op == "encode":
                    tree.encode_bipartitions(suppress_unifurcations=bool(args and args[0]))
                elif op == "update":
                    tree.update_bipartitions(suppress_unifurcations=bool(args and args[0]))
                elif op == "ages":
                    tree.calc_node_ages(ultrametricity_precision=False)
                elif op == "rootdist":
                    tree.calc_node_root_distances()
                elif op == "pdm":
                    tree.phylogenetic_distance_matrix()
                elif op == "ndm":
                    tree.node_distance_matrix()
                elif op == "bipmap":
                    tree.bipartition_edge_map
                    tree.split_bitmask_edge_map
                elif op == "clone":
                    self.tree = tree.clone(args[0]) if args[0] in (1, 2) else copy.deepcopy(tree)
                elif op == "prune_subtree":
                    tree.prune_subtree(node, suppress_unifurcations=bool(args[1]))
                elif op == "remove_child":
                    listed = [x for x in o_pre(tree.seed_node) if any(ch is node for ch in x._child_nodes)]
                    listed[0].remove_child(node, suppress_unifurcations=bool(args[1]))
                elif op == "new_child":
                    node.new_child()
                elif op == "new_taxon_child":
                    t = dendropy.Taxon(label="N%d" % len(self.taxa))
                    tree.taxon_namespace.add_taxon(t)
                    self.taxa.append(t)
                    node.new_child(taxon=t, edge_length=1.0)
                elif op == "add_child":
                    node.add_child(self.cls())
                elif op == "insert_child":
                    node.insert_child(args[1] % (len(node._child_nodes) + 1), self.cls())
                elif op == "collapse_edge":
                    node.edge.collapse()
                elif op == "reseed":
                    tree.seed_node = node
                elif op == "reroot":
                    tree.reroot_at_node(node, suppress_unifurcations=bool(args[1]))
                elif op == "reseed_at":
                    tree.reseed_at(node, suppress_unifurcations=bool(args[1]))
                elif op == "prune_labels":
                    tree.prune_taxa_with_labels(["T%d" % k for k in args[0]], suppress_unifurcations=bool(args[1]))
                elif op == "retain_labels":
                    tree.retain_taxa_with_labels(["T%d" % k for k in args[0]], suppress_unifurcations=bool(args[1]))
                elif op == "ladderize":
                    tree.ladderize(ascending=bool(args[0]))
                elif op == "suppress":
                    tree.suppress_unifurcations()
                elif op == "resolve":
                    tree.resolve_polytomies(rng=_random.Random(args[0]))
                elif op == "drain":   # another traversal consumed in full first (populates nothing, must change nothing)
                    for _ in tree.postorder_node_iter():
                        pass
                else:
                    raise ValueError("unknown preparation step %r" % (step,))
        except Exception as e:
            if not common.is_library_exception(e):
                raise
            return "%s:%s" % (op, type(e).__name__)
        return op + ":ok"

    def renumber(self):
        seed = self.tree.seed_node
        order, seen, ok = [], set(), seed is not None and seed._parent_node is None
        stack = [seed] if seed is not None else []
        while stack and len(order) < 100000:
            nd = stack.pop()
            if id(nd) in seen:
                ok = False
                continue
            seen.add(id(nd))
            order.append(nd)
            for ch in nd._child_nodes:
                if ch._parent_node is not nd:
                    ok = False
            stack.extend(reversed(nd._child_nodes))
        self.consistent = ok and len(order) > 0
        self.nodes = order
        idx = {id(nd): i for i, nd in enumerate(order)}
        par = ["-1"] * len(order)
        for nd in order:
            for ch in nd._child_nodes:
                if id(ch) in idx:
                    par[idx[id(ch)]] = str(idx[id(nd)])
        tmap = {id(t): k for k, t in enumerate(self.taxa)}
        tax, labs = [], []
        for nd in order:
            t = getattr(nd, "taxon", None)
            if t is not None and id(t) not in tmap:      # a taxon object made by the library (clone): same label, own index
                tmap[id(t)] = len(self.taxa)
                self.taxa.append(t)
            tax.append("-" if t is None else str(tmap[id(t)]))
            labs.append(common.hex6(nd.label) if isinstance(nd.label, str) or nd.label is None else "-")
        self.toks = [str(len(order))] + par + tax + ["N"] * len(order) + labs

    def nid(self, x):
        return self.nmap.get(id(x), "?")

    def eid(self, e):
        return self.emap.get(id(e), "?")


class FalsyFn(object):
    """a filter predicate that is a falsy object itself (a callable with __bool__): it is still 'a filter'"""

    def __init__(self, fn):
        self.fn = fn

    def __call__(self, x):
        return self.fn(x)

    def __bool__(self):
        return False


class WrongKind(Exception):
    """raised by a `partial` predicate: it only makes sense on the items its iterator is defined over (a leaf predicate
    on an inner node - think of `nd.taxon.label.startswith(...)` - an internal-node predicate on a tip, ...)"""


def stateful_answer(fstyle, salt, n):
    """what a stateful predicate answers on its n-th call (n = 0, 1, ...): `alternate` keeps every second item it is
    shown, `limit` the first few"""
    if fstyle == "alternate":
        return n % 2 == salt % 2
    return n < salt % 4


def make_filter(acc, fstyle, salt, key, log=None, cand=None):
    """the filter callable for a set of accepted ids. `key(obj)` -> id. None when no filter.
    Every call is recorded in `log` (the ids, in call order).  Families: bool / mixed (truthy and falsy non-bools) /
    falsyfn (the callable itself is falsy) answer by the id; partial answers by the id but raises WrongKind on an item
    outside `cand` (the items the iterator is defined over); alternate / limit are stateful: they answer by the number
    of calls so far"""
    if acc is None:
        return None
    log = [] if log is None else log
    if fstyle == "mixed":
        def f(x):
            i = key(x)
            log.append(i)
            table = TRUTHY if i in acc else FALSY
            # an object the case does not know (the code handed the filter something else than a node / an edge of
            # this tree) is answered with a falsy value - the oracle then sees what was yielded; never a harness crash
            return table[((i if isinstance(i, int) else 0) + salt) % len(table)]
        return f
    if fstyle in STATEFUL:
        def h(x):
            log.append(key(x))
            return stateful_answer(fstyle, salt, len(log) - 1)
        return h
    if fstyle == "partial":
        def q(x):
            i = key(x)
            log.append(i)
            if cand is not None and i not in cand:
                raise WrongKind(i)
            return i in acc
        return q

    def g(x):
        log.append(key(x))
        return key(x) in acc
    return FalsyFn(g) if fstyle == "falsyfn" else g


# ---------------------------------------------------------------- independent oracle: the defining orders, by plain recursion on _child_nodes
def o_pre(nd):
    out = [nd]
    for c in nd._child_nodes:
        out.extend(o_pre(c))
    return out


def o_post(nd):
    out = []
    for c in nd._child_nodes:
        out.extend(o_post(c))
    out.append(nd)
    return out


def o_level(nd):
    out, level = [], [nd]
    while level:
        out.extend(level)
        level = [c for x in level for c in x._child_nodes]
    return out


class NotBinary(Exception):
    pass


def o_in(nd):
    k = len(nd._child_nodes)
    if k == 0:
        return [nd]
    if k != 2:
        raise NotBinary()
    return o_in(nd._child_nodes[0]) + [nd] + o_in(nd._child_nodes[1])


def o_brackets(nd, w):
    if not nd._child_nodes:
        return ["l%d" % w.nid(nd)]
    out = ["b%d" % w.nid(nd)]
    for c in nd._child_nodes:
        out.extend(o_brackets(c, w))
    out.append("a%d" % w.nid(nd))
    return out


def o_path(root, target):
    """root-to-target path found from the top through _child_nodes (never through parent pointers)"""
    if root is target:
        return [root]
    for c in root._child_nodes:
        p = o_path(c, target)
        if p is not None:
            return [root] + p
    return None


def oracle(c, w, seed):
    """what the statement prescribes for case c; `seed` is the node the traversal starts from.
    returns a list of ids / events, 'undefined' (in-order on a non-binary subtree), or for age kinds the list of ids that
    must appear (each once; their order is judged by monotone_age)"""
    kind, excl = c["kind"], c["excl"]
    acc = None if (c["acc"] is None or kind in UNFILTERED) else set(c["acc"])
    keep = (lambda x: True) if acc is None else (lambda x: w.nid(x) in acc)
    is_leaf = lambda x: len(x._child_nodes) == 0
    # "has a parent" decided from the child lists alone (is x listed as a child of any node of this case?), never from the
    # _parent_node pointer the code itself consults - a stale pointer after splicing must not be shared by code and oracle
    listed = {id(ch) for nd in w.nodes for ch in nd._child_nodes}
    internal = lambda x: (not is_leaf(x)) and not (excl and id(x) not in listed)
    I = lambda l: [w.nid(x) for x in l]
    if kind in ("pre", "preedge", "nodes", "edges"):
        return I(x for x in o_pre(seed) if keep(x))
    if kind in ("post", "postedge"):
        return I(x for x in o_post(seed) if keep(x))
    if kind in ("level", "leveledge"):
        return I(x for x in o_level(seed) if keep(x))
    if kind in ("leaf", "leafedge", "leafnodes", "leafedges"):
        return I(x for x in o_pre(seed) if is_leaf(x) and keep(x))
    if kind in ("in", "inedge"):
        try:
            return I(x for x in o_in(seed) if keep(x))
        except NotBinary:
            return "undefined"
    if kind in ("preint", "preintedge", "internalnodes", "internaledges"):
        return I(x for x in o_pre(seed) if internal(x) and keep(x))
    if kind in ("postint", "postintedge"):
        return I(x for x in o_post(seed) if internal(x) and keep(x))
    if kind == "apply":
        return o_brackets(seed, w)
    if kind == "len":
        return [len([x for x in o_pre(seed) if is_leaf(x)])]
    if kind in ("levelsched", "gensched"):
        # two live generators (level-order; gensched: pre-order 'p' or level-order 'l' each) stepped in the order of the schedule: each must hand out its own defining order,
        # one node per next(), then StopIteration, whatever the other one does in between
        gk = c["gk"] if kind == "gensched" else "ll"
        order = {"p": o_pre, "l": o_level, "o": o_post, "f": lambda nd: [x for x in o_pre(nd) if is_leaf(x)]}
        seqs = {"1": I(order[gk[0]](seed)), "0": I(order[gk[1]](w.nodes[c["start2"]]))}
        pos = {"1": 0, "0": 0}
        out = []
        for ch in c["sched"]:
            out.append("%s:%s" % (ch, seqs[ch][pos[ch]] if pos[ch] < len(seqs[ch]) else "-"))
            pos[ch] += 1
        return out
    if kind == "anc":
        path = o_path(w.tree.seed_node, seed)
        up = list(reversed(path[:-1]))
        return I(([seed] if (c["incl"] and keep(seed)) else []) + [x for x in up if keep(x)])
    if kind in ("children", "childedges"):
        return I(x for x in seed._child_nodes if keep(x))
    if kind == "incident":      # the edges of the children, then the node's own edge
        return I(list(seed._child_nodes) + [seed])
    if kind in ("adjacent", "siblings"):
        path = o_path(w.tree.seed_node, seed)   # the parent, found from the top through the child lists
        parent = path[-2] if path is not None and len(path) >= 2 else None
        if kind == "adjacent":
            return I(list(seed._child_nodes) + ([parent] if parent is not None else []))
        return I(x for x in (parent._child_nodes if parent is not None else []) if x is not seed)
    if kind == "findnodes":
        return I(x for x in o_pre(seed) if keep(x))
    if kind in FIND:
        if kind == "findnode":
            hits = [x for x in o_pre(seed) if keep(x)]
        elif kind == "findlabel":
            hits = [x for x in o_pre(seed) if x.label == "L%d" % c["q"]]
        elif kind == "findtaxlabel":
            hits = [x for x in o_pre(seed) if x.taxon is not None and x.taxon.label == "T%d" % c["q"]]
        else:   # find_node_for_taxon: documented as 'first node'; it walks in post-order
            tx = w.taxa[c["q"] % len(w.taxa)] if w.taxa else w.fresh_taxon
            hits = [x for x in o_post(seed) if x.taxon is tx]
        return I(hits[:1]) if hits else ["-"]
    if kind in AGE:
        return I(x for x in o_pre(seed) if (not kind.endswith("int") or not is_leaf(x)) and keep(x))
    raise ValueError(kind)


def monotone_age(seq, ages, desc):
    vals = [ages[i] for i in seq if isinstance(i, int)]
    return all((a >= b) if desc else (a <= b) for a, b in zip(vals, vals[1:]))


def age_canon(seq, ages):
    """an age-ordered answer up to the order among equal ages: runs of equal age, ids sorted inside a run"""
    out, run, cur = [], [], None
    for i in seq:
        a = ages[i] if isinstance(i, int) and 0 <= i < len(ages) else "?"
        if run and a != cur:
            out.append("%s:%s" % (cur, ",".join(str(x) for x in sorted(run, key=str))))
            run = []
        cur = a
        run.append(i)
    if run:
        out.append("%s:%s" % (cur, ",".join(str(x) for x in sorted(run, key=str))))
    return " ".join(out)


# ---------------------------------------------------------------- the implementation
def drain(it, cap):
    out = []
    for x in it:
        out.append(x)
        if len(out) > cap:
            break
    return out


def impl(c, w, seed, obj, cap=None, rec=None):
    """call the entry point; obj is the Tree (via tree/subtree) or None (via node). returns list of ids/events.
    cap: abandon the generator after cap+1 items (default: far more than the tree has nodes)"""
    kind, excl = c["kind"], c["excl"]
    acc = None if c["acc"] is None else set(c["acc"])
    rec = {} if rec is None else rec     # rec["calls"]: what the filter was called with, in order; rec["cand"]: see make_filter
    log = rec.setdefault("calls", [])
    nf = make_filter(acc, c["fstyle"], c["fsalt"], w.nid, log, rec.get("cand"))
    ef = make_filter(acc, c["fstyle"], c["fsalt"], w.eid, log, rec.get("cand"))
    cap = 3 * w.n + 8 if cap is None else cap
    N = lambda it: [w.nid(x) for x in drain(it, cap)]
    E = lambda it: [w.eid(x) for x in drain(it, cap)]
    t = obj
    if kind == "pre":
        if c["alt"] and acc is None:
            return N(iter(t) if t is not None else iter(seed))
        return N(t.preorder_node_iter(nf) if t is not None else seed.preorder_iter(nf))
    if kind == "post":
        return N(t.postorder_node_iter(nf) if t is not None else seed.postorder_iter(nf))
    if kind == "level":
        if c["alt"]:   # deprecated aliases
            return N(t.level_order_node_iter(nf) if t is not None else seed.level_order_iter(nf))
        return N(t.levelorder_node_iter(nf) if t is not None else seed.levelorder_iter(nf))
    if kind == "leaf":
        if c["alt"] and acc is None and t is None:
            return N(seed.leaf_nodes())
        if c["alt"] and t is not None:
            return N(t.leaf_iter(nf))   # deprecated alias
        return N(t.leaf_node_iter(nf) if t is not None else seed.leaf_iter(nf))
    if kind == "in":
        return N(t.inorder_node_iter(nf) if t is not None else seed.inorder_iter(nf))
    if kind == "preint":
        if c["alt"]:   # keyword spelling
            return N(t.preorder_internal_node_iter(filter_fn=nf, exclude_seed_node=excl) if t is not None
                     else seed.preorder_internal_node_iter(filter_fn=nf, exclude_seed_node=excl))
        return N(t.preorder_internal_node_iter(nf, excl) if t is not None else seed.preorder_internal_node_iter(nf, excl))
    if kind == "postint":
        return N(t.postorder_internal_node_iter(nf, excl) if t is not None else seed.postorder_internal_node_iter(nf, excl))
    if kind == "preedge":
        return E(t.preorder_edge_iter(ef))
    if kind == "postedge":
        return E(t.postorder_edge_iter(ef))
    if kind == "preintedge":
        return E(t.preorder_internal_edge_iter(ef, excl))
    if kind == "postintedge":
        return E(t.postorder_internal_edge_iter(ef, excl))
    if kind == "leveledge":
        return E(t.level_order_edge_iter(ef) if c["alt"] else t.levelorder_edge_iter(ef))
    if kind == "leafedge":
        return E(t.leaf_edge_iter(ef))
    if kind == "inedge":
        return E(t.inorder_edge_iter(ef))
    if kind == "nodes":
        return N(t.nodes(nf) if nf is not None else t.nodes())
    if kind == "leafnodes":
        return N(t.leaf_nodes())
    if kind == "internalnodes":
        return N(t.internal_nodes(excl))
    if kind == "edges":
        return E(t.edges(ef) if ef is not None else t.edges())
    if kind == "leafedges":
        return E(t.leaf_edges())
    if kind == "internaledges":
        return E(t.internal_edges(excl))
    if kind == "apply":
        ev = []
        wrap = FalsyFn if c["fstyle"] == "falsyfn" else (lambda f: f)   # a callback that is a falsy callable is still a callback
        (t if t is not None else seed).apply(before_fn=wrap(lambda x: ev.append("b%s" % w.nid(x))),
                                             after_fn=wrap(lambda x: ev.append("a%s" % w.nid(x))),
                                             leaf_fn=wrap(lambda x: ev.append("l%s" % w.nid(x))))
        return ev
    if kind == "len":
        return [t.__len__()] if c["alt"] else [len(t)]
    if kind in ("levelsched", "gensched"):
        gk = c["gk"] if kind == "gensched" else "ll"
        mk = {"p": lambda nd: nd.preorder_iter(), "l": lambda nd: nd.levelorder_iter(),
              "o": lambda nd: nd.postorder_iter(), "f": lambda nd: nd.leaf_iter()}
        gens = {"1": mk[gk[0]](seed), "0": mk[gk[1]](w.nodes[c["start2"]])}
        out = []
        for ch in c["sched"]:
            try:
                out.append("%s:%s" % (ch, w.nid(next(gens[ch]))))
            except StopIteration:
                out.append("%s:-" % ch)
        return out
    if kind == "anc":
        return N(seed.ancestor_iter(nf, c["incl"]) if not c["alt"] else seed.ancestor_iter(filter_fn=nf, inclusive=c["incl"]))
    if kind == "children":
        if c["alt"] and acc is None:
            return N(seed.child_nodes())
        return N(seed.child_node_iter(nf))
    if kind == "childedges":
        if c["alt"] and acc is None:
            return E(seed.child_edges())
        return E(seed.child_edge_iter(ef))
    if kind == "incident":
        return E(seed.get_incident_edges() if c["alt"] else seed.incident_edges())
    if kind == "adjacent":
        return N(seed.get_adjacent_nodes() if c["alt"] else seed.adjacent_nodes())
    if kind == "siblings":
        return N(seed.sister_nodes() if c["alt"] else seed.sibling_nodes())
    if kind == "findnodes":
        return N(t.find_nodes(nf))
    if kind in FIND:
        if kind == "findnode":
            r = t.find_node(nf)
        elif kind == "findlabel":
            r = t.find_node_with_label("L%d" % c["q"])
        elif kind == "findtaxlabel":
            r = t.find_node_with_taxon_label("T%d" % c["q"])
        else:
            r = t.find_node_for_taxon(w.taxa[c["q"] % len(w.taxa)] if w.taxa else w.fresh_taxon)
        return ["-"] if r is None else [w.nid(r)]
    if kind in AGE:
        ages = [Fraction(a) for a in c["ages"]]
        for i, nd in enumerate(w.nodes):
            nd.age = float(ages[i])
        desc = "desc" in kind
        incl = not kind.endswith("int")
        if c["alt"]:   # deprecated aliases
            return N(t.age_order_node_iter(include_leaves=incl, filter_fn=nf, descending=desc) if t is not None
                     else seed.age_order_iter(include_leaves=incl, filter_fn=nf, descending=desc))
        return N(t.ageorder_node_iter(include_leaves=incl, filter_fn=nf, descending=desc) if t is not None
                 else seed.ageorder_iter(filter_fn=nf, include_leaves=incl, descending=desc))
    raise ValueError(kind)


def deliberate(e):
    """a refusal = an exception library code raises on purpose: the innermost frame is library code executing a `raise`
    statement.  A TypeError/AttributeError/IndexError escaping from an expression deep inside is a crash, not a refusal."""
    import traceback
    if not common.is_library_exception(e):
        return False
    frames = traceback.extract_tb(e.__traceback__)
    line = (frames[-1].line or "").strip() if frames else ""
    return line.startswith("raise ") or line == "raise"


def judge_prior(ctx, c, w, pk, take, want_p, got_p, exc, where):
    """earlier traversals are judged too: a drained one must be its defining order, an abandoned one a prefix of it"""
    ages = [Fraction(a) for a in c["ages"]]
    if want_p == "undefined":
        if exc is not None and not deliberate(exc):
            ctx.fail("crash", "%s: earlier traversal %s crashed with %s (not a deliberate refusal)" % (where, pk, type(exc).__name__), c)
        return
    if exc is not None:
        ctx.fail("exception", "%s: earlier traversal %s raised %s where the statement defines the answer [%s]" % (
            where, pk, type(exc).__name__, fmt(want_p)), c)
        return
    partial = take is not None and pk not in ("apply", "len") and len(got_p) == take + 1 and len(want_p) > take + 1
    if pk in AGE:
        desc = "desc" in pk
        ok = monotone_age(got_p, ages, desc) and len(set(map(str, got_p))) == len(got_p) and set(map(str, got_p)) <= set(map(str, want_p))
        if not partial:
            ok = ok and sorted(map(str, got_p)) == sorted(map(str, want_p))
        else:   # abandoned: what was yielded must be the smallest (largest) ages so far
            rest = [ages[i] for i in want_p if i not in got_p]
            if got_p and rest:
                last = ages[got_p[-1]]
                ok = ok and all((a <= last) if desc else (a >= last) for a in rest)
        if not ok:
            ctx.fail("age-order", "%s: earlier traversal %s yielded [%s]; passing nodes are [%s]" % (where, pk, fmt(got_p), fmt(want_p)), c)
        return
    exp = want_p[:take + 1] if partial else want_p
    if fmt(got_p) != fmt(exp):
        ctx.fail(classify(dict(c, kind=pk, acc=None), got_p, want_p, "order"), "%s: earlier traversal %s%s visited [%s], defining order%s is [%s]" % (
            where, pk, " (abandoned)" if partial else "", fmt(got_p), " (prefix)" if partial else "", fmt(exp)), c)


def fmt(x):
    return x if isinstance(x, str) else " ".join(str(i) for i in x)


def normalise(c):
    """fill the fields older replay files do not have"""
    c = dict(c)
    if "via" not in c:
        c["via"] = "tree" if c.get("via_tree") else "node"
    c.setdefault("incl", False)
    c.setdefault("fstyle", "bool")
    c.setdefault("fsalt", 0)
    c.setdefault("nodecls", "plain")
    c.setdefault("alt", False)
    c.setdefault("prior", [])
    c.setdefault("start2", 0)
    c.setdefault("sched", "")
    c.setdefault("gk", "ll")
    for k in ("tax", "tlabs", "labs", "lens"):
        c.setdefault(k, None)
    c.setdefault("prep", [])
    c.setdefault("q", 0)
    return c


def one_case(ctx, dendropy, c, pending):
    c = normalise(c)
    kind, start, via = c["kind"], c["start"], c["via"]
    w = World(dendropy, c["tree"], c["nodecls"], c)
    if w.state:
        for entry in w.prep_log:
            ctx.count("prep_" + entry.split(":")[0])
            if not entry.endswith((":ok", ":skipped")):
                ctx.count("prep_refused")
        if not w.consistent:
            # the preparation left child lists and parent pointers in disagreement (or no seed): not a tree shape, and
            # not this property's business
            ctx.count("prep_left_no_tree")
            return
        # indices of a state case refer to the numbering AFTER the preparation; fold them into range (idempotent)
        c["start"] = start = (0 if via == "tree" else start % w.n)
        c["start2"] = c["start2"] % w.n
        c["ages"] = [c["ages"][i % len(c["ages"])] for i in range(w.n)]
        if c["acc"] is not None:
            c["acc"] = sorted(i for i in c["acc"] if i < w.n)
    seed = w.nodes[start]
    obj = None
    if via == "tree":
        if start != 0:
            raise ValueError("via=tree needs start 0")
        obj = w.tree
    elif via == "subtree":
        obj = w.tree if start == 0 else dendropy.Tree(seed_node=seed)   # splices the node out of its parent
    ages = [Fraction(a) for a in c["ages"]]
    if kind in AGE and c["fstyle"] in STATEFUL:
        c["fstyle"] = "bool"        # ties in age leave the call order open: no stateful predicates there
    want = oracle(c, w, seed)
    want_nofilter = oracle(dict(c, acc=None), w, seed)   # the items the iterator is defined over = what the filter must be shown, in this order
    has_filter = c["acc"] is not None and kind not in UNFILTERED
    # the items the filter must be shown: the unfiltered defining order (find_node: the pre-order it searches)
    universe = oracle(dict(c, kind="findnodes", acc=None), w, seed) if kind == "findnode" else want_nofilter
    if has_filter and c["fstyle"] in STATEFUL and isinstance(universe, list):
        # a stateful predicate: shown the items of the defining order one by one, each once, it keeps these
        kept = [x for n_, x in enumerate(universe) if stateful_answer(c["fstyle"], c["fsalt"], n_)]
        if kind == "findnode":
            want = kept[:1] if kept else ["-"]
        elif kind in FIND and kind != "findnodes":
            pass
        else:
            want = kept
    rec = {"calls": [], "cand": set(universe) if isinstance(universe, list) else None}
    want_prior = [oracle(dict(c, kind=pk, acc=None, alt=False), w, seed) for pk, take in c["prior"]]
    where = "%s via %s from node %d (filter %s/%s, node class %s%s)" % (
        kind, via, start, c["acc"], c["fstyle"], c["nodecls"],
        "".join(", after %s%s" % (pk, "" if take is None else " abandoned after %d items" % (take + 1)) for pk, take in c["prior"]))
    got, refused, refusal_ok = None, None, True
    try:
        with time_limit(10):
            # earlier traversals of the same objects (drained, or abandoned after a few items): a traversal is a read-only
            # walk, so what the judged traversal must yield is still the defining order of the tree as it was built
            for (pk, take), want_p in zip(c["prior"], want_prior):
                got_p, exc = None, None
                try:
                    got_p = impl(dict(c, kind=pk, acc=None, alt=False), w, seed, obj, cap=take)
                except Exception as e:
                    if not common.is_library_exception(e):
                        raise
                    exc = e
                judge_prior(ctx, c, w, pk, take, want_p, got_p, exc, where)
            got = impl(c, w, seed, obj, rec=rec)
    except WrongKind as e:
        ctx.count("filter_" + c["fstyle"])
        ctx.case([c["tree"], kind, start, via, c["excl"], c["acc"], c["fstyle"], c["nodecls"], c["prep"]], True, sample=c, kind=kind)
        ctx.fail("filter-called-on-wrong-item", "%s: the filter was called with %s, which is not among the items this iterator is "
                 "defined over [%s] (calls so far: [%s]); a predicate that only makes sense on those items raises" % (
                     where, e.args[0], fmt(universe), fmt(rec["calls"])), c)
        return
    except common.Timeout:
        ctx.fail("hang", "%s: this sequence of traversals does not terminate within 10 s" % where, c)
        return
    except Exception as e:
        if not common.is_library_exception(e):
            raise
        refused = type(e).__name__
        refusal_ok = deliberate(e)
    filtered = c["acc"] is not None and kind not in UNFILTERED
    nontrivial = (start != 0 or filtered or c["nodecls"] != "plain" or kind in ("apply", "in", "inedge", "anc", "levelsched", "gensched")
                  or kind in AGE or kind in FIND or kind in NEIGHBOURS or bool(c["prep"]) or bool(c["tax"]))
    ctx.case([c["tree"], kind, start, via, c["excl"], c["incl"], c["acc"], c["fstyle"], c["nodecls"], c["alt"], c["prior"],
              [c["start2"], c["sched"], c["gk"]] if kind in ("levelsched", "gensched") else None, c["ages"] if kind in AGE else None,
              [c["tax"], c["tlabs"], c["labs"], c["lens"], c["prep"], c["q"]] if w.state else None], nontrivial, sample=c, kind=kind)
    if w.state:
        count_state(ctx, c, w)
    if c["prior"]:
        ctx.count("after_earlier_traversals")
    if c["nodecls"] != "plain":
        ctx.count("falsy_node_class")
    if filtered and c["fstyle"] != "bool":
        ctx.count("filter_" + c["fstyle"])
    if via == "subtree" and start != 0:
        ctx.count("tree_on_spliced_subtree")
    desc = "desc" in kind
    if want == "undefined":
        # in-order on a subtree that is not strictly binary: the statement defines nothing; refusing (an exception of any
        # class raised on purpose by library code) is fine, a crash from deep inside is not
        ctx.count("inorder_undefined_" + ("refused" if refused else "answered"))
        if refused and not refusal_ok:
            ctx.fail("crash", "%s: crashed with %s on a non-binary subtree (not a deliberate refusal)" % (where, refused), c)
        canon = "refused" if refused else None
    elif refused is not None:
        ctx.fail("exception", "%s: raised %s where the statement defines the answer [%s]" % (where, refused, fmt(want)), c)
        canon = "raised"
    elif kind in AGE:
        ok_set = sorted(map(str, got)) == sorted(map(str, want))
        if not ok_set:
            ctx.fail(classify(c, got, want_nofilter, "age-order"),
                     "%s: yielded [%s]; the nodes that pass are [%s], each must appear exactly once" % (where, fmt(got), fmt(want)), c)
        elif not monotone_age(got, ages, desc):
            ctx.fail("age-order", "%s: yielded [%s] with ages [%s]: not monotone" % (
                where, fmt(got), " ".join(str(ages[i]) for i in got)), c)
        canon = age_canon(got, ages)
    else:
        if fmt(got) != fmt(want):
            ctx.fail(classify(c, got, want_nofilter, "order"),
                     "%s: visited [%s], defining order is [%s]" % (where, fmt(got), fmt(want)), c)
        canon = fmt(got)
    if canon is None:
        return
    calls = None
    if has_filter and refused is None and isinstance(universe, list) and isinstance(want, list):
        # the arguments the filter was called with: exactly the items the iterator is defined over, each once, in the
        # defining order (find_node stops at its first hit; age order up to ties)
        calls = rec["calls"]
        want_calls = universe
        if kind == "findnode":
            hit = want[0] if want and want[0] != "-" else None
            want_calls = universe[:universe.index(hit) + 1] if hit in universe else universe
        if kind in AGE:
            ok_calls = sorted(map(str, calls)) == sorted(map(str, want_calls)) and monotone_age(calls, ages, desc)
        else:
            ok_calls = fmt(calls) == fmt(want_calls)
        ctx.count("filter_call_sequences_judged")
        if not ok_calls:
            ctx.fail("filter-calls", "%s: the filter was called with [%s]; the items this iterator is defined over, in its order, are "
                     "[%s] (each must be shown to the filter exactly once, nothing else)" % (where, fmt(calls), fmt(want_calls)), c)
    acc = c["acc"]
    if has_filter and c["fstyle"] in STATEFUL and isinstance(want, list):
        acc = [i for i in want if isinstance(i, int)] if kind != "findnode" else (
            [i for n_, i in enumerate(universe) if stateful_answer(c["fstyle"], c["fsalt"], n_)])
    filt = "*" if (acc is None or kind in UNFILTERED) else ("-" if not acc else ",".join(str(i) for i in sorted(acc)))
    line = "iter %s %d %d %d %d %s %s %s" % (
        kind, start, 1 if (via == "subtree" and start != 0) else 0, 1 if c["excl"] else 0, 1 if c["incl"] else 0, filt,
        ",".join(tu.frac(a) for a in ages) if kind in AGE else (
            "%d:%s" % (c["start2"], c["sched"] or "0") if kind == "levelsched" else (
                "%s:%d:%s" % (c["gk"], c["start2"], c["sched"] or "0") if kind == "gensched" else find_field(c, w))), " ".join(w.toks))
    pending.append((line, c, canon))
    if calls is not None and kind != "findnode":
        # the machine shows its filter every item it pops that reaches the test: its call sequence is its own output under
        # the filter that accepts everything
        toks_ = line.split(" ")
        if kind in CALLS_KIND:
            # the traced machine (Model/C15Calls.lean, filter_calls_spec / internal_filter_calls_spec) run with the real filter:
            # the items it shows to the filter
            toks_[1] = CALLS_KIND[kind]
        else:
            toks_[6] = "*"
        pending.append((" ".join(toks_), c, age_canon(calls, ages) if kind in AGE else fmt(calls)))
    if kind in ("adjacent", "siblings"):   # the pointer-level reading (…_pointer_refinement) must say the same
        pending.append((line.replace("iter %s " % kind, "iter %sptr " % kind, 1), c, canon))
    if kind == "apply":   # the pointer-level loop over the parent array (apply_pointer_refinement) must say the same
        pending.append((line.replace("iter apply ", "iter applyptr ", 1), c, canon))
    if kind == "level" and not filtered and isinstance(got, list):
        # the heap generator, one next() at a time (levelorder_generator_spec): the whole output, then StopIteration
        toks_ = line.split(" ")
        toks_[1], toks_[7] = "levelgen", str(len(got) + 1)
        pending.append((" ".join(toks_), c, (canon + " -").strip()))
    if kind == "apply":   # the zipper machine (apply_zipper_refinement_partial) must say the same
        pending.append((line.replace("iter apply ", "iter applyzip ", 1), c, canon))
    if kind == "anc":   # the pointer-level climb over the parent array (ancestor_pointer_refinement) must say the same
        pending.append((line.replace("iter anc ", "iter ancptr ", 1), c, canon))


def find_field(c, w):
    """the query of the find_node_with_* kinds in protocol form: a label as hex, the indices of the taxa whose label is
    asked for (or `-`), the index of the taxon object asked for"""
    kind = c["kind"]
    if kind == "findlabel":
        return common.hex6("L%d" % c["q"])
    if kind == "findtaxlabel":
        hit = [str(k) for k, t in enumerate(w.taxa) if t.label == "T%d" % c["q"]]
        return ",".join(hit) if hit else "-"
    if kind == "findtaxon":
        return str(c["q"] % len(w.taxa)) if w.taxa else "-"
    return "-"


def count_state(ctx, c, w):
    """distribution of the state classes into the evidence"""
    ops = [st[0] for st in c["prep"]]
    edits = {"prune_subtree", "remove_child", "new_child", "new_taxon_child", "add_child", "insert_child", "collapse_edge",
             "prune_labels", "retain_labels", "reseed", "reroot", "reseed_at", "resolve", "suppress"}
    ctx.count("state_cases")
    if not ops:
        ctx.count("state_fresh_with_taxa")
    if "encode" in ops or "update" in ops:
        last_enc = max(i for i, o in enumerate(ops) if o in ("encode", "update"))
        stale = any(o in edits for o in ops[last_enc + 1:])
        ctx.count("state_encoded_then_edited_without_update" if stale else "state_encoded_current")
    if any(o in ("ages", "rootdist", "pdm", "ndm", "bipmap") for o in ops):
        ctx.count("state_other_caches_populated")
    if any(o in ("reseed", "reroot", "reseed_at") for o in ops):
        ctx.count("state_seed_reassigned")
    if "clone" in ops:
        ctx.count("state_cloned")
    leaves = [x for x in w.nodes if not x._child_nodes]
    lt = [x.taxon for x in leaves]
    if any(t is None for t in lt):
        ctx.count("state_taxonless_tips")
    if len({id(t) for t in lt if t is not None}) < len([t for t in lt if t is not None]):
        ctx.count("state_duplicate_taxon_tips")
    enc = getattr(w.tree, "bipartition_encoding", None)
    if enc:
        ctx.count("state_stored_encoding_present")


def classify(c, got, unfiltered, default):
    """give the two documented truthiness defects their own failure kinds (exactly those, nothing else on the same input):
    falsy-node-dropped: no filter given, node class falsy, and the answer is the defining order minus every falsy node/edge
                        (all of them are falsy, so: nothing is yielded / len is 0);
    falsy-filter-ignored: the filter object is falsy and the answer is exactly the unfiltered defining order"""
    kind = c["kind"]
    filtered = c["acc"] is not None and kind not in UNFILTERED
    if kind == "apply" and c["fstyle"] == "falsyfn" and isinstance(unfiltered, list) and got == [e for e in unfiltered if not e.startswith("l")]:
        return "falsy-callback-ignored"     # `if leaf_fn:` - a callback that is a falsy callable is never called
    if kind in ("adjacent", "siblings") and c["nodecls"] != "plain" and isinstance(unfiltered, list):
        # `if self._parent_node:` / `if not p:` - a falsy parent is taken for 'no parent'
        if (kind == "siblings" and got == []) or (kind == "adjacent" and got == unfiltered[:-1]):
            return "falsy-parent-ignored"
    if c["nodecls"] != "plain" and not filtered and kind in (
            "preint", "postint", "leaf", "len", "leafnodes", "internalnodes", "leafedges", "internaledges", "leafedge",
            "preintedge", "postintedge"):
        if (kind == "len" and got == [0]) or (kind != "len" and got == []):
            return "falsy-node-dropped"
    if filtered and c["fstyle"] == "falsyfn" and kind in ("preint", "postint", "leaf", "preintedge", "postintedge"):
        if fmt(got) == fmt(unfiltered) or (c["nodecls"] != "plain" and got == []):   # second: both defects composed
            return "falsy-filter-ignored"
    return default


def flush(ctx, pending):
    outs = ctx.ask([p[0] for p in pending])
    for (line, c, canon), m in zip(pending, outs):
        if m is None:
            continue
        ctx.compared()
        m = m.strip()
        if c["kind"] in AGE and m and not m.startswith("bad"):
            m = age_canon([int(x) for x in m.split()], [Fraction(a) for a in c["ages"]])
        if m == "TypeError":
            m = "refused"
        if m != canon.strip():
            ctx.disagree("iter " + c["kind"], c, canon, m)
    del pending[:]


# ---------------------------------------------------------------- generation
def gen_toks(dendropy, rng, max_leaves):
    r = rng.random()
    n = rng.randint(1, max_leaves)
    if r < 0.12:
        shape = rng.choice(tu.shape_families(n))
    elif r < 0.3:
        shape = tu.rand_shape(rng, n, p_poly=0.0, p_unary=0.0)   # binary: in-order applies
    else:
        shape = tu.rand_shape(rng, n, p_poly=rng.choice([0.1, 0.3, 0.6]), p_unary=rng.choice([0.0, 0.1, 0.3]))
    return shape_toks(dendropy, shape, n)


def shape_toks(dendropy, shape, n):
    tns = tu.make_namespace(dendropy, n)
    tree = tu.build_tree(dendropy, shape, tns, list(tns), None, None)
    toks, ids = tu.encode_tree(tree)
    return toks, len(ids)


def make_case(rng, toks, n, kind, start=None, via=None, max_age=6):
    if via is None:
        if kind in TREE_ONLY:
            via = "tree" if rng.random() < 0.5 else "subtree"
        elif kind in NODE_ONLY:
            via = "node"
        else:
            via = rng.choice(["node", "node", "tree", "subtree"])
    if start is None:
        start = 0 if via == "tree" else rng.randrange(n)
    if via == "tree":
        start = 0
    acc = None if rng.random() < 0.4 else sorted(i for i in range(n) if rng.random() < rng.choice([0.2, 0.5, 0.8]))
    prior = []
    if rng.random() < 0.35:
        pool = BOTH + (NODE_ONLY if via == "node" else TREE_ONLY)
        for _ in range(rng.choice([1, 1, 2])):
            prior.append([rng.choice(pool) if rng.random() < 0.7 else rng.choice(["level", "level", "post", "pre", "leaf"]),
                          None if rng.random() < 0.5 else rng.randrange(0, 4)])
    r = rng.random()
    extra = {}
    if kind in ("levelsched", "gensched"):
        extra = {"start2": rng.randrange(n), "sched": "".join(rng.choice("01") for _ in range(rng.randint(1, 2 * n + 3))),
                 "gk": rng.choice(["pl", "lp", "pp", "ll", "ol", "po", "oo", "fo", "lf", "fp", "of"])}
    return dict(extra, **{"prior": prior, "tree": toks, "kind": kind, "start": start, "via": via, "excl": rng.random() < 0.5, "incl": rng.random() < 0.5,
            "acc": acc, "fstyle": ("bool" if r < 0.25 else "mixed" if r < 0.55 else "falsyfn" if r < 0.65 else "partial" if r < 0.8
                       else "alternate" if r < 0.9 else "limit"), "fsalt": rng.randrange(8),
            "nodecls": "plain" if rng.random() < 0.6 else rng.choice(["nobool", "nolen"]), "alt": rng.random() < 0.3,
            "ages": [str(Fraction(rng.randint(0, max_age), 2)) for _ in range(n)]})


CACHES = ["ages", "rootdist", "pdm", "ndm", "bipmap", "drain"]
EDITS = ["prune_subtree", "remove_child", "new_child", "new_taxon_child", "add_child", "insert_child", "collapse_edge",
         "prune_labels", "retain_labels", "reseed", "reroot", "reseed_at", "resolve", "suppress", "ladderize"]


def make_step(rng, op, n, ntax):
    if op in ("encode", "update"):
        return [op, int(rng.random() < 0.3)]
    if op in ("prune_subtree", "remove_child", "reroot", "reseed_at"):
        return [op, rng.randrange(n), int(rng.random() < 0.5)]
    if op in ("new_child", "new_taxon_child", "add_child", "collapse_edge", "reseed"):
        return [op, rng.randrange(n)]
    if op == "insert_child":
        return [op, rng.randrange(n), rng.randrange(4)]
    if op in ("prune_labels", "retain_labels"):
        return [op, sorted(rng.sample(range(max(ntax, 1)), rng.randint(1, max(1, min(3, ntax))))), int(rng.random() < 0.5)]
    if op == "ladderize":
        return [op, int(rng.random() < 0.5)]
    if op == "resolve":
        return [op, rng.randrange(1000)]
    if op == "clone":
        return [op, rng.choice([1, 2, 3])]
    return [op]


def make_state(rng, toks, n):
    """the state fields of a case: taxa on the tips (all distinct / some tips without / two tips sharing one / also on
    inner nodes / none), labels, edge lengths, and a preparation: nothing, a stored bipartition encoding, an encoding
    followed by structural edits that leave it stale (update_bipartitions is False by default everywhere), other
    caches (ages, root distances, distance matrices, bipartition maps), seed reassignment, cloning"""
    par = [int(x) for x in toks[1:1 + n]]
    leaf = [i for i in range(n) if i not in par]
    mode = rng.choice(["all", "all", "some", "some", "dup", "dup", "inner", "none"])
    tax = [None] * n
    k = 0
    for i in leaf:
        if mode == "none" or (mode == "some" and rng.random() < 0.4):
            continue
        if mode == "dup" and k > 0 and rng.random() < 0.4:
            tax[i] = rng.randrange(k)
            continue
        tax[i] = k
        k += 1
    if mode == "inner":
        for i in range(n):
            if i not in leaf and rng.random() < 0.4:
                tax[i] = k if rng.random() < 0.7 or k == 0 else rng.randrange(k)
                k = max(k, tax[i] + 1)
    tlabs = list(range(k))
    if k > 1 and rng.random() < 0.2:      # two taxa carrying the same label
        tlabs[rng.randrange(1, k)] = tlabs[0]
    labs = [None if rng.random() < 0.4 else rng.randrange(4) for _ in range(n)]
    r = rng.random()
    lens = [None if (r < 0.2 and rng.random() < 0.3) else tu.frac(tu.dyadic(rng)) for _ in range(n)]
    cls = rng.random()
    prep = []
    if cls < 0.15:
        pass                                                                # (a) fresh, (d) odd taxa only
    elif cls < 0.30:
        prep = [make_step(rng, "encode", n, k)]                             # (b) stored encoding, current
    elif cls < 0.65:                                                        # (c) stored encoding gone stale
        prep = [make_step(rng, "encode", n, k)]
        for _ in range(rng.randint(1, 3)):
            prep.append(make_step(rng, rng.choice(EDITS), n, k))
        if rng.random() < 0.2:
            prep.append(make_step(rng, "update", n, k))
            if rng.random() < 0.5:
                prep.append(make_step(rng, rng.choice(EDITS), n, k))
    elif cls < 0.85:                                                        # (e) other caches, seed reassignment, clones
        for _ in range(rng.randint(1, 3)):
            prep.append(make_step(rng, rng.choice(CACHES + CACHES + ["reseed", "reroot", "reseed_at", "clone", "encode"]), n, k))
        if rng.random() < 0.5:
            prep.append(make_step(rng, rng.choice(EDITS), n, k))
    else:                                                                   # anything
        for _ in range(rng.randint(1, 5)):
            prep.append(make_step(rng, rng.choice(CACHES + EDITS + ["encode", "encode", "update", "clone"]), n, k))
    return {"tax": tax, "tlabs": tlabs, "labs": labs, "lens": lens, "prep": prep, "q": rng.randrange(max(k, 4))}


def make_state_case(dendropy, rng, toks, n, kind):
    """a state case: the indices (start, filter, ages) are drawn for the tree as it is AFTER the preparation"""
    st = make_state(rng, toks, n)
    nodecls = "plain" if rng.random() < 0.8 else rng.choice(["nobool", "nolen"])
    w = World(dendropy, toks, nodecls, st)
    c = make_case(rng, toks, max(w.n, 1), kind)
    c.update(st)
    c["nodecls"] = nodecls
    return c


# ---------------------------------------------------------------- depth / size sweep (oracle only)
DEEP_SHAPES = ["ladder-1200-inner-first", "ladder-3000-leaf-first", "star-3000", "chain-2000"]


def deep_build(dendropy, shape):
    """big trees built directly from Node objects; returns (tree, nodes in creation order)"""
    Node = dendropy.Node
    nodes = [Node()]
    root = nodes[0]
    kind, size = shape.split("-")[0], int(shape.split("-")[1])
    cur = root
    if kind == "ladder":
        for _ in range(size):
            inner, leaf = Node(), Node()
            nodes.extend([inner, leaf])
            for ch in ([inner, leaf] if shape.endswith("inner-first") else [leaf, inner]):
                cur.add_child(ch)
            cur = inner
        a, b = Node(), Node()
        nodes.extend([a, b])
        cur.add_child(a)
        cur.add_child(b)
    elif kind == "star":
        for _ in range(size):
            nodes.append(cur.add_child(Node()))
    elif kind == "chain":
        for _ in range(size):
            nd = Node()
            nodes.append(nd)
            cur.add_child(nd)
            cur = nd
    else:
        raise ValueError(shape)
    return dendropy.Tree(seed_node=root), nodes


def it_pre(root):
    out, stack = [], [root]
    while stack:
        nd = stack.pop()
        out.append(nd)
        stack.extend(reversed(nd._child_nodes))
    return out


def it_post(root):
    out, stack = [], [(root, False)]
    while stack:
        nd, done = stack.pop()
        if done:
            out.append(nd)
        else:
            stack.append((nd, True))
            stack.extend((ch, False) for ch in reversed(nd._child_nodes))
    return out


def it_in(root):
    out, stack = [], [(root, False)]
    while stack:
        nd, mid = stack.pop()
        k = len(nd._child_nodes)
        if mid or k == 0:
            out.append(nd)
        elif k == 2:
            stack.append((nd._child_nodes[1], False))
            stack.append((nd, True))
            stack.append((nd._child_nodes[0], False))
        else:
            return "undefined"
    return out


def it_brackets(root, nid):
    out, stack = [], [(root, False)]
    while stack:
        nd, done = stack.pop()
        if done:
            out.append("a%d" % nid(nd))
        elif not nd._child_nodes:
            out.append("l%d" % nid(nd))
        else:
            out.append("b%d" % nid(nd))
            stack.append((nd, True))
            stack.extend((ch, False) for ch in reversed(nd._child_nodes))
    return out


DEEP_KINDS = ["pre", "post", "level", "leaf", "in", "preint", "postint", "ageasc", "agedescint", "anc", "apply", "len", "iter",
              "preedge", "postedge", "leveledge", "leafedge", "inedge", "preintedge", "postintedge",
              "nodes", "leafnodes", "internalnodes", "edges", "leafedges", "internaledges", "findnode", "tree-pre", "tree-post",
              "tree-level", "tree-leaf", "tree-preint", "tree-postint", "tree-apply"]


def deep_case(ctx, dendropy, shape, kind, prepared=None):
    """one entry point on one big tree, judged by the iterative from-scratch oracle; a RecursionError (or any other
    exception where the statement defines the answer) and a wrong order are failures"""
    if prepared is not None:
        return deep_judge(ctx, dendropy, shape, kind, *prepared)
    tree, nodes = deep_build(dendropy, shape)
    return deep_judge(ctx, dendropy, shape, kind, tree, nodes, deep_orders(tree, nodes))


def deep_orders(tree, nodes):
    """the defining orders of a big tree, computed once, iteratively, from the child lists"""
    root = tree.seed_node
    pre, post = it_pre(root), it_post(root)
    level, cur = [], [root]
    while cur:
        level.extend(cur)
        cur = [ch for x in cur for ch in x._child_nodes]
    nmap = {id(nd): i for i, nd in enumerate(nodes)}
    return pre, post, level, it_in(root), it_brackets(root, lambda x: nmap[id(x)])


def deep_judge(ctx, dendropy, shape, kind, tree, nodes, orders):
    root = tree.seed_node
    nmap = {id(nd): i for i, nd in enumerate(nodes)}
    emap = {id(nd.edge): i for i, nd in enumerate(nodes)}
    nid = lambda x: nmap.get(id(x), "?")
    eid = lambda e: emap.get(id(e), "?")
    pre, post, level, inord, brackets = orders
    leaf = lambda x: not x._child_nodes
    parent = {id(ch): nd for nd in pre for ch in nd._child_nodes}
    deepest = level[-1]
    chain, x = [], deepest
    while id(x) in parent:
        x = parent[id(x)]
        chain.append(x)
    ages = {id(nd): i % 7 for i, nd in enumerate(nodes)}
    I = lambda l: [nid(x) for x in l]
    rep = {"deep": shape, "kind": kind}
    ctx.case(["deep", shape, kind], True, sample=rep, kind="deep-" + kind)
    N = lambda it: [nid(x) for x in it]
    E = lambda it: [eid(x) for x in it]
    ev = []
    cb = dict(before_fn=lambda x: ev.append("b%s" % nid(x)), after_fn=lambda x: ev.append("a%s" % nid(x)),
              leaf_fn=lambda x: ev.append("l%s" % nid(x)))
    table = {
        "pre": (lambda: N(root.preorder_iter()), I(pre)), "post": (lambda: N(root.postorder_iter()), I(post)),
        "level": (lambda: N(root.levelorder_iter()), I(level)), "leaf": (lambda: N(root.leaf_iter()), I(x for x in pre if leaf(x))),
        "in": (lambda: N(root.inorder_iter()), inord if inord == "undefined" else I(inord)),
        "preint": (lambda: N(root.preorder_internal_node_iter(exclude_seed_node=True)), I(x for x in pre[1:] if not leaf(x))),
        "postint": (lambda: N(root.postorder_internal_node_iter()), I(x for x in post if not leaf(x))),
        "anc": (lambda: N(deepest.ancestor_iter(inclusive=True)), I([deepest] + chain)),
        "apply": (lambda: (root.apply(**cb), ev)[1], brackets),
        "tree-apply": (lambda: (tree.apply(**cb), ev)[1], brackets),
        "len": (lambda: [len(tree)], [len([x for x in pre if leaf(x)])]), "iter": (lambda: N(iter(tree)), I(pre)),
        "tree-pre": (lambda: N(tree.preorder_node_iter()), I(pre)), "tree-post": (lambda: N(tree.postorder_node_iter()), I(post)),
        "tree-level": (lambda: N(tree.levelorder_node_iter()), I(level)), "tree-leaf": (lambda: N(tree.leaf_node_iter()), I(x for x in pre if leaf(x))),
        "tree-preint": (lambda: N(tree.preorder_internal_node_iter()), I(x for x in pre if not leaf(x))),
        "tree-postint": (lambda: N(tree.postorder_internal_node_iter(exclude_seed_node=True)), I(x for x in post if not leaf(x) and x is not root)),
        "preedge": (lambda: E(tree.preorder_edge_iter()), I(pre)), "postedge": (lambda: E(tree.postorder_edge_iter()), I(post)),
        "leveledge": (lambda: E(tree.levelorder_edge_iter()), I(level)), "leafedge": (lambda: E(tree.leaf_edge_iter()), I(x for x in pre if leaf(x))),
        "inedge": (lambda: E(tree.inorder_edge_iter()), inord if inord == "undefined" else I(inord)),
        "preintedge": (lambda: E(tree.preorder_internal_edge_iter()), I(x for x in pre if not leaf(x))),
        "postintedge": (lambda: E(tree.postorder_internal_edge_iter(exclude_seed_edge=True)), I(x for x in post if not leaf(x) and x is not root)),
        "nodes": (lambda: N(tree.nodes()), I(pre)), "leafnodes": (lambda: N(tree.leaf_nodes()), I(x for x in pre if leaf(x))),
        "internalnodes": (lambda: N(tree.internal_nodes()), I(x for x in pre if not leaf(x))),
        "edges": (lambda: E(tree.edges()), I(pre)), "leafedges": (lambda: E(tree.leaf_edges()), I(x for x in pre if leaf(x))),
        "internaledges": (lambda: E(tree.internal_edges(exclude_seed_edge=True)), I(x for x in pre[1:] if not leaf(x))),
        "findnode": (lambda: N([tree.find_node(lambda x: x is deepest)]), I([deepest])),
    }
    if kind in ("ageasc", "agedescint"):
        for nd in nodes:
            nd.age = float(ages[id(nd)])
        desc = kind == "agedescint"
        try:
            with time_limit(30):
                got = list(root.ageorder_iter(include_leaves=not desc, descending=desc))
        except Exception as e:
            if not common.is_library_exception(e):
                raise
            ctx.fail("deep-exception", "%s on %s raised %s" % (kind, shape, type(e).__name__), rep)
            return
        want = [x for x in pre if not (desc and leaf(x))]
        vals = [ages[id(x)] for x in got]
        if sorted(N(got), key=str) != sorted(I(want), key=str) or any((a < b) if desc else (a > b) for a, b in zip(vals, vals[1:])):
            ctx.fail("age-order", "%s on %s: %d nodes yielded, %d expected, or ages not monotone" % (kind, shape, len(got), len(want)), rep)
        return
    fn, want = table[kind]
    try:
        with time_limit(30):
            got = fn()
    except common.Timeout:
        ctx.fail("hang", "%s on %s does not finish within 30 s" % (kind, shape), rep)
        return
    except Exception as e:
        if not common.is_library_exception(e):
            raise
        if want == "undefined" and deliberate(e):
            return
        ctx.fail("deep-recursion" if isinstance(e, RecursionError) else "deep-exception",
                 "%s on the tree %s (%d nodes) raised %s where the statement defines the answer (%s items): the traversal is "
                 "bounded by the interpreter stack, not by the tree" % (kind, shape, len(nodes), type(e).__name__,
                                                                      len(want) if isinstance(want, list) else want), rep)
        return
    if want == "undefined":
        return
    if got != want:
        k = next((i for i, (a, b) in enumerate(zip(got, want)) if a != b), min(len(got), len(want)))
        ctx.fail("order", "%s on the tree %s: %d items, %d expected; first difference at position %d (%s vs %s)" % (
            kind, shape, len(got), len(want), k, got[k] if k < len(got) else "end", want[k] if k < len(want) else "end"), rep)


def deep_sweep(ctx, dendropy):
    """every run: every iterator / list form / apply / len once on each big tree (ladders 1 200 and 3 000 deep, a
    3 000-child star, a 2 000-level unary chain) - the statement quantifies over all shapes and sizes"""
    for shape in DEEP_SHAPES:
        tree, nodes = deep_build(dendropy, shape)
        prepared = (tree, nodes, deep_orders(tree, nodes))     # traversals are read-only: one tree serves every kind
        for kind in DEEP_KINDS:
            deep_case(ctx, dendropy, shape, kind, prepared)
            ctx.count("deep_sweep_cases")


def run(ctx):
    dendropy = __import__("dendropy")
    rng = ctx.rng
    ctx.set_budget(35, 420)
    deep_sweep(ctx, dendropy)
    pending = []
    ncases = ctx.pick(6000, 120000)
    max_leaves = ctx.pick(12, 40)
    for k in range(ncases):
        if ctx.out_of_time():
            break
        toks, n = gen_toks(dendropy, rng, max_leaves if rng.random() < 0.9 else 3)
        kind = rng.choice(KINDS)
        if kind in NEEDS_STATE or rng.random() < 0.35:
            if kind not in NEEDS_STATE and rng.random() < 0.25:
                kind = rng.choice(["len", "len", "leafnodes", "nodes", "leaf", "leafedges", "internalnodes", "edges"])
            one_case(ctx, dendropy, make_state_case(dendropy, rng, toks, n, kind), pending)
        else:
            one_case(ctx, dendropy, make_case(rng, toks, n, kind), pending)
        if len(pending) >= 500:
            flush(ctx, pending)
    flush(ctx, pending)
    if ctx.tier == "thorough":
        # exhaustive: every shape <= 6 leaves (no unary nodes) x kind x start, without a filter and with one random filter
        ctx.budget_s = (ctx.budget_s or 420) + 240
        count = 0
        for n in range(1, 7):
            for shape in tu.all_shapes(n):
                if ctx.out_of_time():
                    break
                toks, nn = shape_toks(dendropy, shape, n)
                for kind in KINDS:
                    for start in range(nn):
                        for with_filter in (False, True):
                            via = ("tree" if start == 0 else "subtree") if kind in TREE_ONLY else (
                                "node" if (kind in NODE_ONLY or start != 0 or rng.random() < 0.5) else "tree")
                            c = make_case(rng, toks, nn, kind, start=start, via=via, max_age=3)
                            if kind in NEEDS_STATE:
                                c.update(make_state(rng, toks, nn), prep=[])
                            if not with_filter:
                                c["acc"] = None
                            elif c["acc"] is None:
                                c["acc"] = sorted(i for i in range(nn) if rng.random() < 0.5)
                            one_case(ctx, dendropy, c, pending)
                            count += 1
                if len(pending) >= 2000:
                    flush(ctx, pending)
        flush(ctx, pending)
        ctx.extra["exhaustive_small_scope"] = ("%d (shape<=6 leaves, kind, start) combinations, each without and with one "
                                               "random filter" % count)


def search(ctx, broken):
    """obligations broke (Gen/C15Filters no longer regenerates, or a bridge / theorem no longer builds) or model and code
    disagreed: hunt for a concrete input on which the real code contradicts the statement, aimed at what the bridges
    cover - the filter lambdas of the internal / leaf wrappers (falsy node and edge classes, falsy filter objects,
    excluded seeds on spliced subtrees, every filter answer style) and `len` (stored encodings gone stale, odd taxa,
    other caches)"""
    dendropy = __import__("dendropy")
    rng = ctx.rng
    t_end = __import__("time").time() + ctx.pick(25, 120)
    pending = []
    lam_kinds = ["preint", "postint", "preintedge", "postintedge", "leaf", "leafedge", "leafnodes", "leafedges",
                 "internalnodes", "internaledges", "len"]
    n_cases = 0
    while __import__("time").time() < t_end and n_cases < ctx.pick(6000, 40000) and len(ctx.failures) < 50:
        toks, n = gen_toks(dendropy, rng, 8)
        r = rng.random()
        if r < 0.5:
            c = make_case(rng, toks, n, rng.choice(lam_kinds))
            c["nodecls"] = rng.choice(NODECLS)
            c["fstyle"] = rng.choice(FSTYLES)
            c["excl"] = rng.random() < 0.7
        else:
            c = make_state_case(dendropy, rng, toks, n, rng.choice(["len", "len", "leaf", "leafnodes", "internalnodes", "preint"]))
        one_case(ctx, dendropy, c, pending)
        n_cases += 1
        if len(pending) >= 500:
            flush(ctx, pending)
    flush(ctx, pending)
    ctx.count("targeted_search_cases", n_cases)


def replay(ctx, rec):
    dendropy = __import__("dendropy")
    if "deep" in rec["replay"]:
        deep_case(ctx, dendropy, rec["replay"]["deep"], rec["replay"]["kind"])
        return
    pending = []
    one_case(ctx, dendropy, rec["replay"], pending)
    flush(ctx, pending)
