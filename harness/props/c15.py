"""C15 - every traversal visits each node or edge exactly once in its defining order."""
import treeutil as tu
from common import time_limit

ID = "C15"
GEN_DEPENDS = []
RULE = ("random rose trees (1-12 leaves quick, up to 40 thorough; unary nodes, polytomies, fixed families) x traversal kind "
        "x start node x filter (random subset of node ids or none); thorough adds every shape <= 6 leaves x every start; "
        "non-trivial = start node is not the seed, or a filter is given, or the kind is apply/in-order/age-order")
MODELLED_NOT_VERIFIED = [
    "C15: the Lean machines are hand-written from Node.preorder_iter/postorder_iter/levelorder_iter/leaf_iter/inorder_iter/"
    "ageorder_iter/apply and Tree.preorder_edge_iter/postorder_edge_iter; tied to the code by the per-case comparison of visit sequences",
    "C15: Python generator suspension (a tree mutated during iteration) is outside the statement; filters are sets of accepted node ids",
]
EXPLANATION = ("Theorems: each machine = its defining order for every tree, start and filter (preorder_spec, postorder_spec, "
               "levelorder_spec, leaf_spec, filtered_spec, internal_spec, edge_iter_spec, each_node_once, len_spec, apply_spec, "
               "ageorder_perm). In-order is recursive in the code and in the model alike (no machine to refine).")

KINDS = ["pre", "post", "level", "leaf", "in", "preint", "postint", "preedge", "postedge", "preintedge", "postintedge",
         "apply", "len", "ageasc", "agedesc", "ageascint", "agedescint"]
TREE_ONLY = {"preedge", "postedge", "preintedge", "postintedge", "len"}


# ---- independent oracle: the defining orders, computed by plain recursion on _child_nodes
def o_pre(nd):
    out = [nd]
    for c in nd._child_nodes:
        out.extend(o_pre(c))
    return out


def o_post(nd):
    out = []
    for c in nd._child_nodes:
        out.extend(o_post(c))
    out.append(nd)
    return out


def o_level(nd):
    out, level = [], [nd]
    while level:
        out.extend(level)
        level = [c for x in level for c in x._child_nodes]
    return out


def o_in(nd):
    k = len(nd._child_nodes)
    if k == 0:
        return [nd]
    if k != 2:
        raise TypeError
    return o_in(nd._child_nodes[0]) + [nd] + o_in(nd._child_nodes[1])


def o_brackets(nd, ids):
    if not nd._child_nodes:
        return ["l%d" % ids.of(nd)]
    out = ["b%d" % ids.of(nd)]
    for c in nd._child_nodes:
        out.extend(o_brackets(c, ids))
    out.append("a%d" % ids.of(nd))
    return out


def oracle(kind, tree, ids, start, excl, acc, ages):
    nd = ids.node(start)
    keep = (lambda x: True) if acc is None else (lambda x: ids.of(x) in acc)
    internal = lambda x: bool(x._child_nodes) and not (excl and x._parent_node is None)
    if kind in ("pre", "preedge"):
        return [ids.of(x) for x in o_pre(nd) if keep(x)]
    if kind in ("post", "postedge"):
        return [ids.of(x) for x in o_post(nd) if keep(x)]
    if kind == "level":
        return [ids.of(x) for x in o_level(nd) if keep(x)]
    if kind == "leaf":
        return [ids.of(x) for x in o_pre(nd) if not x._child_nodes and keep(x)]
    if kind == "in":
        try:
            return [ids.of(x) for x in o_in(nd) if keep(x)]
        except TypeError:
            return "TypeError"
    if kind in ("preint", "preintedge"):
        return [ids.of(x) for x in o_pre(nd) if internal(x) and keep(x)]
    if kind in ("postint", "postintedge"):
        return [ids.of(x) for x in o_post(nd) if internal(x) and keep(x)]
    if kind == "apply":
        return o_brackets(nd, ids)
    if kind == "len":
        return [len([x for x in o_pre(nd) if not x._child_nodes])]
    if kind.startswith("age"):
        # monotone age, each node once, ties in pre-order (stable)
        nds = o_pre(nd)
        desc = "desc" in kind
        order = sorted(range(len(nds)), key=lambda i: ((-ages[ids.of(nds[i])]) if desc else ages[ids.of(nds[i])], i))
        res = [nds[i] for i in order]
        if kind.endswith("int"):
            res = [x for x in res if x._child_nodes]
        return [ids.of(x) for x in res if keep(x)]
    raise ValueError(kind)


def impl(kind, tree, ids, start, excl, acc, ages, via_tree):
    nd = ids.node(start)
    nf = None if acc is None else (lambda x: ids.of(x) in acc)
    ef = None if acc is None else (lambda e: ids.of(e.head_node) in acc)
    try:
        if kind == "pre":
            it = tree.preorder_node_iter(nf) if via_tree else nd.preorder_iter(nf)
        elif kind == "post":
            it = tree.postorder_node_iter(nf) if via_tree else nd.postorder_iter(nf)
        elif kind == "level":
            it = tree.levelorder_node_iter(nf) if via_tree else nd.levelorder_iter(nf)
        elif kind == "leaf":
            it = tree.leaf_node_iter(nf) if via_tree else nd.leaf_iter(nf)
        elif kind == "in":
            it = tree.inorder_node_iter(nf) if via_tree else nd.inorder_iter(nf)
        elif kind == "preint":
            it = (tree.preorder_internal_node_iter(nf, excl) if via_tree else nd.preorder_internal_node_iter(nf, excl))
        elif kind == "postint":
            it = (tree.postorder_internal_node_iter(nf, excl) if via_tree else nd.postorder_internal_node_iter(nf, excl))
        elif kind == "preedge":
            return [ids.of(e.head_node) for e in tree.preorder_edge_iter(ef)]
        elif kind == "postedge":
            return [ids.of(e.head_node) for e in tree.postorder_edge_iter(ef)]
        elif kind == "preintedge":
            return [ids.of(e.head_node) for e in tree.preorder_internal_edge_iter(ef, excl)]
        elif kind == "postintedge":
            return [ids.of(e.head_node) for e in tree.postorder_internal_edge_iter(ef, excl)]
        elif kind == "apply":
            ev = []
            (tree if via_tree else nd).apply(before_fn=lambda x: ev.append("b%d" % ids.of(x)),
                                            after_fn=lambda x: ev.append("a%d" % ids.of(x)),
                                            leaf_fn=lambda x: ev.append("l%d" % ids.of(x)))
            return ev
        elif kind == "len":
            return [len(tree)]
        elif kind.startswith("age"):
            for i in range(len(ids)):
                ids.node(i).age = float(ages[i])
            desc = "desc" in kind
            incl = not kind.endswith("int")
            it = (tree.ageorder_node_iter(include_leaves=incl, filter_fn=nf, descending=desc) if via_tree
                  else nd.ageorder_iter(filter_fn=nf, include_leaves=incl, descending=desc))
        else:
            raise ValueError(kind)
        return [ids.of(x) for x in it]
    except TypeError:
        if kind == "in":
            return "TypeError"
        raise


def fmt(x):
    return x if isinstance(x, str) else " ".join(str(i) for i in x)


def edge_variants(tree, ids, start, acc):
    """levelorder/inorder/leaf edge iterators map the node iterators: checked against the oracle only"""
    out = []
    if start != 0:
        return out
    ef = None if acc is None else (lambda e: ids.of(e.head_node) in acc)
    out.append(("leveledge", [ids.of(e.head_node) for e in tree.levelorder_edge_iter(ef)], "level"))
    out.append(("leafedge", [ids.of(e.head_node) for e in tree.leaf_edge_iter(ef)], "leaf"))
    try:
        r = [ids.of(e.head_node) for e in tree.inorder_edge_iter(ef)]
    except TypeError:
        r = "TypeError"
    out.append(("inedge", r, "in"))
    return out


def one_case(ctx, dendropy, toks, kind, start, excl, acc, ages, via_tree, pending):
    tree, ids = tu.tree_from_tokens(dendropy, toks)
    case = {"tree": toks, "kind": kind, "start": start, "excl": excl, "acc": None if acc is None else sorted(acc),
            "ages": [str(a) for a in ages], "via_tree": via_tree}
    with time_limit(20):
        got = impl(kind, tree, ids, start, excl, acc, ages, via_tree)
    want = oracle(kind, tree, ids, start, excl, acc, ages)
    nontrivial = start != 0 or acc is not None or kind in ("apply", "in") or kind.startswith("age")
    ctx.case([toks, kind, start, excl, case["acc"], case["ages"] if kind.startswith("age") else None], nontrivial,
             sample=case, kind=kind)
    if fmt(got) != fmt(want):
        ctx.fail("order", "%s from node %d (filter %s): visited [%s], defining order is [%s]" % (
            kind, start, case["acc"], fmt(got), fmt(want)), case)
    if kind in ("level", "leaf", "in") and via_tree:
        for name, r, base in edge_variants(tree, ids, start, acc):
            if base == kind and fmt(r) != fmt(want):
                ctx.fail("order", "%s_edge_iter: visited [%s], node counterpart yields [%s]" % (name, fmt(r), fmt(want)), case)
    filt = "*" if acc is None else ("-" if not acc else ",".join(str(i) for i in sorted(acc)))
    line = "iter %s %d %d %s %s %s" % (kind, start, 1 if excl else 0, filt,
                                       ",".join(tu.frac(a) for a in ages) if kind.startswith("age") else "-", " ".join(toks))
    pending.append((line, case, fmt(got)))


def flush(ctx, pending):
    outs = ctx.ask([p[0] for p in pending])
    for (line, case, got), m in zip(pending, outs):
        if m is None:
            continue
        ctx.compared()
        if m.strip() != got.strip():
            ctx.disagree("iter " + case["kind"], case, got, m)
    del pending[:]


def gen_case(ctx, dendropy, rng, max_leaves):
    r = rng.random()
    n = rng.randint(1, max_leaves)
    if r < 0.12:
        shape = rng.choice(tu.shape_families(n))
    elif r < 0.3:
        shape = tu.rand_shape(rng, n, p_poly=0.0, p_unary=0.0)   # binary: in-order applies
    else:
        shape = tu.rand_shape(rng, n, p_poly=rng.choice([0.1, 0.3, 0.6]), p_unary=rng.choice([0.0, 0.1, 0.3]))
    tns = tu.make_namespace(dendropy, n)
    tree = tu.build_tree(dendropy, shape, tns, list(tns), None, None)
    toks, ids = tu.encode_tree(tree)
    return toks, len(ids)


def run(ctx):
    dendropy = __import__("dendropy")
    rng = ctx.rng
    ctx.set_budget(45, 600)
    pending = []
    ncases = ctx.pick(2500, 60000)
    max_leaves = ctx.pick(12, 40)
    for k in range(ncases):
        if ctx.out_of_time():
            break
        toks, n = gen_case(ctx, dendropy, rng, max_leaves if rng.random() < 0.9 else 3)
        kind = rng.choice(KINDS)
        via_tree = kind in TREE_ONLY or rng.random() < 0.35
        start = 0 if via_tree else rng.randrange(n)
        acc = None if rng.random() < 0.4 else {i for i in range(n) if rng.random() < rng.choice([0.2, 0.5, 0.8])}
        excl = rng.random() < 0.5
        ages = [tu.Fraction(rng.randint(0, 6), 2) for _ in range(n)]
        one_case(ctx, dendropy, toks, kind, start, excl, acc, ages, via_tree, pending)
        if len(pending) >= 500:
            flush(ctx, pending)
    flush(ctx, pending)
    if ctx.tier == "thorough":
        # exhaustive: every shape <= 6 leaves (no unary nodes) and unary-decorated variants, every start, every kind, no filter + one random filter
        count = 0
        for n in range(1, 7):
            for shape in tu.all_shapes(n):
                tns = tu.make_namespace(dendropy, n)
                tree = tu.build_tree(dendropy, shape, tns, list(tns), None, None)
                toks, ids = tu.encode_tree(tree)
                for kind in KINDS:
                    for start in ([0] if kind in TREE_ONLY else range(len(ids))):
                        ages = [tu.Fraction(rng.randint(0, 3), 2) for _ in range(len(ids))]
                        for acc in (None, {i for i in range(len(ids)) if rng.random() < 0.5}):
                            one_case(ctx, dendropy, toks, kind, start, rng.random() < 0.5, acc, ages,
                                     kind in TREE_ONLY or (start == 0 and rng.random() < 0.5), pending)
                            count += 1
                if len(pending) >= 2000:
                    flush(ctx, pending)
        flush(ctx, pending)
        ctx.extra["exhaustive_small_scope"] = "all %d (shape<=6 leaves, kind, start) combinations, each without and with one random filter" % count


def replay(ctx, rec):
    dendropy = __import__("dendropy")
    c = rec["replay"]
    pending = []
    one_case(ctx, dendropy, c["tree"], c["kind"], c["start"], c["excl"], None if c["acc"] is None else set(c["acc"]),
             [tu.Fraction(a) for a in c["ages"]], c["via_tree"], pending)
    flush(ctx, pending)
