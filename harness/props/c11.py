"""C11 - collections keep every member inside their own taxon namespace.

A case is a *history*: a list of container operations executed from an empty world on the real DendroPy objects
and, as one protocol line, on the Lean model (`drv_c11`).  After every step
  * the ORACLE evaluates the statement literally on the real objects (identity of namespaces, `in` on namespaces,
    label/identity partition of the migrated items, label multisets, self-consistency of every tree incl. removed ones);
  * the canonical rendering of the whole world is compared with the model's.
"""
import itertools

from common import hex6, time_limit, Timeout

ID = "C11"
GEN_DEPENDS = ["C11Kernels"]
RULE = ("random histories (<= 25 container ops after a set-up prefix) over 2-4 namespaces (case-sensitive and -insensitive) with "
        "overlapping, disjoint, duplicate and case-variant labels; ops: TreeList append/insert/[]=/slice=/extend/+=/+/read/new_tree/"
        "pop/del/remove/[a:b]/clone (incl. positions out of range and trees not in the list: the refusal is compared), Tree/TreeList/"
        "CharacterMatrix migrate/reconstruct/clone (both unify flags), matrix []=/new_sequence, TreeArray.add_tree of a foreign tree, "
        "DataSet add/new_*/attach/detach/unify/read, chains of migrations sharing one caller-supplied taxon_mapping_memo across "
        "namespaces, both import strategies; the taxon_namespace property setter on Tree/TreeList/CharacterMatrix (with "
        "automigrate_taxon_namespace_on_assignment, and plain followed by update_taxon_namespace()), CharacterMatrix add/replace/update/"
        "extend_sequences/extend_matrix with a matrix of the same or another namespace (the refusal is compared), purge_taxon_namespace of an "
        "object that is the only user of its namespace, relabelling histories (a looked-up member of a namespace is relabelled by attribute "
        "assignment to a fresh label / another member's label / a case variant, then foreign trees and matrices carrying the old and the new label "
        "are migrated in; oracle only, labels are constant in the model), slice assignment from a one-shot generator, positions also written as negative indices and pop() without argument; thorough adds every depth<=3 history over a fixed small world; "
        "non-trivial = at least two namespaces are involved in a migrating/cloning/reading step")
MODELLED_NOT_VERIFIED = [
    "C11: the Lean store model (namespaces = ordered member lists + case flag; trees = namespace ref + pre-order taxon refs; matrices = "
    "namespace ref + key list; tree lists; data sets) is hand-written from TreeList/Tree/CharacterMatrix/DataSet/TaxonNamespace; tied to the "
    "code by the per-step comparison of the whole world state (taxon identity compared up to renaming)",
    "C11: tree topology, sequences, annotations are abstracted away; readers are modelled as require_taxon per label in document order "
    "(reader internals: C13/C20); labels are ASCII in the correspondence (Python str.lower vs Lean String.toLower)",
    "C11: tie A (harness/gen/c11kernels.py -> Gen/C11Kernels.lean, bridged in Props/C11.lean): the if/elif dispatch of "
    "_import_tree_to_taxon_namespace and of the taxon_namespace setter, the default strategy / unify flags, the re-mapping guards of the "
    "tree and matrix reconstruction loops and the one-memo threading of TreeList.reconstruct_taxon_namespace / DataSet.unify_taxon_namespaces "
    "are regenerated from the source; the bodies of require_taxon / new_taxon / add_taxon and the loops themselves remain hand-modelled",
    "C11: purge_taxon_namespace is documented to look at `self` only; it is modelled and compared, generated only where the purging object is "
    "the sole user of its namespace (decided by the harness from the real objects), and is outside the model's `valid` (theorem purge_closed "
    "carries the sole-user hypothesis)",
    "C11: Taxon.label assignment (relabelling) is not in the model's alphabet (labels are constant there): histories containing it are judged "
    "by the oracle only (closure + label map with the labels as they are at migration time), not compared with the model",
    "C11: ownership precondition - an operation that re-binds a tree (matrix, tree list) which is at that moment a member of ANOTHER "
    "collection bound to a different namespace is outside the statement (documented: originals are migrated); histories never do it and the "
    "theorems carry it as the decidable hypothesis `Valid`",
]
EXPLANATION = ("Theorems (Props/C11.lean + Theory/C11Fresh.lean + Theory/C11Pass.lean, about the definitions drv_c11 runs; stepG = step guarded by idsOk): "
               "closed_init; closed_step / closed_stepG - Inv (clauses a and c + allocation discipline) is preserved by EVERY op of the alphabet "
               "inside the ownership domain `valid` (incl. TreeList/CharacterMatrix migrate/reconstruct, copies, + with a plain list, "
               "DataSet.unify_taxon_namespaces, DataSet.read, the taxon_namespace setter with and without automigrate on trees, lists and "
               "matrices, matrix combination); closed_reachable / closed_from_init (induction over histories); the earlier "
               "closed_*_partial forms are kept; stepG_refuses; removed_tree_consistent, replaced_tree_consistent (clause c); fresh_step / "
               "fresh_reachable / freshNs_reachable (every referenced taxon id is allocated: an unconditional history invariant); clause b for "
               "whole passes: mapTaxa_unify_spec, migrateTree_unify_spec, migrateTree_unify_reachable (no side conditions); across the trees of a "
               "list and the lists of a data set through the shared memo: migrateTrees_unify_spec, migrateTl_unify_spec, migrateTls_unify_spec "
               "(trees pairwise different objects), migrateTl_same_taxon_iff; unify_taxa_by_label=False over WHOLE passes: mapTaxa_fresh_spec, "
               "migrateTree_fresh_spec, migrateTl_fresh_spec, migrateTl_fresh_reachable (members kept, every foreign taxon on a taxon created by the "
               "pass with the same label, and two nodes anywhere in the list share a taxon afterwards iff they shared one before - full form of "
               "unify_false_distinct_partial, which is kept); mapTaxa_fresh_memo_spec (the same for ANY caller-supplied memo satisfying the pass "
               "invariant PassF, entries already in the memo are reused), chain_fresh_spec (two tree migrations sharing one memo: the second meets a "
               "non-empty memo); setslice_any_length (tl[a:b]=trees for any bounds and operand length: the list is old[:a]+trees+old[max a b:], EVERY "
               "operand tree is bound to the list's namespace), setslice_generator (a one-shot iterable: trees imported, slice deleted); every copy route: cloneMemo_spec, cloneTree_spec; the driver's own "
               "run: runG_eq_run, closed_reachable_driver, fresh_stepG; "
               "resolved_member_label, same_taxon_iff_equal_labels, mapTaxa_shape; matrices: mapKeys_unify_spec, migrateMat_ok_closed, "
               "migrateMat_refused_state (the known finding's state, precisely; mapKeys_unify_spec is the soundness direction only); "
               "mapKeys_accepted / migrateMat_accepted_keeps_sequences / migrateMat_keys_nodup (an accepted pass over a key list naming no "
               "taxon twice keeps every sequence under a key of its own; Nodup of the key list is a hypothesis, not yet a history invariant); "
               "readers' last-match lookup: resolvedLast_member_label, same_taxon_iff_equal_labels_last, readLabels_spec, readTrees_spec, "
               "readInto_spec (labels of a further source land on what the last-match table of the final namespace answers; earlier answers "
               "persist); purge_closed (purge_taxon_namespace by the sole user of a namespace keeps closure and drops nothing referenced); chain of "
               "migrations sharing a caller-supplied memo: covered by closed_step / fresh_step; tie-A bridges importTree_bridge, "
               "importDefault_bridge, mapOne_guard_bridge, mapKeys_guard_bridge, setter_bridge, shared_memo_bridge (the regenerated kernels of "
               "Gen/C11Kernels.lean are what the model hard-wires); migrate_*_partial (single resolutions). Not proved: Nodup of matrix key "
               "lists as a history invariant and the whole-pass theorems for a tree object listed twice (tree lists may legitimately hold one "
               "tree twice, so Nodup stays a hypothesis there); non-unifying chains across DIFFERENT target namespaces beyond closure/freshness; "
               "DataSet.unify after an out-of-band migration is covered by closed_step (an example history is checked), with no separate "
               "statement of the final attachment; the readers' table as the dictionary label_taxon_map() builds (modelled as a "
               "reverse search).")

LABEL_POOL = ["A", "B", "C", "D", "a", "b", "E", "Ab", "AB", "c_1", "x y", "'q'", "E", "A"]


# =====================================================================================================================
# the world of real objects
# =====================================================================================================================
class World(object):
    def __init__(self, dp):
        self.dp = dp
        self.nss, self.trees, self.lists, self.mats, self.dss = [], [], [], [], []
        self.nseq = 0

    def fresh_seq(self):
        """a DNA string no other sequence of this world carries (lets the oracle follow a sequence through copies)"""
        self.nseq += 1
        n, out = self.nseq, ""
        while n:
            out += "ACGT"[n % 4]
            n //= 4
        return out + "A" * (8 - len(out)) if len(out) < 8 else out

    def _reg(self, arr, obj):
        for i, o in enumerate(arr):
            if o is obj:
                return i
        arr.append(obj)
        return len(arr) - 1

    def reg_ns(self, ns):
        return self._reg(self.nss, ns)

    def reg_tree(self, t):
        return self._reg(self.trees, t)

    def reg_list(self, l):
        i = self._reg(self.lists, l)
        return i

    def reg_mat(self, m):
        return self._reg(self.mats, m)

    def ns_id(self, ns):
        for i, o in enumerate(self.nss):
            if o is ns:
                return i
        return None


def nodes_preorder(tree):
    """independent pre-order walk over _child_nodes"""
    out, stack = [], [tree.seed_node]
    while stack:
        nd = stack.pop()
        out.append(nd)
        if len(out) > 100000:
            raise RuntimeError("tree is cyclic or huge")
        stack.extend(reversed(nd._child_nodes))
    return out


def seq_text(seq):
    return "".join(str(x) for x in seq)


def mat_items(m):
    return [(k, seq_text(v)) for k, v in m._taxon_sequence_map.items()]


def tree_taxa(tree):
    return [nd.taxon for nd in nodes_preorder(tree)]


def build_tree(dp, ns, taxa, parents):
    tree = dp.Tree(taxon_namespace=ns)
    nodes = [tree.seed_node]
    tree.seed_node.taxon = taxa[0]
    for i in range(1, len(taxa)):
        nd = dp.Node()
        nd.taxon = taxa[i]
        nodes[parents[i]].add_child(nd)
        nodes.append(nd)
    return tree


def copy_nodes(tree, via_extract=False):
    """a node structure "built elsewhere": fresh Node objects mirroring the tree, carrying the SAME Taxon objects
    (or the library's own extract_subtree of the seed node, which does the same)"""
    import dendropy
    if via_extract:
        return tree.seed_node.extract_subtree(suppress_unifurcations=False)

    def go(nd):
        c = dendropy.Node()
        c.taxon = nd.taxon
        for ch in nd._child_nodes:
            c.add_child(go(ch))
        return c
    return go(tree.seed_node)


def newick_of(label_lists):
    def q(s):
        return "'" + s.replace("'", "''") + "'"
    return "".join("(" + ",".join(q(s) for s in labs) + ");" for labs in label_lists)


def nexus_of(taxlabels, matlabels, trees, seqs=None):
    def q(s):
        return "'" + s.replace("'", "''") + "'"
    out = ["#NEXUS", "BEGIN TAXA;", "DIMENSIONS NTAX=%d;" % len(taxlabels), "TAXLABELS " + " ".join(q(s) for s in taxlabels) + ";", "END;"]
    if matlabels is not None:
        out += ["BEGIN CHARACTERS;", "DIMENSIONS NCHAR=8;", "FORMAT DATATYPE=DNA;", "MATRIX"]
        out += ["%s %s" % (q(s), seqs[i] if seqs else "ACGTACGT") for i, s in enumerate(matlabels)]
        out += [";", "END;"]
    if trees is not None:
        out += ["BEGIN TREES;"]
        for i, labs in enumerate(trees):
            out.append("TREE t%d = (%s);" % (i, ",".join(q(s) for s in labs)))
        out += ["END;"]
    return "\n".join(out) + "\n"


class UnknownOp(Exception):
    pass


def nexml_of(taxlabels, rows, trees, seqs=None):
    """a NeXML document, written by the library from scratch objects in a namespace of their own (the writer is C09's matter)"""
    import dendropy as dp
    ns = dp.TaxonNamespace(list(taxlabels), is_case_sensitive=True)
    ds = dp.DataSet()
    ds.add_taxon_namespace(ns)
    byl = dict((t.label, t) for t in ns)
    if rows is not None:
        m = dp.DnaCharacterMatrix(taxon_namespace=ns)
        for i, r in enumerate(rows):
            m.new_sequence(byl[r], m.coerce_values(seqs[i] if seqs else "ACGTACGT"))
        ds.add(m)
    if trees is not None:
        tl = dp.TreeList(taxon_namespace=ns)
        for labs in trees:
            t = dp.Tree(taxon_namespace=ns)
            for lab in labs:
                nd = dp.Node()
                nd.taxon = byl[lab]
                t.seed_node.add_child(nd)
            tl.append(t)
        ds.add(tl)
    return ds.as_string(schema="nexml")


def union_labels(docs):
    out = []
    for labs in docs:
        for x in labs:
            if x not in out:
                out.append(x)
    return out


def trees_doc(schema, docs):
    """(document text, labels of its TAXA-like block resolved before the trees) for a source holding the tree statements `docs`"""
    if schema == "newick":
        return newick_of(docs), []
    if schema == "nexus":
        u = union_labels(docs)
        return nexus_of(u, None, docs), u
    if schema == "nexml":
        return nexml_of(union_labels(docs), None, docs), []
    raise ValueError(schema)


def reader_kw(schema):
    """a NEXUS source with a TAXA block read into an already populated namespace needs the documented
    `unconstrained_taxa_accumulation_mode` (otherwise NTAX of the file caps the size of the namespace: TooManyTaxaError)"""
    return {"unconstrained_taxa_accumulation_mode": True} if schema == "nexus" else {}


def op_schema(op, i, default):
    return op[i] if len(op) > i else default


def err_name(e):
    """exception -> the small status enum (by isinstance, so that a subclass of a documented class stays in its class)"""
    from dendropy.utility import error as dperr
    if isinstance(e, dperr.TaxonNamespaceReconstructionError):
        return "Conflict"
    if isinstance(e, dperr.TaxonNamespaceIdentityError):
        return "NamespaceIdentity"
    for cls, name in ((IndexError, "IndexError"), (KeyError, "KeyError"), (TypeError, "TypeError"), (ValueError, "ValueError")):
        if isinstance(e, cls):
            return name
    return "Internal(%s)" % type(e).__name__


# CharacterMatrix methods combining two matrices: (method, extra args, does it add sequences for taxa `self` has none for?)
MCOMB = {"add_sequences": ("add_sequences", (), 1), "update_sequences": ("update_sequences", (), 1),
         "extend_matrix": ("extend_matrix", (), 1), "extend_new": ("extend_sequences", (True,), 1),
         "replace_sequences": ("replace_sequences", (), 0), "extend_sequences": ("extend_sequences", (), 0)}


def py_index(w, op, i, flag):
    """the index handed to the Python call: the op stores the position counted from the front (what the model is told); with the flag
    "neg" the call uses the equivalent negative index (`tl[i - len(tl)]`), which `list` resolves - DendroPy only passes it on"""
    idx = op[i]
    if len(op) > flag and op[flag] == "neg":
        n = len(w.lists[op[1]]._trees)
        if 0 <= idx < n:
            return idx - n
    return idx


def apply_op(w, op):
    """execute one op on the real objects; returns status string. New objects are registered in the model's allocation order."""
    dp = w.dp
    k = op[0]
    if k == "ns":
        w.reg_ns(dp.TaxonNamespace(list(op[2]), is_case_sensitive=bool(op[1])))
    elif k == "tree":
        ns = w.nss[op[1]]
        w.reg_tree(build_tree(dp, ns, [None if i is None else ns[i] for i in op[2]], op[3]))
    elif k == "tlist":
        tl = dp.TreeList() if op[1] is None else dp.TreeList(taxon_namespace=w.nss[op[1]])
        w.reg_ns(tl.taxon_namespace)
        w.reg_list(tl)
    elif k == "mat":
        ns = w.nss[op[1]]
        m = dp.DnaCharacterMatrix(taxon_namespace=ns)
        for i in op[2]:
            m.new_sequence(ns[i], w.fresh_seq())
        w.reg_mat(m)
    elif k == "ds":
        w.dss.append(dp.DataSet())
    elif k == "append":
        w.lists[op[1]].append(w.trees[op[2]], taxon_import_strategy=op[3])
    elif k == "insert":
        w.lists[op[1]].insert(py_index(w, op, 2, 5), w.trees[op[3]], taxon_import_strategy=op[4])
    elif k == "setitem":
        w.lists[op[1]][py_index(w, op, 2, 4)] = w.trees[op[3]]
    elif k == "setslice":
        tl = w.lists[op[1]]
        if op[4] == "L":
            tl[op[2]:op[3]] = w.lists[op[5]]
            for t in tl:
                w.reg_tree(t)
        else:
            tl[op[2]:op[3]] = [w.trees[t] for t in op[5]]
    elif k == "lookup":
        # something that looks the taxon up by label (and so may fill any per-taxon cache of a derived key)
        ns = w.nss[op[1]]
        t = ns._taxa[op[2]]
        if op[3] == "get":
            ns.get_taxon(t.label)
        elif op[3] == "has":
            ns.has_taxon_label(t.label)
        elif op[3] == "require":
            ns.require_taxon(t.label)
        else:
            t.lower_cased_label
    elif k == "relabel":
        w.nss[op[1]]._taxa[op[2]].label = op[3]          # plain attribute assignment
    elif k == "setslicegen":
        # a one-shot iterable as the operand: consumed by the import pass, nothing is left for the assignment
        w.lists[op[1]][op[2]:op[3]] = (w.trees[t] for t in op[4])
    elif k in ("extend", "iadd"):
        tl = w.lists[op[1]]
        other = w.lists[op[3]] if op[2] == "L" else [w.trees[t] for t in op[3]]
        if k == "extend":
            tl.extend(other)
        else:
            tl += other
            assert tl is w.lists[op[1]]
        for t in tl:
            w.reg_tree(t)
    elif k == "add":
        tl = w.lists[op[1]]
        other = w.lists[op[3]] if op[2] == "L" else [w.trees[t] for t in op[3]]
        res = tl + other
        w.reg_list(res)
        for t in res:
            w.reg_tree(t)
    elif k == "read":
        tl = w.lists[op[1]]
        schema = op_schema(op, 3, "newick")
        tl.read(data=trees_doc(schema, op[2])[0], schema=schema, case_sensitive_taxon_labels=bool(tl.taxon_namespace.is_case_sensitive),
                **reader_kw(schema))
        for t in tl:
            w.reg_tree(t)
    elif k == "tlget":
        ns = w.nss[op[1]]
        tl = dp.TreeList.get(data=trees_doc(op[3], op[2])[0], schema=op[3], taxon_namespace=ns,
                             case_sensitive_taxon_labels=bool(ns.is_case_sensitive), **reader_kw(op[3]))
        w.reg_list(tl)
        for t in tl:
            w.reg_tree(t)
    elif k == "tget":
        ns = w.nss[op[1]]
        t = dp.Tree.get(data=trees_doc(op[3], [op[2]])[0], schema=op[3], taxon_namespace=ns,
                        case_sensitive_taxon_labels=bool(ns.is_case_sensitive), **reader_kw(op[3]))
        w.reg_tree(t)
    elif k == "mget":
        ns = w.nss[op[1]]
        seqs = [w.fresh_seq() for _ in op[2]]
        text = nexus_of(op[2], op[2], None, seqs) if op[3] == "nexus" else nexml_of(op[2], op[2], None, seqs)
        m = dp.DnaCharacterMatrix.get(data=text, schema=op[3], taxon_namespace=ns, case_sensitive_taxon_labels=bool(ns.is_case_sensitive),
                                      **reader_kw(op[3]))
        w.reg_mat(m)
    elif k == "newtree":
        tl = w.lists[op[1]]
        t = tl.new_tree() if op[2] is None else tl.new_tree(w.trees[op[2]])
        w.reg_tree(t)
    elif k == "getslice":
        w.reg_list(w.lists[op[1]][op[2]:op[3]])
    elif k == "pop":
        tl = w.lists[op[1]]
        if len(op) > 3 and op[3] == "last" and op[2] == len(tl._trees) - 1:
            tl.pop()                       # the default index -1
        else:
            tl.pop(py_index(w, op, 2, 3))
    elif k == "del":
        del w.lists[op[1]][py_index(w, op, 2, 3)]
    elif k == "remove":
        w.lists[op[1]].remove(w.trees[op[2]])
    elif k == "lclone":
        src = w.lists[op[1]]
        res = dp.TreeList(src) if op[2] is None else dp.TreeList(src, taxon_namespace=w.nss[op[2]])
        w.reg_list(res)
        for t in res:
            w.reg_tree(t)
    elif k == "tclone":
        src = w.trees[op[1]]
        w.reg_tree(dp.Tree(src) if op[2] is None else dp.Tree(src, taxon_namespace=w.nss[op[2]]))
    elif k == "mclone":
        src = w.mats[op[1]]
        w.reg_mat(dp.DnaCharacterMatrix(src) if op[2] is None else dp.DnaCharacterMatrix(src, taxon_namespace=w.nss[op[2]]))
    elif k == "tmig":
        w.trees[op[1]].migrate_taxon_namespace(w.nss[op[2]], unify_taxa_by_label=bool(op[3]))
    elif k == "trec":
        w.trees[op[1]].reconstruct_taxon_namespace(unify_taxa_by_label=bool(op[2]))
    elif k == "lmig":
        w.lists[op[1]].migrate_taxon_namespace(w.nss[op[2]], unify_taxa_by_label=bool(op[3]))
    elif k == "lrec":
        w.lists[op[1]].reconstruct_taxon_namespace(unify_taxa_by_label=bool(op[2]))
    elif k == "mmig":
        w.mats[op[1]].migrate_taxon_namespace(w.nss[op[2]], unify_taxa_by_label=bool(op[3]))
    elif k == "mrec":
        w.mats[op[1]].reconstruct_taxon_namespace(unify_taxa_by_label=bool(op[2]))
    elif k == "mset":
        w.mats[op[1]][w.nss[op[2]][op[3]]] = w.fresh_seq()
    elif k == "mnew":
        w.mats[op[1]].new_sequence(w.nss[op[2]][op[3]], w.fresh_seq())
    elif k == "dsadd":
        ds = w.dss[op[1]]
        ds.add({"n": w.nss, "l": w.lists, "m": w.mats}[op[2]][op[3]])
    elif k == "dsnewlist":
        tl = w.dss[op[1]].new_tree_list()
        w.reg_ns(tl.taxon_namespace)
        w.reg_list(tl)
    elif k == "dsnewmat":
        m = w.dss[op[1]].new_char_matrix("dna")
        w.reg_ns(m.taxon_namespace)
        w.reg_mat(m)
    elif k == "dsnewns":
        w.reg_ns(w.dss[op[1]].new_taxon_namespace())
    elif k == "dsattach":
        w.dss[op[1]].attach_taxon_namespace(w.nss[op[2]])
    elif k == "dsdetach":
        w.dss[op[1]].detach_taxon_namespace()
    elif k == "dsunify":
        ds = w.dss[op[1]]
        try:
            ds.unify_taxon_namespaces(None if op[2] is None else w.nss[op[2]])
        finally:
            for ns in ds.taxon_namespaces:   # the target namespace exists even when a matrix refuses
                w.reg_ns(ns)
    elif k == "dsread":
        ds = w.dss[op[1]]
        att = ds.attached_taxon_namespace
        schema = op_schema(op, 5, "nexus")
        seqs = [w.fresh_seq() for _ in (op[3] or [])]
        text = (nexus_of(op[2], op[3], op[4], seqs) if schema == "nexus" else
                nexml_of(op[2], op[3], op[4], seqs) if schema == "nexml" else newick_of(op[4]))
        ds.read(data=text, schema=schema, case_sensitive_taxon_labels=bool(att is not None and att.is_case_sensitive))
        for ns in ds.taxon_namespaces:
            w.reg_ns(ns)
        for m in ds.char_matrices:
            w.reg_mat(m)
        for tl in ds.tree_lists:
            w.reg_list(tl)
            for t in tl:
                w.reg_tree(t)
    elif k == "newtreeseed":
        t = w.lists[op[1]].new_tree(seed_node=copy_nodes(w.trees[op[2]], bool(op[3])))
        w.reg_tree(t)
    elif k == "treeseed":
        nd = copy_nodes(w.trees[op[2]], bool(op[3]))
        t = dp.Tree(seed_node=nd) if op[1] is None else dp.Tree(seed_node=nd, taxon_namespace=w.nss[op[1]])
        w.reg_ns(t.taxon_namespace)
        w.reg_tree(t)
    elif k == "chain":
        memo = {}   # one caller-supplied taxon_mapping_memo shared by all the migrations of the chain
        for kind, obj, n, unify in op[1]:
            target = {"t": w.trees, "l": w.lists, "m": w.mats}[kind][obj]
            target.migrate_taxon_namespace(w.nss[n], unify_taxa_by_label=bool(unify), taxon_mapping_memo=memo)
    elif k in ("tassign", "lassign", "massign"):
        # the `taxon_namespace` property setter: with automigrate_taxon_namespace_on_assignment it migrates (unless the very object is
        # assigned); without, it re-binds only, and the caller follows with update_taxon_namespace() (the 'add' strategy by hand)
        obj = {"tassign": w.trees, "lassign": w.lists, "massign": w.mats}[k][op[1]]
        ns = w.nss[op[2]]
        if op[3]:
            obj.automigrate_taxon_namespace_on_assignment = True
            try:
                obj.taxon_namespace = ns
            finally:
                obj.automigrate_taxon_namespace_on_assignment = False
        else:
            obj.taxon_namespace = ns
            obj.update_taxon_namespace()
    elif k == "mcomb":
        a, b = w.mats[op[1]], w.mats[op[2]]
        meth, args, _ = MCOMB[op[3]]
        try:
            getattr(a, meth)(b, *args)
        finally:
            # sequence TEXTS are what the oracle follows sequences by: keep them pairwise different inside one matrix
            seen = set()
            for key, text in mat_items(a):
                if text in seen:
                    a[key] = w.fresh_seq()
                seen.add(text)
    elif k in ("tpurge", "lpurge", "mpurge"):
        {"tpurge": w.trees, "lpurge": w.lists, "mpurge": w.mats}[k][op[1]].purge_taxon_namespace()
    elif k == "taadd":
        ta = dp.TreeArray(taxon_namespace=w.nss[op[1]])
        tree = w.trees[op[2]]
        before = tree_taxa(tree)
        try:
            ta.add_tree(tree)
        finally:
            after = tree_taxa(tree)
            if tree.taxon_namespace is not w.nss[op[1]] and (len(before) != len(after) or any(a is not b for a, b in zip(before, after))):
                raise RuntimeError("TreeArray.add_tree refused a foreign tree but changed it")
    else:
        raise UnknownOp("unknown op %r" % (op,))
    return "ok"


def run_op(w, op):
    try:
        with time_limit(20):
            return apply_op(w, op)
    except Timeout:
        return "Timeout"
    except Exception as e:  # noqa
        # objects possibly created before the failure are not registered: the failing ops of the alphabet create none
        return err_name(e)


# =====================================================================================================================
# canonical world state (shared by both sides): taxa renamed by first appearance
# =====================================================================================================================
def snapshot(w):
    """raw state with opaque taxon keys (id()s; never printed)"""
    st = {"ns": [], "tree": [], "mat": [], "list": [], "ds": []}
    for ns in w.nss:
        st["ns"].append((1 if ns.is_case_sensitive else 0, [(id(t), t.label) for t in ns._taxa]))
    for t in w.trees:
        st["tree"].append((w.ns_id(t.taxon_namespace), [None if x is None else (id(x), x.label) for x in tree_taxa(t)]))
    for m in w.mats:
        st["mat"].append((w.ns_id(m.taxon_namespace), [(id(x), x.label) for x in m._taxon_sequence_map.keys()]))
    for l in w.lists:
        st["list"].append((w.ns_id(l.taxon_namespace), [w._reg(w.trees, t) for t in l._trees]))
    for d in w.dss:
        att = d.attached_taxon_namespace
        st["ds"].append((None if att is None else w.ns_id(att), [w.ns_id(n) for n in d.taxon_namespaces],
                         [w._reg(w.lists, l) for l in d.tree_lists], [w._reg(w.mats, m) for m in d.char_matrices]))
    return st


def canon(st):
    """render a raw state; taxon keys -> numbers by first appearance (namespaces, then trees; matrix-only keys by label)"""
    num = {}

    def n(key):
        if key not in num:
            num[key] = len(num)
        return num[key]
    out = []
    for cs, mem in st["ns"]:
        out.append("N%d:%s" % (cs, ",".join("%d.%s" % (n(k), hex6(lab)) for k, lab in mem)))
    for ns, taxa in st["tree"]:
        out.append("T%s:%s" % (ns, ",".join("-" if x is None else "%d.%s" % (n(x[0]), hex6(x[1])) for x in taxa)))
    for ns, keys in st["mat"]:
        for k, lab in sorted([x for x in keys if x[0] not in num], key=lambda x: (x[1] or "")):
            n(k)
        out.append("M%s:%s" % (ns, ",".join("%d.%s" % (a, hex6(b)) for a, b in sorted((n(k), lab) for k, lab in keys))))
    for ns, ts in st["list"]:
        out.append("L%s:%s" % (ns, ",".join(map(str, ts))))
    for att, nss, ls, ms in st["ds"]:
        out.append("D%s:%s:%s:%s" % ("-" if att is None else att, ",".join(map(str, nss)), ",".join(map(str, ls)), ",".join(map(str, ms))))
    return " ".join(out)


def parse_model_state(s):
    """model rendering `N<cs>:tid.hex,..  T<ns>:tid|-,..  M<ns>:tid,.. L<ns>:ids D<att>:nss:ls:ms` + label table -> raw state"""
    st = {"ns": [], "tree": [], "mat": [], "list": [], "ds": []}
    labels = {}
    toks = s.split(" ") if s else []
    from common import unhex6

    def ids(x):
        return [int(i) for i in x.split(",")] if x else []
    for tok in toks:
        kind, rest = tok[0], tok[1:]
        f = rest.split(":")
        if kind == "N":
            mem = []
            for e in (f[1].split(",") if f[1] else []):
                tid, lab = e.split(".")
                labels[int(tid)] = unhex6(lab)
                mem.append((int(tid), labels[int(tid)]))
            st["ns"].append((int(f[0]), mem))
        elif kind == "X":  # label table of all taxa: tid.hex,...
            for e in (f[0].split(",") if f[0] else []):
                tid, lab = e.split(".")
                labels[int(tid)] = unhex6(lab)
        elif kind == "T":
            st["tree"].append((int(f[0]), [None if e == "-" else (int(e), labels[int(e)]) for e in (f[1].split(",") if f[1] else [])]))
        elif kind == "M":
            st["mat"].append((int(f[0]), [(i, labels[i]) for i in ids(f[1])]))
        elif kind == "L":
            st["list"].append((int(f[0]), ids(f[1])))
        elif kind == "D":
            st["ds"].append((None if f[0] == "-" else int(f[0]), ids(f[1]), ids(f[2]), ids(f[3])))
        else:
            raise ValueError("bad model token %r" % tok)
    return st


# =====================================================================================================================
# protocol encoding of a history
# =====================================================================================================================
def oint(x):
    return "-" if x is None else str(x)


def ilist(xs):
    return ",".join(oint(x) for x in xs) if xs else "="


def enc_op(op):
    k = op[0]
    if k == "ns":
        return ["ns", str(op[1]), ",".join(hex6(s) for s in op[2]) if op[2] else "="]
    if k == "tree":
        return ["tree", str(op[1]), ilist(op[2])]
    if k == "tlist":
        return ["tlist", oint(op[1])]
    if k == "mat":
        return ["mat", str(op[1]), ilist(op[2])]
    if k == "ds":
        return ["ds"]
    if k == "append":
        return ["append", str(op[1]), str(op[2]), op[3]]
    if k == "insert":
        return ["insert", str(op[1]), str(op[2]), str(op[3]), op[4]]
    if k == "setitem":
        return ["setitem", str(op[1]), str(op[2]), str(op[3])]
    if k == "setslice":
        return ["setslice", str(op[1]), str(op[2]), str(op[3]), op[4], str(op[5]) if op[4] == "L" else ilist(op[5])]
    if k == "setslicegen":
        return ["setslicegen", str(op[1]), str(op[2]), str(op[3]), ilist(op[4])]
    if k in ("extend", "iadd", "add"):
        return [k, str(op[1]), op[2], str(op[3]) if op[2] == "L" else ilist(op[3])]
    def hdocs(docs):
        return "/".join(",".join(hex6(s) for s in labs) for labs in docs) if docs else "="

    def hlabs(labs):
        return ",".join(hex6(s) for s in labs) if labs else "="
    if k == "read":
        schema = op_schema(op, 3, "newick")
        if schema == "nexus":
            return ["readx", str(op[1]), hlabs(union_labels(op[2])), hdocs(op[2])]
        return ["read", str(op[1]), hdocs(op[2])]
    if k == "tlget":
        return ["tlget", str(op[1]), hlabs(union_labels(op[2]) if op[3] == "nexus" else []), hdocs(op[2])]
    if k == "tget":
        return ["tget", str(op[1]), hlabs(op[2] if op[3] == "nexus" else []), hlabs(op[2])]
    if k == "mget":
        return ["mget", str(op[1]), "0" if op[3] == "nexus" else "1", hlabs(op[2] if op[3] == "nexus" else []), hlabs(op[2])]
    if k == "newtree":
        return ["newtree", str(op[1]), oint(op[2])]
    if k == "getslice":
        return ["getslice", str(op[1]), str(op[2]), str(op[3])]
    if k in ("pop", "del"):
        return ["pop", str(op[1]), str(op[2])]
    if k == "remove":
        return ["remove", str(op[1]), str(op[2])]
    if k in ("lclone", "tclone", "mclone"):
        return [k, str(op[1]), oint(op[2])]
    if k in ("tmig", "lmig", "mmig"):
        return [k, str(op[1]), str(op[2]), str(op[3])]
    if k in ("trec", "lrec", "mrec"):
        return [k, str(op[1]), str(op[2])]
    if k in ("mset", "mnew"):
        return [k, str(op[1]), str(op[2]), str(op[3])]
    if k == "taadd":
        return ["taadd", str(op[1]), str(op[2])]
    if k in ("tassign", "lassign", "massign"):
        return [k, str(op[1]), str(op[2]), str(op[3])]
    if k == "mcomb":
        return ["mcomb", str(op[1]), str(op[2]), str(MCOMB[op[3]][2])]
    if k in ("tpurge", "lpurge", "mpurge"):
        return [k, str(op[1])]
    if k == "chain":
        return ["chain", ",".join("%s.%d.%d.%d" % (g[0], g[1], g[2], g[3]) for g in op[1]) if op[1] else "="]
    if k == "newtreeseed":
        return ["newtreeseed", str(op[1]), str(op[2])]
    if k == "treeseed":
        return ["treeseed", oint(op[1]), str(op[2])]
    if k == "dsadd":
        return ["dsadd", str(op[1]), op[2], str(op[3])]
    if k in ("dsnewlist", "dsnewmat", "dsnewns", "dsdetach"):
        return [k, str(op[1])]
    if k == "dsattach":
        return ["dsattach", str(op[1]), str(op[2])]
    if k == "dsunify":
        return ["dsunify", str(op[1]), oint(op[2])]
    if k == "dsread":
        if op_schema(op, 5, "nexus") == "newick":
            return ["dsread", str(op[1]), "=", "-", hdocs(op[4])]
        return ["dsread", str(op[1]), ",".join(hex6(s) for s in op[2]) if op[2] else "=",
                "-" if op[3] is None else (",".join(hex6(s) for s in op[3]) if op[3] else "="),
                "-" if op[4] is None else ("/".join(",".join(hex6(s) for s in labs) for labs in op[4]) if op[4] else "=")]
    raise ValueError(op)


def enc_history(hist):
    toks = ["hist"]
    for op in hist:
        toks += enc_op(op) + [";"]
    return " ".join(toks)


# =====================================================================================================================
# the oracle: the statement evaluated on the real objects
# =====================================================================================================================
def keyf(cs):
    return (lambda s: s) if cs else (lambda s: str(s).lower())


def closure_problems(w):
    """clause (a) on every container, clause (c) on every tree (member of a list or not)"""
    out = []
    for i, t in enumerate(w.trees):
        ns = t.taxon_namespace
        if ns is None:
            out.append(("c", "tree %d has no namespace" % i))
            continue
        for x in tree_taxa(t):
            if x is not None and not any(x is y for y in ns._taxa):
                out.append(("c", "tree %d: node taxon %r is not a member of the tree's own namespace" % (i, x.label)))
                break
    for i, l in enumerate(w.lists):
        for j, t in enumerate(l._trees):
            if t.taxon_namespace is not l.taxon_namespace:
                out.append(("a-list", "tree list %d: member %d refers to a different namespace object" % (i, j)))
            for x in tree_taxa(t):
                if x is not None and not any(x is y for y in l.taxon_namespace._taxa):
                    out.append(("a-list", "tree list %d: member %d has node taxon %r outside the list's namespace" % (i, j, x.label)))
                    break
    for i, m in enumerate(w.mats):
        for x in m._taxon_sequence_map.keys():
            if not any(x is y for y in m.taxon_namespace._taxa):
                out.append(("a-matrix", "matrix %d: sequence key %r is not a member of the matrix's namespace" % (i, x.label)))
                break
    for i, d in enumerate(w.dss):
        att = d.attached_taxon_namespace
        if att is None:
            continue
        for l in d.tree_lists:
            if l.taxon_namespace is not att:
                out.append(("a-dataset", "data set %d (attached): a tree list refers to a different namespace" % i))
        for m in d.char_matrices:
            if m.taxon_namespace is not att:
                out.append(("a-dataset", "data set %d (attached): a matrix refers to a different namespace" % i))
    return out


def has_dup_keys(ns):
    kf = keyf(ns.is_case_sensitive)
    ks = [kf(t.label) for t in ns._taxa]
    return len(ks) != len(set(ks))


class Watch(object):
    """clause (b): what is recorded before an op about the items it will migrate / clone / read, and checked after it"""

    def __init__(self, w, op):
        self.w, self.op, self.items, self.mode, self.target, self.skip = w, op, None, None, None, False
        self.before, self.where, self.n0 = [], None, 0
        k = op[0]
        L = w.lists
        try:
            if k in ("append", "insert", "setitem"):
                tl = L[op[1]]
                t = w.trees[op[2] if k == "append" else op[3]]
                strat = op[3] if k == "append" else (op[4] if k == "insert" else "migrate")
                self.target = tl.taxon_namespace
                if t.taxon_namespace is not tl.taxon_namespace:
                    self.mode = "unify" if strat == "migrate" else "same"
                    self.before = [("t", t, tree_taxa(t))]
            elif k == "setslicegen":
                tl = L[op[1]]
                self.target = tl.taxon_namespace
                self.mode = "unify"
                self.before = [("t", t, tree_taxa(t)) for t in [w.trees[i] for i in op[4]] if t.taxon_namespace is not tl.taxon_namespace]
            elif k in ("setslice", "extend", "iadd", "add"):
                tl = L[op[1]]
                self.target = tl.taxon_namespace
                kind, arg = (op[4], op[5]) if k == "setslice" else (op[2], op[3])
                srcs = list(L[arg]._trees) if kind == "L" else [w.trees[t] for t in arg]
                self.mode = "unify"
                if kind == "L":
                    self.before = [("clone", t, tree_taxa(t)) for t in srcs]
                    self.where = ("slice", op[2]) if k == "setslice" else ("tail", len(srcs))
                else:
                    self.before = [("t", t, tree_taxa(t)) for t in srcs if t.taxon_namespace is not tl.taxon_namespace]
            elif k in ("tmig", "lmig", "mmig"):
                self.target = w.nss[op[2]]
                self.mode = "unify" if op[3] else "fresh"
                if k == "tmig":
                    self.before = [("t", w.trees[op[1]], tree_taxa(w.trees[op[1]]))]
                elif k == "lmig":
                    self.before = [("t", t, tree_taxa(t)) for t in L[op[1]]._trees]
                else:
                    m = w.mats[op[1]]
                    self.before = [("m", m, mat_items(m))]
            elif k in ("tassign", "lassign", "massign"):
                obj = {"tassign": w.trees, "lassign": L, "massign": w.mats}[k][op[1]]
                self.target = w.nss[op[2]]
                if op[3] and obj.taxon_namespace is self.target:
                    self.mode = None                      # assigning the object already bound does nothing at all
                else:
                    self.mode = "unify" if op[3] else "same"
                    if k == "tassign":
                        self.before = [("t", obj, tree_taxa(obj))]
                    elif k == "lassign":
                        self.before = [("t", t, tree_taxa(t)) for t in obj._trees]
                    else:
                        self.before = [("m", obj, mat_items(obj))]
            elif k == "mrec":
                m = w.mats[op[1]]
                self.target = m.taxon_namespace
                self.mode = "unify" if op[2] else "fresh"
                self.before = [("m", m, mat_items(m))]
            elif k in ("trec", "lrec"):
                trees = [w.trees[op[1]]] if k == "trec" else list(L[op[1]]._trees)
                self.target = trees[0].taxon_namespace if k == "trec" else L[op[1]].taxon_namespace
                self.mode = "unify" if op[2] else "fresh"
                self.before = [("t", t, tree_taxa(t)) for t in trees]
            elif k in ("tclone", "newtree") and op[2] is not None:
                src = w.trees[op[1]] if k == "tclone" else w.trees[op[2]]
                self.target = w.nss[op[2]] if k == "tclone" else L[op[1]].taxon_namespace
                self.mode = "unify"
                self.before = [("clone1", src, tree_taxa(src))]
            elif k == "lclone" and op[2] is not None:
                self.target = w.nss[op[2]]
                self.mode = "unify"
                self.before = [("clone", t, tree_taxa(t)) for t in L[op[1]]._trees]
                self.where = ("tail", len(self.before))
            elif k == "mclone" and op[2] is not None:
                self.target = w.nss[op[2]]
                self.mode = "unify"
                m = w.mats[op[1]]
                self.before = [("mclone", m, mat_items(m))]
            elif k in ("newtreeseed", "treeseed"):
                src = w.trees[op[2]]
                self.target = L[op[1]].taxon_namespace if k == "newtreeseed" else (None if op[1] is None else w.nss[op[1]])
                self.mode = "same"
                self.before = [("clone1", src, tree_taxa(src))]
            elif k == "dsunify":
                ds = w.dss[op[1]]
                self.target = None if op[2] is None else w.nss[op[2]]
                self.mode = "unify"
                self.before = [("t", t, tree_taxa(t)) for tl in ds.tree_lists for t in tl._trees]
                self.before += [("m", m, mat_items(m)) for m in ds.char_matrices]
            elif k == "read":
                self.target = L[op[1]].taxon_namespace
                self.mode = "read"
                self.n0 = len(L[op[1]]._trees)
            elif k in ("tlget", "tget", "mget"):
                self.target = w.nss[op[1]]
                self.mode = "read"
                self.n0 = 0
            elif k == "dsread":
                ds = w.dss[op[1]]
                self.target = ds.attached_taxon_namespace
                self.mode = "dsread"
                self.n0 = (len(ds.tree_lists), len(ds.char_matrices))
        except (IndexError, KeyError):
            self.mode = None
        self.dup_ci = False
        if self.mode is not None and self.target is not None:
            self.dup_before = has_dup_keys(self.target)
            ks = [str(t.label).lower() for t in self.target._taxa]
            self.dup_ci = len(ks) != len(set(ks))
        else:
            self.dup_before = False

    def check(self, status):
        """returns list of (clause, message)"""
        if status == "Conflict" and self.mode is not None:
            # a refusal is legitimate only when two sequences would land on one taxon; with pairwise different labels
            # (under the target's rule) every sequence has its own target taxon
            for kind, obj, old in self.before:
                if kind in ("m", "mclone"):
                    tgt = self.target if self.target is not None else obj.taxon_namespace
                    kf = keyf(tgt.is_case_sensitive)
                    ks = [kf(x.label) for x, _ in old]
                    if len(ks) == len(set(ks)) and not self.dup_before and len(self.before) == 1:
                        return [("b-refused", "matrix with pairwise different labels %r was refused (%s): nothing was migrated" % (
                            sorted(x.label for x, _ in old), status))]
            return []
        if self.mode is None or status != "ok":
            return []
        w, op = self.w, self.op
        pairs = []   # (old label, new taxon or None, old taxon or None, copy-within-the-same-namespace?)
        out = []
        if self.mode == "dsread":
            # the document's blocks arrive in the data set, bound to one namespace, carrying the document's labels
            ds = w.dss[op[1]]
            tls, ms = list(ds.tree_lists)[self.n0[0]:], list(ds.char_matrices)[self.n0[1]:]
            if len(tls) != (0 if op[4] is None else 1) or len(ms) != (0 if op[3] is None else 1):
                return [("b", "data set gained %d tree lists and %d matrices from a document with %d and %d blocks" % (
                    len(tls), len(ms), 0 if op[4] is None else 1, 0 if op[3] is None else 1))]
            target = self.target
            for x in tls + ms:
                if target is None:
                    target = x.taxon_namespace
                if x.taxon_namespace is not target:
                    out.append(("a-dataset", "components read from one document (one TAXA block) are bound to different namespaces"))
            if target is None:
                return out
            kf = keyf(target.is_case_sensitive)
            for m in ms:
                if sorted(kf(x.label) for x in m._taxon_sequence_map) != sorted({kf(s) for s in op[3]}):
                    out.append(("b", "matrix read from rows %r carries labels %r" % (op[3], sorted(x.label for x in m._taxon_sequence_map))))
            for tl in tls:
                if len(tl._trees) != len(op[4]):
                    out.append(("b", "tree block with %d trees delivered %d" % (len(op[4]), len(tl._trees))))
                    continue
                for t, labs in zip(tl._trees, op[4]):
                    got = [nd.taxon for nd in nodes_preorder(t) if not nd._child_nodes]
                    if [None if x is None else kf(x.label) for x in got] != [kf(s) for s in labs]:
                        out.append(("b", "tree read from labels %r carries %r" % (labs, [None if x is None else x.label for x in got])))
            return out
        if self.mode == "read" and op[0] == "mget":
            m = w.mats[-1]
            target = self.target
            if m.taxon_namespace is not target:
                out.append(("a-matrix", "matrix read with taxon_namespace=ns is bound to another namespace"))
            kf0 = keyf(target.is_case_sensitive)
            keys = list(m._taxon_sequence_map.keys())
            if sorted(kf0(x.label) for x in keys) != sorted({kf0(s_) for s_ in op[2]}):
                out.append(("b", "matrix read from rows %r carries labels %r" % (op[2], sorted(x.label for x in keys))))
            for lab in op[2]:
                c = [x for x in keys if kf0(x.label) == kf0(lab)]
                if len(c) == 1:
                    pairs.append((lab, c[0], None, False))
        elif self.mode == "read":
            if op[0] == "read":
                tl = w.lists[op[1]]
                new, docs = tl._trees[self.n0:], op[2]
                target = tl.taxon_namespace
            elif op[0] == "tlget":
                tl = w.lists[-1]
                new, docs = list(tl._trees), op[2]
                target = self.target
                if tl.taxon_namespace is not target:
                    out.append(("a-list", "tree list read with taxon_namespace=ns is bound to another namespace"))
            else:
                new, docs = [w.trees[-1]], [op[2]]
                target = self.target
                if new[0].taxon_namespace is not target:
                    out.append(("c", "tree read with taxon_namespace=ns is bound to another namespace"))
            if len(new) != len(docs):
                return [("b", "read delivered %d trees for %d statements" % (len(new), len(docs)))]
            for t, labs in zip(new, docs):
                leaves = [nd.taxon for nd in nodes_preorder(t) if not nd._child_nodes]
                if len(leaves) != len(labs):
                    return [("b", "read tree has %d leaves for %d labels" % (len(leaves), len(labs)))]
                pairs += [(lab, x, None, False) for lab, x in zip(labs, leaves)]
        else:
            target = self.target
            for kind, obj, old in self.before:
                if kind == "t":
                    new = tree_taxa(obj)
                elif kind == "m":
                    new = None
                elif kind == "clone1":
                    new = tree_taxa(w.trees[-1])
                else:
                    new = None
                if kind == "clone":
                    continue
                if kind in ("m", "mclone"):
                    if kind == "mclone":
                        obj = w.mats[-1]
                    newitems = mat_items(obj)
                    if target is None:
                        target = obj.taxon_namespace
                    if len(newitems) != len(old):
                        out.append(("b", "matrix silently lost or gained sequences: %d -> %d (labels %r -> %r)" % (
                            len(old), len(newitems), sorted(x.label for x, _ in old), sorted(x.label for x, _ in newitems))))
                    for x, text in old:
                        cands = [y for y, t2 in newitems if t2 == text]
                        if len(cands) != 1:
                            out.append(("b", "the sequence of %r is carried by %d taxa afterwards" % (x.label, len(cands))))
                        else:
                            pairs.append((x.label, cands[0], x, kind == "mclone" and w.mats[op[1]].taxon_namespace is self.target))
                    continue
                if len(new) != len(old):
                    out.append(("b", "tree changed its number of nodes"))
                    continue
                for a, b in zip(old, new):
                    if (a is None) != (b is None):
                        out.append(("b", "a node %s its taxon" % ("lost" if b is None else "gained")))
                    elif a is not None:
                        pairs.append((a.label, b, a, kind == "clone1" and obj.taxon_namespace is self.target))
            if any(kind == "clone" for kind, _, _ in self.before):
                tl = w.lists[op[1]] if op[0] not in ("add", "lclone") else w.lists[-1]
                srcs = [b for b in self.before if b[0] == "clone"]
                if self.where[0] == "slice":
                    news = tl._trees[self.where[1]:self.where[1] + len(srcs)]
                else:
                    news = tl._trees[len(tl._trees) - len(srcs):] if srcs else []
                for (kind, src, old), nt in zip(srcs, news):
                    if nt is src:
                        out.append(("b", "TreeList source tree was not copied"))
                    new = tree_taxa(nt)
                    if len(new) != len(old):
                        out.append(("b", "copied tree changed its number of nodes"))
                        continue
                    for a, b in zip(old, new):
                        if (a is None) != (b is None):
                            out.append(("b", "a copied node %s its taxon" % ("lost" if b is None else "gained")))
                        elif a is not None:
                            pairs.append((a.label, b, a, src.taxon_namespace is self.target))
            if target is None and op[0] == "dsunify":
                target = w.dss[op[1]].attached_taxon_namespace
            if target is None and op[0] == "treeseed":
                target = w.trees[-1].taxon_namespace
        if target is None:
            return out
        kf = keyf(target.is_case_sensitive)
        for lab, new, old, ident in pairs:
            if new is None:
                continue
            if ident and new is not old:
                out.append(("b", "a copy within one namespace replaced the taxon object of label %r" % lab))
            if not any(new is y for y in target._taxa):
                out.append(("b", "item with label %r sits on a taxon outside the target namespace" % lab))
            if self.mode == "same":
                if new is not old:
                    out.append(("b", "'add' strategy replaced the taxon object of label %r" % lab))
            elif kf(new.label) != kf(lab):
                out.append(("b", "item with label %r ended up on taxon %r" % (lab, new.label)))
        if self.mode in ("unify", "read"):
            for (l1, n1, o1, i1), (l2, n2, o2, i2) in itertools.combinations([p for p in pairs if p[1] is not None and not p[3]], 2):
                if kf(l1) != kf(l2) and n1 is n2:
                    out.append(("b", "different labels %r and %r were merged onto one taxon" % (l1, l2)))
                    break
                if kf(l1) == kf(l2) and n1 is not n2:
                    # also when the namespace itself holds several taxa with that label: one pass puts equal labels on ONE taxon
                    out.append(("b", "equal labels %r and %r ended up on two taxa%s" % (
                        l1, l2, " (the target namespace holds duplicate labels)" if self.dup_before else "")))
                    break
            if not self.dup_before and has_dup_keys(target):
                out.append(("b", "a label was duplicated in the target namespace (it had no duplicate labels before)"))
        elif self.mode == "fresh":
            # unify_taxa_by_label=False: distinct foreign taxa stay distinct
            seen = {}
            for lab, new, old, ident in pairs:
                if id(old) in seen and seen[id(old)] is not new:
                    out.append(("b", "one taxon object was split onto two taxa"))
                seen[id(old)] = new
            vals = {}
            for k_, v in seen.items():
                if id(v) in vals and vals[id(v)] != k_:
                    out.append(("b", "distinct taxon objects were merged although unify_taxa_by_label=False"))
                    break
                vals[id(v)] = k_
        return out


# =====================================================================================================================
# running one history on both sides
# =====================================================================================================================
KNOWN_PRECONDITION = {"dsadd": "dataset-add-foreign-when-attached", "dsattach": "dataset-attach-over-foreign-components",
                      # purge_taxon_namespace is outside the model's `valid` altogether (theorem purge_closed has its own hypothesis)
                      "tpurge": None, "lpurge": None, "mpurge": None}


SHARED_ID = "tree-held-by-another-list-rebound"


def rebinds_shared_tree(w, op):
    """append/insert/[]= of a tree object that is at this moment a member of ANOTHER tree list bound to a different namespace"""
    k = op[0]
    if k not in ("append", "insert", "setitem"):
        return False
    try:
        tl = w.lists[op[1]]
        t = w.trees[op[2] if k == "append" else op[3]]
    except IndexError:
        return False
    return not tree_rebind_ok(w, t, tl.taxon_namespace, tl)


def classify(w, op, status, problems, shared=False):
    """a tag singling out the input class of a failure (used by known_findings `match`)"""
    k = op[0]
    clauses = {c for c, _ in problems}
    if shared and clauses == {"a-list"}:
        # the documented in-place migration of an original that another collection still holds
        return SHARED_ID
    if k == "dsadd" and op[2] in ("l", "m") and clauses == {"a-dataset"} and status == "ok":
        return "dataset-add-foreign-when-attached"
    if k == "dsattach" and clauses == {"a-dataset"} and status == "ok":
        return "dataset-attach-over-foreign-components"
    if k in ("mmig", "mrec", "dsunify", "chain", "massign") and status == "Conflict" and clauses == {"a-matrix"}:
        return "matrix-merge-refusal-not-atomic"
    if k == "dsunify" and status == "Conflict" and clauses <= {"a-matrix", "a-dataset"}:
        # the same refusal inside unify_taxon_namespaces of a data set that is still attached to its previous namespace
        return "matrix-merge-refusal-not-atomic"
    return "other"


def expected_refusals(w, op):
    """the refusals the statement's domain allows for this op in the current real world, decided here from the objects themselves
    (never from what the library then does): a set of status names.  Anything else that is raised - in particular a TypeError /
    AttributeError / IndexError / KeyError escaping from inside the library - is a crash, not a refusal."""
    k = op[0]
    try:
        if k in ("setitem", "pop", "del"):
            return {"IndexError"} if op[2] >= len(w.lists[op[1]]._trees) else set()
        if k == "remove":
            return {"ValueError"} if not any(t is w.trees[op[2]] for t in w.lists[op[1]]._trees) else set()
        if k in ("mset", "mnew"):
            m, x = w.mats[op[1]], w.nss[op[2]]._taxa[op[3]]
            foreign = not any(x is y for y in m.taxon_namespace._taxa)
            present = any(x is y for y in m._taxon_sequence_map.keys())
            return {"ValueError"} if foreign or (k == "mnew" and present) else set()
        if k in ("mmig", "mrec", "mclone"):
            return {"Conflict"}
        if k == "massign":
            return {"Conflict"} if op[3] else set()
        if k == "mcomb":
            return {"NamespaceIdentity"} if w.mats[op[1]].taxon_namespace is not w.mats[op[2]].taxon_namespace else set()
        if k == "chain":
            return {"Conflict"} if any(g[0] == "m" for g in op[1]) else set()       # TaxonNamespaceReconstructionError; whether it is legitimate is judged by Watch.check
        if k == "dsunify":
            ds = w.dss[op[1]]
            if op[2] is None and not (len(ds.taxon_namespaces) or len(ds.tree_lists) or len(ds.char_matrices)):
                return {"TypeError"}  # attach_taxon_namespace(None) is refused explicitly
            return {"Conflict"}
        if k == "taadd":
            return {"NamespaceIdentity"} if w.trees[op[2]].taxon_namespace is not w.nss[op[1]] else set()
    except IndexError:
        return {"IndexError"}
    return set()


def run_history(ctx, dp, hist, pending, origin="random"):
    """execute on the implementation with the oracle after every step; queue the model comparison"""
    w = World(dp)
    states, statuses = [], []
    failed = None
    nontrivial = False
    for i, op in enumerate(hist):
        watch = Watch(w, op)
        shared = rebinds_shared_tree(w, op)
        if watch.mode == "read" or (watch.mode is not None and watch.before):
            nontrivial = True
        allowed = expected_refusals(w, op)
        status = run_op(w, op)
        statuses.append(status)
        problems = closure_problems(w)
        problems += watch.check(status)
        if status != "ok" and status not in allowed:
            problems.append(("error", "operation %s raised %s on an input for which the only refusals in the statement's domain are %s" % (
                op[0], status, sorted(allowed) or "none")))
        states.append(canon(snapshot(w)))
        if problems:
            cls = classify(w, op, status, problems, shared)
            replay = {"hist": hist[:i + 1], "failed_op": op[0], "class": cls, "status": status,
                      "clauses": sorted({c for c, _ in problems})}
            ctx.fail({"b": "label-map", "b-refused": "refused", "error": "error"}.get(problems[0][0], "closure"), "after step %d %r (%s): %s" % (i, op, status, "; ".join(m for _, m in problems[:4])), replay)
            failed = i
            break
    used = hist[:len(states)]
    ctx.case(used, nontrivial, sample={"history": used, "final": states[-1] if states else ""}, kind=origin)
    for op in used:
        ctx.count("op:" + op[0])
    for s in statuses:
        if s != "ok":
            ctx.count("status:" + s)
    if not any(op[0] in ORACLE_ONLY for op in used):
        pending.append((used, states, statuses, failed))      # labels never change in the model's alphabet: relabelling histories are oracle-only
    return failed is None


def flush(ctx, pending):
    if not pending:
        return
    lines = [enc_history(h) for h, _, _, _ in pending]
    outs = ctx.ask(lines)
    for (hist, states, statuses, failed), out in zip(pending, outs):
        if out is None:
            continue
        ctx.compared()
        parts = out.split(" | ") if out else []
        model = []
        bad = None
        if out.startswith("bad") or len(parts) != len(hist):
            bad = out[:200]
        else:
            for p in parts:
                st, _, rest = p.partition(" ")
                valid, _, rest = rest.partition(" ")
                try:
                    model.append((st, valid, canon(parse_model_state(rest))))
                except Exception as e:  # noqa
                    bad = "unparsable model state: %s (%s)" % (p[:100], e)
                    break
        if bad is not None:
            ctx.disagree("hist", {"hist": hist}, states[-1] if states else "", bad)
            continue
        for i, ((mst, mvalid, mstate), ist, istate) in enumerate(zip(model, statuses, states)):
            if mst != ist or mstate != istate:
                ctx.disagree("step %d %r" % (i, hist[i]), {"hist": hist[:i + 1]}, "%s %s" % (ist, istate), "%s %s" % (mst, mstate))
                break
            if mvalid == "invalid" and ist == "ok" and hist[i][0] not in KNOWN_PRECONDITION and i != failed:
                # generators only produce ops inside the ownership precondition; the model's `Valid` must agree
                ctx.disagree("valid %d %r" % (i, hist[i]), {"hist": hist[:i + 1]}, "generated as valid", "model says invalid")
                break
    del pending[:]


# =====================================================================================================================
# generators
# =====================================================================================================================
class Gen(object):
    """random history generator that tracks just enough (counts, list contents, ownership, attachment) to stay inside
    the ownership precondition; it is re-derived from the real world after every op, not from the model."""

    def __init__(self, rng, dp):
        self.rng, self.dp = rng, dp

    def labels(self, k, pool):
        return [self.rng.choice(pool) for _ in range(k)]

    def setup(self):
        rng = self.rng
        hist = []
        style = rng.random()
        pool = list(LABEL_POOL) if style < 0.7 else ["A", "B", "a", "C"]
        n_ns = rng.randint(2, 4)
        sizes = []
        for i in range(n_ns):
            k = rng.randint(0, 5)
            labs = []
            while len(labs) < k:
                s = rng.choice(pool)
                if s not in labs or rng.random() < 0.08:
                    labs.append(s)
            hist.append(["ns", 1 if rng.random() < 0.35 else 0, labs])
            sizes.append(len(labs))
        for _ in range(rng.randint(2, 6)):
            n = rng.randrange(n_ns)
            hist.append(self.tree_op(n, sizes[n]))
        for _ in range(rng.randint(1, 3)):
            hist.append(["tlist", rng.randrange(n_ns) if rng.random() < 0.8 else None])
        for _ in range(rng.randint(0, 2)):
            n = rng.randrange(n_ns)
            ks = [i for i in range(sizes[n]) if rng.random() < 0.7]
            hist.append(["mat", n, ks])
        for _ in range(rng.randint(0, 2)):
            hist.append(["ds"])
        rest = hist[n_ns:]
        rng.shuffle(rest)
        return hist[:n_ns] + rest

    def tree_op(self, n, size):
        rng = self.rng
        k = rng.randint(1, 6)
        taxa, parents = [], []
        for i in range(k):
            if size == 0 or rng.random() < 0.15:
                taxa.append(None)
            else:
                taxa.append(rng.randrange(size))
            parents.append(-1 if i == 0 else None)
        # pre-order consistent parents: attach to a node on the current rightmost path
        path = [0]
        for i in range(1, k):
            j = rng.randrange(len(path))
            parents[i] = path[j]
            path = path[:j + 1] + [i]
        return ["tree", n, taxa, parents]


def owners_of_tree(w, t):
    return [l for l in w.lists if any(x is t for x in l._trees)]


def attached_owner_conflict(w, obj, ns):
    """is obj (tree list / matrix) a component of an attached data set whose namespace is not ns"""
    for d in w.dss:
        if d.attached_taxon_namespace is not None and d.attached_taxon_namespace is not ns:
            if any(obj is x for x in d.tree_lists) or any(obj is x for x in d.char_matrices):
                return True
    return False


def purge_in_domain(w, k, obj):
    """nothing but `obj` (and, for a tree list, its own trees) is bound to obj's namespace"""
    ns = obj.taxon_namespace
    own = [obj] if k == "tpurge" else (list(obj._trees) if k == "lpurge" else [])
    if any(t.taxon_namespace is ns and not any(t is o for o in own) for t in w.trees):
        return False
    return not any(m.taxon_namespace is ns and m is not obj for m in w.mats)


def tree_rebind_ok(w, t, ns, by=None):
    """may tree t be re-bound to namespace ns (by list `by`) without breaking another collection?"""
    if t.taxon_namespace is ns:
        return True
    return all(l is by for l in owners_of_tree(w, t))


def list_rebind_ok(w, l, ns):
    if l.taxon_namespace is ns:
        return True
    for t in l._trees:
        if not all(o is l for o in owners_of_tree(w, t)):
            return False
    return not attached_owner_conflict(w, l, ns)


def random_op(rng, w, allow_known=False):
    """one random op valid in the current real world (None if the drawn kind is not applicable)"""
    nN, nT, nL, nM, nD = len(w.nss), len(w.trees), len(w.lists), len(w.mats), len(w.dss)
    kinds = ["append", "append", "insert", "setitem", "setslice", "extend", "iadd", "add", "read", "newtree", "getslice", "pop",
             "remove", "lclone", "tclone", "mclone", "tmig", "trec", "lmig", "lrec", "mmig", "mrec", "mset", "mnew", "dsadd",
             "dsnewlist", "dsnewmat", "dsnewns", "dsattach", "dsdetach", "dsunify", "dsread", "tree", "tlist", "ns", "mat", "taadd", "newtreeseed", "newtreeseed", "treeseed", "read", "tlget", "tget", "mget", "chain", "chain",
             "tassign", "lassign", "massign", "mcomb", "mcomb", "tpurge", "lpurge", "mpurge"]
    k = rng.choice(kinds)
    pool = LABEL_POOL

    def labs(lo, hi, doc=False):
        out = []
        for _ in range(rng.randint(lo, hi)):
            s = rng.choice(pool)
            if (s.lower() not in [x.lower() for x in out]) if doc else (s not in out):
                out.append(s)
        return out
    if k == "ns":
        return ["ns", 1 if rng.random() < 0.4 else 0, labs(0, 4)]
    if k == "tlist":
        return ["tlist", rng.randrange(nN) if nN and rng.random() < 0.8 else None]
    if k == "tree" and nN:
        n = rng.randrange(nN)
        return Gen(rng, w.dp).tree_op(n, len(w.nss[n]))
    if k == "mat" and nN:
        n = rng.randrange(nN)
        return ["mat", n, [i for i in range(len(w.nss[n])) if rng.random() < 0.6]]
    if k == "newtreeseed" and nL and nT:
        return ["newtreeseed", rng.randrange(nL), rng.randrange(nT), 1 if rng.random() < 0.3 else 0]
    if k == "treeseed" and nT:
        return ["treeseed", rng.randrange(nN) if nN and rng.random() < 0.75 else None, rng.randrange(nT), 1 if rng.random() < 0.3 else 0]
    if k == "chain" and nN:
        # 2-4 migrations of different objects (no tree of a chosen list is chosen itself) sharing one memo, mostly into different
        # namespaces: a memoized taxon then has to be accessioned into the next target
        cands = []
        for i, t in enumerate(w.trees):
            if not owners_of_tree(w, t):
                cands.append(("t", i))
        for i, l in enumerate(w.lists):
            if all(all(o is l for o in owners_of_tree(w, t)) for t in l._trees) and len(set(map(id, l._trees))) == len(l._trees):
                cands.append(("l", i))
        for i, m in enumerate(w.mats):
            cands.append(("m", i))
        rng.shuffle(cands)
        gs = []
        for kind, i in cands[:rng.randint(2, 4)]:
            obj = {"t": w.trees, "l": w.lists, "m": w.mats}[kind][i]
            ns_ok = [n for n in range(nN) if (kind == "t" and tree_rebind_ok(w, obj, w.nss[n])) or
                     (kind == "l" and list_rebind_ok(w, obj, w.nss[n])) or
                     (kind == "m" and (obj.taxon_namespace is w.nss[n] or not attached_owner_conflict(w, obj, w.nss[n])))]
            if ns_ok:
                gs.append([kind, i, rng.choice(ns_ok), 0 if rng.random() < 0.15 else 1])
        return ["chain", gs] if len(gs) >= 2 else None
    if k == "tassign" and nT:
        t = rng.randrange(nT)
        cands = [n for n in range(nN) if tree_rebind_ok(w, w.trees[t], w.nss[n])]
        return ["tassign", t, rng.choice(cands), 1 if rng.random() < 0.5 else 0] if cands else None
    if k == "lassign" and nL:
        L = rng.randrange(nL)
        cands = [n for n in range(nN) if list_rebind_ok(w, w.lists[L], w.nss[n])]
        return ["lassign", L, rng.choice(cands), 1 if rng.random() < 0.5 else 0] if cands else None
    if k == "massign" and nM:
        M = rng.randrange(nM)
        cands = [n for n in range(nN) if w.mats[M].taxon_namespace is w.nss[n] or not attached_owner_conflict(w, w.mats[M], w.nss[n])]
        return ["massign", M, rng.choice(cands), 1 if rng.random() < 0.5 else 0] if cands else None
    if k == "mcomb" and nM:
        M = rng.randrange(nM)
        same = [i for i, m in enumerate(w.mats) if m.taxon_namespace is w.mats[M].taxon_namespace]
        M2 = rng.choice(same) if rng.random() < 0.75 else rng.randrange(nM)   # mostly the accepted case, sometimes the refusal
        return ["mcomb", M, M2, rng.choice(sorted(MCOMB))]
    if k in ("tpurge", "lpurge", "mpurge"):
        # purge_taxon_namespace looks at `self` only (documented): generated when nothing else is bound to the namespace
        arr = {"tpurge": w.trees, "lpurge": w.lists, "mpurge": w.mats}[k]
        cands = [i for i, o in enumerate(arr) if purge_in_domain(w, k, o)]
        return [k, rng.choice(cands)] if cands else None
    if k == "taadd" and nT and nN:
        t = rng.randrange(nT)
        # only foreign namespaces (the refusal): accepting a tree re-encodes it (unifurcations are suppressed), which is C06's matter
        own = w.ns_id(w.trees[t].taxon_namespace)
        cands = [n for n in range(nN) if n != own]
        return ["taadd", rng.choice(cands), t] if cands else None
    if k in ("append", "insert", "setitem") and nL and nT:
        L = rng.randrange(nL)
        tl = w.lists[L]
        cands = [i for i, t in enumerate(w.trees) if allow_known == "shared" or tree_rebind_ok(w, t, tl.taxon_namespace, tl)]
        if not cands:
            return None
        t = rng.choice(cands)
        strat = "add" if rng.random() < 0.2 else "migrate"
        if k == "append":
            return ["append", L, t, strat]
        neg = ["neg"] if rng.random() < 0.25 else []      # the same position written as a negative index
        if k == "insert":
            return ["insert", L, rng.randint(0, len(tl)), t, strat] + neg
        if rng.random() < 0.04:
            return ["setitem", L, len(tl) + rng.randint(0, 2), t]
        if len(tl):
            return ["setitem", L, rng.randrange(len(tl)), t] + neg
        return None
    if k in ("setslice", "extend", "iadd", "add") and nL:
        L = rng.randrange(nL)
        tl = w.lists[L]
        if rng.random() < 0.5:
            kind, arg = "L", rng.randrange(nL)
            if arg == L and k in ("extend", "iadd"):
                return None  # `tl.extend(tl)` appends to the list it iterates over and never ends (not a C11 matter)
        else:
            cands = [i for i, t in enumerate(w.trees) if tree_rebind_ok(w, t, tl.taxon_namespace, tl if k != "add" else None)]
            rng.shuffle(cands)
            kind, arg = "t", cands[:rng.randint(0, 3)]
        if k == "setslice":
            a = rng.randint(0, len(tl))
            b = rng.randint(a, len(tl))
            if kind == "t" and rng.random() < 0.3:
                return ["setslicegen", L, a, b, arg]          # the same trees handed over as a generator
            return ["setslice", L, a, b, kind, arg]
        return [k, L, kind, arg]
    def gen_docs(schema):
        if schema == "nexml":
            # the <otu> elements of one document are distinct OTUs: their labels differ also under the case rule
            tax = labs(1, 5, True)
            return [[x for x in tax if rng.random() < 0.8] or tax[:1] for _ in range(rng.randint(1, 2))]
        return [labs(1, 4, True) for _ in range(rng.randint(1, 2))]
    if k == "read" and nL:
        schema = rng.choice(["newick", "nexus", "nexml"])
        return ["read", rng.randrange(nL), gen_docs(schema), schema]
    if k == "tlget" and nN:
        schema = rng.choice(["newick", "nexus", "nexml"])
        return ["tlget", rng.randrange(nN), gen_docs(schema), schema]
    if k == "tget" and nN:
        return ["tget", rng.randrange(nN), labs(1, 4, True), rng.choice(["newick", "nexus", "nexml"])]
    if k == "mget" and nN:
        return ["mget", rng.randrange(nN), labs(1, 4, True), rng.choice(["nexus", "nexml"])]
    if k == "newtree" and nL:
        return ["newtree", rng.randrange(nL), rng.randrange(nT) if nT and rng.random() < 0.6 else None]
    if k == "getslice" and nL:
        L = rng.randrange(nL)
        a = rng.randint(0, len(w.lists[L]))
        return ["getslice", L, a, rng.randint(a, len(w.lists[L]))]
    if k == "pop" and nL:
        L = rng.randrange(nL)
        if rng.random() < 0.04:
            return [rng.choice(["pop", "del"]), L, len(w.lists[L]) + rng.randint(0, 2)]
        if len(w.lists[L]):
            r = rng.random()
            if r < 0.15:
                return ["pop", L, len(w.lists[L]) - 1, "last"]       # `tl.pop()`
            return [rng.choice(["pop", "del"]), L, rng.randrange(len(w.lists[L]))] + (["neg"] if r < 0.4 else [])
        return None
    if k == "remove" and nL:
        L = rng.randrange(nL)
        if rng.random() < 0.04 and nT:
            return ["remove", L, rng.randrange(nT)]   # mostly a tree that is not in the list: ValueError, nothing changes
        if len(w.lists[L]):
            return ["remove", L, w._reg(w.trees, rng.choice(w.lists[L]._trees))]
        return None
    if k == "lclone" and nL:
        return ["lclone", rng.randrange(nL), rng.randrange(nN) if rng.random() < 0.6 else None]
    if k == "tclone" and nT:
        return ["tclone", rng.randrange(nT), rng.randrange(nN) if rng.random() < 0.7 else None]
    if k == "mclone" and nM:
        return ["mclone", rng.randrange(nM), rng.randrange(nN) if rng.random() < 0.7 else None]
    if k == "tmig" and nT:
        t = rng.randrange(nT)
        cands = [n for n in range(nN) if tree_rebind_ok(w, w.trees[t], w.nss[n])]
        return ["tmig", t, rng.choice(cands), 0 if rng.random() < 0.2 else 1] if cands else None
    if k == "trec" and nT:
        return ["trec", rng.randrange(nT), 0 if rng.random() < 0.3 else 1]
    if k == "lmig" and nL:
        L = rng.randrange(nL)
        cands = [n for n in range(nN) if list_rebind_ok(w, w.lists[L], w.nss[n])]
        return ["lmig", L, rng.choice(cands), 0 if rng.random() < 0.2 else 1] if cands else None
    if k == "lrec" and nL:
        return ["lrec", rng.randrange(nL), 0 if rng.random() < 0.3 else 1]
    if k == "mmig" and nM:
        M = rng.randrange(nM)
        cands = [n for n in range(nN) if w.mats[M].taxon_namespace is w.nss[n] or not attached_owner_conflict(w, w.mats[M], w.nss[n])]
        return ["mmig", M, rng.choice(cands), 0 if rng.random() < 0.2 else 1] if cands else None
    if k == "mrec" and nM:
        return ["mrec", rng.randrange(nM), 0 if rng.random() < 0.3 else 1]
    if k in ("mset", "mnew") and nM:
        M = rng.randrange(nM)
        n = w.ns_id(w.mats[M].taxon_namespace) if rng.random() < 0.7 else rng.randrange(nN)
        if n is None or not len(w.nss[n]):
            return None
        return [k, M, n, rng.randrange(len(w.nss[n]))]
    if k == "dsadd" and nD:
        D = rng.randrange(nD)
        ds = w.dss[D]
        kind = rng.choice("nlm")
        arr = {"n": w.nss, "l": w.lists, "m": w.mats}[kind]
        if not arr:
            return None
        i = rng.randrange(len(arr))
        att = ds.attached_taxon_namespace
        if kind != "n" and att is not None and arr[i].taxon_namespace is not att and not allow_known:
            return None
        return ["dsadd", D, kind, i]
    if k in ("dsnewlist", "dsnewmat", "dsnewns", "dsdetach") and nD:
        return [k, rng.randrange(nD)]
    if k == "dsattach" and nD and nN:
        D = rng.randrange(nD)
        ds = w.dss[D]
        cands = [n for n in range(nN) if allow_known or (all(l.taxon_namespace is w.nss[n] for l in ds.tree_lists) and
                                                          all(m.taxon_namespace is w.nss[n] for m in ds.char_matrices))]
        return ["dsattach", D, rng.choice(cands)] if cands else None
    if k == "dsunify" and nD:
        D = rng.randrange(nD)
        ds = w.dss[D]
        n = rng.randrange(nN) if nN and rng.random() < 0.6 else None
        tgt = None if n is None else w.nss[n]
        # components must be exclusively owned by this data set's lists, and not sit in another attached data set
        for l in ds.tree_lists:
            if not list_rebind_ok(w, l, tgt):
                return None
            for d2 in w.dss:
                if d2 is not ds and d2.attached_taxon_namespace is not None and any(l is x for x in d2.tree_lists) and d2.attached_taxon_namespace is not tgt:
                    return None
        for m in ds.char_matrices:
            if attached_owner_conflict(w, m, tgt) and not (ds.attached_taxon_namespace is not None and all(
                    d2 is ds or not any(m is x for x in d2.char_matrices) or d2.attached_taxon_namespace is None or d2.attached_taxon_namespace is tgt for d2 in w.dss)):
                return None
        return ["dsunify", D, n]
    if k == "dsread" and nD:
        tax = labs(1, 5, True)
        mat = None if rng.random() < 0.4 else [s for s in tax if rng.random() < 0.7]
        trees = None if rng.random() < 0.3 else [[s for s in tax if rng.random() < 0.8] or tax[:1] for _ in range(rng.randint(1, 2))]
        D = rng.randrange(nD)
        schema = rng.choice(["nexus", "nexus", "nexml", "newick"])
        att = w.dss[D].attached_taxon_namespace
        if schema == "nexml" and att is not None and (has_dup_keys(att) or len({str(t.label).lower() for t in att._taxa}) != len(att._taxa)
                                                       and not att.is_case_sensitive):
            schema = "nexus"   # NeXML resolves <otu> labels through a dictionary (last match); the model's dsread is first-match
        if schema == "newick":
            if trees is None:
                schema = "nexus"
            else:
                return ["dsread", D, [], None, trees, "newick"]
        return ["dsread", D, tax, mat, trees, schema]
    return None


ORACLE_ONLY = ("lookup", "relabel")


def relabel_history(rng):
    """a member of a case-insensitive namespace is looked up (directly or by an earlier migration), then relabelled by attribute assignment
    (to a fresh label / another member's label / a case variant), then trees and matrices of a foreign namespace carrying the OLD and the NEW
    label are migrated in; the label-map oracle judges with the labels as they are at migration time"""
    pool = ["A", "B", "C", "D", "E", "Ab", "x y", "c_1"]
    k = rng.randint(1, 4)
    labs0 = rng.sample(pool, k)
    i = rng.randrange(k)
    old = labs0[i]
    mode = rng.choice(["fresh", "fresh", "other", "case"]) if k > 1 else rng.choice(["fresh", "case"])
    new = {"fresh": rng.choice(["Q", "Zed", "new one", "q"]), "other": labs0[(i + 1) % k], "case": old.swapcase()}[mode]
    foreign = [old, new] + [x for x in rng.sample(pool, 2) if x not in (old, new)]
    nf = len(foreign)
    hist = [["ns", 1 if rng.random() < 0.15 else 0, labs0], ["ns", 1 if rng.random() < 0.5 else 0, foreign]]
    trees = [[0, 1], [1, 0], [0], [1], [None, 0, rng.randrange(nf), 1]]
    rng.shuffle(trees)
    trees = trees[:rng.randint(2, 5)]
    for tx in trees:
        hist.append(["tree", 1, tx, [-1] + [0] * (len(tx) - 1)])
    hist.append(["tree", 1, [0], [-1]])                      # tree len(trees): carries the old label, for an EARLIER migration
    early = len(trees)
    hist += [["mat", 1, [rng.choice([0, 1])] + ([2] if nf > 2 and rng.random() < 0.5 else [])], ["tlist", 0], ["tlist", 1]]
    # (1) look-ups before the relabelling
    for j in range(k):
        if j == i or rng.random() < 0.4:
            for how in rng.sample(["get", "has", "require", "lower"], rng.randint(1, 2)):
                hist.append(["lookup", 0, j, how])
    if rng.random() < 0.5:
        hist.append(["append", 0, early, "migrate"])
    # (2) the relabelling
    hist.append(["relabel", 0, i, new])
    if rng.random() < 0.3:
        hist.append(["lookup", 0, i, rng.choice(["get", "has", "lower"])])
    # (3) foreign objects carrying old and new labels are migrated in
    later = []
    free = list(range(len(trees)))
    rng.shuffle(free)
    in_list1 = []
    for t in free:
        r = rng.random()
        if r < 0.35:
            later.append(["append", 0, t, "migrate"])
        elif r < 0.55:
            later.append(["insert", 0, 0, t, "migrate"])
        elif r < 0.7:
            later.append(["tmig", t, 0, 1])
        elif r < 0.8:
            later.append(["tassign", t, 0, 1])
        else:
            in_list1.append(t)
    if in_list1:
        later += [["append", 1, t, "migrate"] for t in in_list1] + [[rng.choice(["lmig", "lassign"]), 1, 0, 1]]
    later.append(rng.choice([["mmig", 0, 0, 1], ["massign", 0, 0, 1], ["mclone", 0, 0]]))
    rng.shuffle(later)
    if in_list1:   # the list migration after its appends
        later = [x for x in later if x[0] not in ("lmig", "lassign")] + [x for x in later if x[0] in ("lmig", "lassign")]
    return hist + later


def random_history(ctx, dp, rng, pending, nops, allow_known):
    """generate and execute step by step (generation looks at the real world to stay inside the precondition)"""
    g = Gen(rng, dp)
    hist = g.setup()
    # generation needs the world: run a private copy while generating, then re-run the finished history for judgement
    w = World(dp)
    for op in hist:
        run_op(w, op)
    if closure_problems(w):
        return run_history(ctx, dp, hist, pending, "random")
    for _ in range(nops):
        op = None
        for _try in range(8):
            op = random_op(rng, w, allow_known)
            if op is not None:
                break
        if op is None:
            continue
        hist.append(op)
        st = run_op(w, op)
        if closure_problems(w):
            break
    return run_history(ctx, dp, hist, pending, "random")


def run(ctx):
    dp = __import__("dendropy")
    rng = ctx.rng
    # the budget is counted from here (waiting for the shared lake build lock must not eat the exploration time)
    ctx.t0 = __import__("time").time()
    ctx.set_budget(33, 330)
    pending = []
    import common
    shared_registered = any(k.get("property") == ID and k.get("id") == SHARED_ID for k in common.load_known().get("known", []))
    if not shared_registered:
        ctx.note("known finding %s is not registered: histories re-binding a tree held by another list are not generated" % SHARED_ID)
    for hist in TARGETED:
        run_history(ctx, dp, hist, pending, "targeted")
    for _ in range(ctx.pick(250, 3000)):
        run_history(ctx, dp, relabel_history(rng), pending, "relabel")
    n = ctx.pick(3500, 60000)
    for i in range(n):
        if ctx.out_of_time():
            break
        r = rng.random()
        # histories leaving the ownership domain are explored once their finding is registered (they end at the first failure)
        allow = True if r < 0.05 else ("shared" if r < 0.08 and shared_registered else False)
        random_history(ctx, dp, rng, pending, rng.randint(1, 25), allow_known=allow)
        if len(pending) >= 300:
            flush(ctx, pending)
    flush(ctx, pending)
    if ctx.tier == "thorough":
        exhaustive(ctx, dp, pending)
        flush(ctx, pending)


# ---------------------------------------------------------------------------------------------------------------------
SMALL_SETUP = [
    ["ns", 0, ["A", "b"]], ["ns", 1, ["a", "A", "C"]], ["ns", 0, []],
    ["tree", 0, [None, 0, 1], [-1, 0, 0]], ["tree", 1, [2, 0, 1], [-1, 0, 0]],
    ["tlist", 0], ["tlist", 1], ["mat", 1, [1, 2]], ["ds"],
]


def small_ops():
    """the op alphabet instantiated over the fixed small world (ids beyond the set-up objects refer to objects created by earlier ops)"""
    ops = []
    for L in (0, 1):
        for t in (0, 1, 2):
            ops.append(["append", L, t, "migrate"])
        ops.append(["append", L, 1 - L, "add"])
        ops.append(["insert", L, 0, 1 - L, "migrate"])
        ops.append(["setitem", L, 0, 1 - L])
        ops.append(["setslice", L, 0, 1, "L", 1 - L])
        ops.append(["setslice", L, 0, 0, "t", [1 - L]])
        ops.append(["extend", L, "L", 1 - L])
        ops.append(["iadd", L, "t", [0, 1]])
        ops.append(["add", L, "L", 1 - L])
        ops.append(["read", L, [["a", "B"], ["A"]]])
        ops.append(["newtree", L, 1 - L])
        ops.append(["newtreeseed", L, 1 - L, 0])
        ops.append(["pop", L, 0])
        ops.append(["lmig", L, 2, 1])
        ops.append(["lmig", L, 1 - L, 0])
        ops.append(["lclone", L, 2])
        ops.append(["dsadd", 0, "l", L])
    ops += [["tassign", 1, 0, 1], ["tassign", 1, 2, 0], ["lassign", 0, 2, 0], ["lassign", 1, 0, 1], ["massign", 0, 0, 1], ["massign", 0, 2, 0],
            ["mcomb", 0, 0, "update_sequences"], ["lpurge", 1], ["setitem", 0, 0, 1, "neg"],
            ["setslicegen", 0, 0, 1, [1]]]
    ops += [["treeseed", 0, 1, 1], ["tmig", 0, 1, 1], ["tmig", 1, 0, 1], ["tmig", 1, 2, 0], ["trec", 1, 1], ["tclone", 1, 0], ["mmig", 0, 0, 1], ["mmig", 0, 2, 1],
            ["mrec", 0, 1], ["mclone", 0, 0], ["mset", 0, 1, 0], ["mnew", 0, 1, 0], ["dsadd", 0, "m", 0], ["dsnewlist", 0], ["dsattach", 0, 0],
            ["dsattach", 0, 2], ["dsdetach", 0], ["dsunify", 0, None], ["dsunify", 0, 2], ["dsread", 0, ["A", "a", "D"], ["A", "D"], [["a", "D"]]]]
    return ops


def op_in_domain(w, op):
    """ownership precondition + index validity of a small-scope op in the current real world"""
    k = op[0]
    try:
        if k in ("append", "insert", "setitem"):
            tl = w.lists[op[1]]
            t = w.trees[op[2] if k == "append" else op[3]]
            if k == "setitem" and not len(tl):
                return False
            return tree_rebind_ok(w, t, tl.taxon_namespace, tl)
        if k in ("setslice", "extend", "iadd", "add"):
            tl = w.lists[op[1]]
            kind, arg = (op[4], op[5]) if k == "setslice" else (op[2], op[3])
            if kind == "L":
                return arg < len(w.lists)
            return all(tree_rebind_ok(w, w.trees[t], tl.taxon_namespace, tl if k != "add" else None) for t in arg)
        if k == "setslicegen":
            tl = w.lists[op[1]]
            return all(tree_rebind_ok(w, w.trees[t], tl.taxon_namespace, tl) for t in op[4])
        if k == "pop":
            return len(w.lists[op[1]]) > op[2]
        if k == "newtree":
            return op[2] is None or op[2] < len(w.trees)
        if k in ("tmig", "tassign"):
            return tree_rebind_ok(w, w.trees[op[1]], w.nss[op[2]])
        if k in ("lmig", "lassign"):
            return list_rebind_ok(w, w.lists[op[1]], w.nss[op[2]])
        if k in ("tpurge", "lpurge", "mpurge"):
            return purge_in_domain(w, k, {"tpurge": w.trees, "lpurge": w.lists, "mpurge": w.mats}[k][op[1]])
        if k in ("mmig", "massign"):
            return w.mats[op[1]].taxon_namespace is w.nss[op[2]] or not attached_owner_conflict(w, w.mats[op[1]], w.nss[op[2]])
        if k == "dsadd":
            ds = w.dss[op[1]]
            obj = {"n": w.nss, "l": w.lists, "m": w.mats}[op[2]][op[3]]
            return op[2] == "n" or ds.attached_taxon_namespace is None or obj.taxon_namespace is ds.attached_taxon_namespace
        if k == "dsattach":
            ds = w.dss[op[1]]
            ns = w.nss[op[2]]
            return all(l.taxon_namespace is ns for l in ds.tree_lists) and all(m.taxon_namespace is ns for m in ds.char_matrices)
        if k == "dsunify":
            ds = w.dss[op[1]]
            tgt = None if op[2] is None else w.nss[op[2]]
            return all(list_rebind_ok(w, l, tgt) for l in ds.tree_lists)
        return True
    except IndexError:
        return False


def exhaustive(ctx, dp, pending):
    ops = small_ops()
    count = 0
    depth = 3
    t_end = 760
    cut = [False]

    def rec(prefix, d):
        nonlocal count
        if d == 0:
            return
        for op in ops:
            if (ctx.t0 + t_end) < __import__("time").time():
                cut[0] = True
                return
            w = World(dp)
            for o in SMALL_SETUP + prefix:
                run_op(w, o)
            if not op_in_domain(w, op):
                continue
            hist = prefix + [op]
            if d == 1:
                run_history(ctx, dp, SMALL_SETUP + hist, pending, "exhaustive")
                count += 1
                if len(pending) >= 400:
                    flush(ctx, pending)
            else:
                st = run_op(w, op)
                if closure_problems(w):
                    run_history(ctx, dp, SMALL_SETUP + hist, pending, "exhaustive")
                    continue
                rec(hist, d - 1)
    for d in range(1, depth + 1):
        rec([], d)
    ctx.extra["exhaustive_small_scope"] = ("%d histories: every in-domain sequence of <= %d ops from %d instantiated ops over a fixed world "
                                           "(3 namespaces, 2 trees, 2 lists, 1 matrix, 1 data set)%s" % (
                                               count, depth, len(ops), "; depth %d cut short by the time cap" % depth if cut[0] else ""))


def _world(*more):
    return [["ns", 0, ["A", "b"]], ["ns", 1, ["a", "A", "C"]], ["ns", 0, []], ["tree", 1, [2, 0, 1], [-1, 0, 0]], ["tree", 1, [1, 0], [-1, 0]],
            ["tlist", 0], ["tlist", 1], ["mat", 1, [1, 2]], ["ds"]] + [list(m) for m in more]


# histories aimed at the kernels of Gen/C11Kernels.lean (defaults, dispatch, guards, setter, one-memo threading)
TARGETED = [
    _world(["append", 0, 0, "migrate"]), _world(["append", 0, 0, "add"]), _world(["insert", 0, 0, 0, "migrate"]),
    _world(["append", 0, 1, "migrate"], ["setitem", 0, 0, 0]), _world(["setslice", 0, 0, 0, "t", [0, 1]]), _world(["extend", 0, "t", [0, 1]]),
    _world(["iadd", 0, "t", [1]]), _world(["add", 0, "t", [0]]), _world(["append", 1, 0, "migrate"], ["append", 1, 1, "migrate"], ["extend", 0, "L", 1]),
    _world(["tassign", 0, 0, 1]), _world(["tassign", 0, 0, 0]), _world(["tassign", 0, 1, 1]), _world(["tassign", 0, 2, 1]),
    _world(["append", 1, 0, "migrate"], ["append", 1, 1, "migrate"], ["lassign", 1, 0, 1]),
    _world(["append", 1, 0, "migrate"], ["append", 1, 1, "migrate"], ["lassign", 1, 2, 0]),
    _world(["append", 1, 0, "migrate"], ["append", 1, 1, "migrate"], ["lassign", 1, 1, 1]),
    _world(["massign", 0, 2, 1]), _world(["massign", 0, 2, 0]), _world(["massign", 0, 1, 1]), _world(["massign", 0, 0, 1]),
    _world(["tmig", 0, 0, 1]), _world(["tmig", 0, 0, 0]), _world(["trec", 0, 0]), _world(["trec", 0, 1]),
    _world(["append", 1, 0, "migrate"], ["append", 1, 1, "migrate"], ["lmig", 1, 0, 0]),
    _world(["append", 1, 0, "migrate"], ["append", 1, 1, "migrate"], ["lmig", 1, 0, 1]),
    _world(["append", 1, 0, "migrate"], ["append", 1, 1, "migrate"], ["lmig", 1, 2, 0]),
    _world(["append", 1, 0, "migrate"], ["append", 1, 1, "migrate"], ["lrec", 1, 0]),
    _world(["mmig", 0, 2, 0]), _world(["mmig", 0, 2, 1]), _world(["mmig", 0, 0, 0]), _world(["mrec", 0, 0]), _world(["mrec", 0, 1]),
    _world(["append", 1, 0, "migrate"], ["tlist", 1], ["append", 2, 1, "migrate"], ["dsadd", 0, "l", 1], ["dsadd", 0, "l", 2], ["dsadd", 0, "m", 0],
           ["dsunify", 0, 2]),
    _world(["append", 1, 0, "migrate"], ["tlist", 1], ["append", 2, 1, "migrate"], ["dsadd", 0, "l", 1], ["dsadd", 0, "l", 2], ["dsunify", 0, None]),
    _world(["mcomb", 0, 0, "update_sequences"]), _world(["mat", 0, [0]], ["mcomb", 0, 1, "add_sequences"]), _world(["mat", 1, [0]], ["mcomb", 1, 0, "extend_matrix"]),
    _world(["append", 1, 0, "migrate"], ["lpurge", 1]),
    # slice assignment with a longer / shorter / empty / one-shot operand
    _world(["append", 0, 1, "migrate"], ["setslice", 0, 0, 1, "t", [0, 1]]), _world(["append", 0, 1, "migrate"], ["setslice", 0, 1, 1, "t", [0]]),
    _world(["append", 0, 1, "migrate"], ["append", 0, 0, "migrate"], ["setslice", 0, 0, 2, "t", [1]]),
    _world(["append", 0, 1, "migrate"], ["setslice", 0, 0, 1, "t", []]), _world(["append", 0, 1, "migrate"], ["setslicegen", 0, 0, 1, [0]]),
    _world(["append", 1, 0, "migrate"], ["append", 1, 1, "migrate"], ["setslice", 0, 0, 0, "L", 1]),
    # DataSet.unify_taxon_namespaces after a component was migrated behind the data set's back (its namespace list is stale)
    _world(["append", 1, 0, "migrate"], ["dsadd", 0, "l", 1], ["lmig", 1, 2, 1], ["dsunify", 0, None]),
    _world(["append", 1, 0, "migrate"], ["dsadd", 0, "l", 1], ["lmig", 1, 2, 1], ["dsunify", 0, 1]),
    _world(["dsadd", 0, "m", 0], ["mmig", 0, 2, 1], ["dsunify", 0, None]),
]


def search(ctx, broken):
    """an obligation broke (generation, bridge, build) or the model disagreed: look for an input on which the real code contradicts the
    statement - first the histories aimed at the regenerated kernels, then random ones"""
    dp = __import__("dendropy")
    pending = []
    for hist in TARGETED:
        if ctx.failures:
            break
        run_history(ctx, dp, hist, pending, "search")
    for _ in range(300):
        if ctx.failures:
            break
        run_history(ctx, dp, relabel_history(ctx.rng), pending, "search")
    n = ctx.pick(400, 4000)
    for _ in range(n):
        if ctx.failures or ctx.out_of_time():
            break
        random_history(ctx, dp, ctx.rng, pending, ctx.rng.randint(1, 20), allow_known=False)
    flush(ctx, pending)
    ctx.count("targeted search histories after a broken obligation / disagreement", len(TARGETED))


def replay(ctx, rec):
    dp = __import__("dendropy")
    pending = []
    run_history(ctx, dp, rec["replay"]["hist"], pending, "replay")
    flush(ctx, pending)
