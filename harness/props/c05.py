"""C05 - split frequencies, consensus trees and support annotations are exact."""
import math
from fractions import Fraction

import common
import treeutil as tu
from common import stable_hash
from props import c01, c04

ID = "C05"
GEN_DEPENDS = ["PyBits", "C05Kernels"]
RULE = ("samples of 1-12 trees over 3-8 taxa (namespace sometimes with a hole = removed member, in the property's domain; sometimes with an "
        "extra member no tree carries, outside the domain and judged on the domain-free clauses only), drawn around a base topology so "
        "that majority splits exist, rooted / unrooted / unspecified rooting (rarely mixed), polytomies and unary nodes, dyadic / zero / "
        "None lengths, tree weights None / 1 / dyadic / all zero, use_tree_weights on and off, thresholds {None, 0, 1/4, 1/2, "
        "GREATER_THAN_HALF, 5/8, 3/4, 1} plus ATTAINABLE frequencies k/n (n trees, n in {3,5,6,7,9,...,15,49,98,103,107}, unit weights, handed over "
        "as float(k)/n and judged by the integer comparison count >= k; oracle only); unanimous splits must be reported as exactly 1.0; targets from the sample or perturbed; support as fraction / percentage / label; samples ASSEMBLED by TreeArray merges (a + b, +=, update, extend) "
        "whose operands are kept, grown, and judged like the result; histories of summarising calls with DIFFERENT settings on one "
        "collection (percentage, label, set_edge_lengths, attribute name), each judged under its own settings only; every case is a "
        "self-contained description (tokens of every tree) that `--replay` re-runs; op `annot`: ONE summarising call with drawn settings "
        "(percentage, label with 0/1/2/3/4/6 places, set_edge_lengths None/keep/support/clear/mean-length/median-length, minimum_edge_length, "
        "weights making dyadic frequencies such as 1/32 = rounding ties, rarely NOTHING counted) on a target in or out of encoded form, through "
        "TreeArray or SplitDistribution, everything it writes compared node by node with the model; collapse targets whose rooting does not "
        "fit the sample (deliberate refusal); op `refused`: histories of OFFERS to a TreeArray (add_tree, batch add_trees), a SplitDistribution "
        "and a TreeList-derived distribution under every combination of use_tree_weights / ignore_node_ages / ignore_edge_lengths, in which "
        "1-3 offers are ones the library refuses (non-ultrametric tree while node ages are collected, tree of another namespace, rooting the "
        "array does not take, leaf taxon outside the namespace, non-numeric weight) and the caller carries on; afterwards frequencies, counts, "
        "value lists, consensus, supports, summaries, collapse, scores/MCC and the totals are judged against the trees actually held, and the "
        "history (refused offers as `X` events) goes through the cache model; merges INTO an empty array built with the opposite "
        "use_tree_weights; non-trivial = at least two distinct topologies")
MODELLED_NOT_VERIFIED = [
    "C05: the Lean model (Model/C05.lean on C01/C04) is hand-written from SplitDistribution.count_splits_on_tree / calc_freqs / consensus_tree, "
    "TreeArray.calculate_*_of_split_supports, summarize_splits_on_tree (support) and collapse_edges_with_less_than_minimum_support; tied per "
    "sample (frequencies, consensus tree with child order, scores, maximiser when unique, per-split count/mean/median/min/max/variance as "
    "exact rationals, supports written on a target, collapsed tree, and — op `hist` — the answers of frequency and summary queries "
    "interleaved with additions on ONE distribution, through the modelled cache tables; op `annot2`: per node of a target the support, "
    "the label string, the edge length after the call and the length summary written, for every setting of one summarising call; the rooting "
    "refusals of collapse). Its closed-form kernels are NOT trusted copies: Gen/C05Kernels.lean is regenerated from the source on every run "
    "(weight_to_use, normaliser, stored frequency, the three recalculate-iff tests and calc_freqs' stamps, the consensus keep test with its "
    "1e-7 clause / sort key / direction, GREATER_THAN_HALF and the min_freq defaults, the collapse node test and rooting refusals, which "
    "splits are scored and when the maximiser moves, percentage factor / configure defaults / no-data values / minimum-length clamp, the "
    "one-pass mean and variance, the median's parity test and index arithmetic) and the kernel_* theorems prove them equal to the model's",
    "C05: harness/gen/c05kernels.py reads float literals as the decimal numbers written (0.0000001 = 1/10^7) and Python float arithmetic as "
    "exact rational arithmetic; the label rendering `fixedPoint` (digits of roundHalfEven) is compared digit by digit whenever the float "
    "support is exact, its rounding core is proved (roundHalfEven_spec), its digit rendering is not; collapse with a threshold <= 0 is outside "
    "the model (the code flags a split absent from the table whatever the threshold; the driver answers bad-threshold)",
    "C05: math.log in the product score (the model multiplies supports; compared through exp within 1e-9), binary64 (weights, lengths and "
    "thresholds are dyadic so exact and float verdicts coincide; means and variances are compared within 1e-9 / 1e-6), HPD / 5-95 quantiles "
    "and annotation objects (not in the statement); node ages are checked by the oracle only (not modelled)",
    "C05: the hypotheses of the majority-rule theorems are derived for the driver's records of well-formed ROOTED trees (treeRecOf_rooted_hts) "
    "and of well-formed not-rooted trees whose ENCODED seed has >= 3 children (treeRecOf_unrooted_hts: every drawing outside the known-finding "
    "class 'basal bifurcation survives'); Good (toH t) = distinct leaf taxa is assumed, not derived from the parser; SplitDistribution.update IS an event of "
    "the cache model (`Ev.merge`, frequencies proved = counting the concatenation); that the merged VALUE LISTS and key order equal those of "
    "sequential counting is proved at lookup level for splits of the merged-in trees (merge_lengths_counted); the KEY ORDER of the merged "
    "dicts is correspondence only (`hist` summaries after merges)",
]
EXPLANATION = ("Theorems (all about the definitions the driver runs): frequency = weighted count / normaliser, 0 for absent splits; "
               "majority_consensus_reaches/_exact: rooted samples, threshold > 1/2 -> the consensus clades are exactly the star's plus the "
               "counted splits whose frequency reaches the threshold (strict_consensus_exact: threshold 1, unit weights, < 10^7 trees -> "
               "exactly the splits present in every tree); consensus_only_candidates + consensus_greedy_by_frequency: any threshold and "
               "rooting -> nothing below the threshold, pairwise compatible, and a skipped candidate is blocked by a clade that comes from "
               "an earlier, at least as frequent candidate; consensus_spans; consensus_rooting_spec (rooted iff some tree counted and all "
               "rooted); treeRecOf_rooted_clades/_nodup/_hts (the driver's record of a well-formed rooted tree lists, once each, the clades of a "
               "well-formed hierarchy: the hypotheses of the majority theorems hold for driver-built records); "
               "collapse_removes_exactly (the internal nodes left are exactly those with frequency >= threshold, root-to-tip kept); "
               "stats_spec (mean, median/min/max off a sorted permutation, sample variance); argmaxFirst_spec; "
               "majority_consensus_unrooted_reaches/_exact (not-rooted records: normalised splits, prep's complement handling); "
               "freq_never_stale (over every history of additions / merges through update / refused offers / frequency queries / summary "
               "queries / age-table reads the cached tables answer as if recomputed from the current counts) + merge_freq_spec (a "
               "distribution that counted ts1 and is updated from one that counted ts2 reports the frequencies, tree count and weight sum of "
               "one that counted ts1 ++ ts2) + merge_lengths_spec / merge_lengths_counted (value lists after a merge: the receiver's list followed by "
               "the other's; for counted distributions the split's values over ts1 then ts2) + restore_rooted_topology / "
               "restore_unrooted_topology (restoreTree = C01 build on the record's stored splits is the input tree up to child order and "
               "unifurcations; not rooted: same canonical re-seeding, >= 3 taxa) + mcc_tree_topology (rooted samples over exactly the "
               "namespace members: mccTree on the reported index is the input tree at that index, whose score is maximal; the driver "
               "prints it in section `mcctrees`, which the harness does not compare yet — MCC topology is judged by the oracle); lengths_spec (the summarised "
               "list of a split is exactly its values over the counted records, in order); freq_weighted_contains (Nodup records: weighted "
               "fraction of the trees containing the split); majority_consensus_reaches_ns + driver_majority_exact (namespaces with removed "
               "members: all only has to contain the members' bits; composed with treeRecOf, countAll and the driver's own rooting flag; "
               "Good (toH t) = distinct leaf taxa is assumed, not derived from the parser); "
               "scored_spec, score_spec, mcc_index_spec (scores are the sum / product of the scored splits' frequencies and the reported "
               "index is the first maximiser); parseTree_lenWF + collapse_keeps_root_tip_parsed (no side condition on parsed input); "
               "majority_consensus_unrooted_reaches_ns (not-rooted, namespaces with removed members); treeRecOf_unrooted_hts (not-rooted bridge for "
               "every seed drawing whose encoded seed has degree >= 3); parsed_encoded_ids_distinct + collapse_parsed_exact + collapseBelow_total "
               "(parsed targets: ids distinct through the encoding, exactly the weak internal edges go, and the call answers when no leaf edge is "
               "weak); strict_consensus_weighted(_exact) (threshold 1 under arbitrary non-negative weights: the tolerance admits exactly the splits "
               "whose lacking weight is <= 1e-7 of the total; every split of every tree when each weight exceeds that); "
               "kernel_weight / kernel_freq / kernel_cache / kernel_candidates / kernel_default_threshold / kernel_collapse / kernel_scores / "
               "kernel_summarizer / kernel_stats / kernel_median (tie A: each kernel regenerated from the current source equals the model's "
               "definition; the default threshold GREATER_THAN_HALF is >= 1/2, at most 1e-15 above it and outside the 1e-7 clause — it "
               "currently IS 1/2, so the default consensus is the greedy one); annotate_spec (one summarising call decorates exactly the "
               "nodes of the encoded target, support = frequency of the node's own split, x100 when asked, label iff asked, each "
               "set_edge_lengths mode writes what it names, raised to the minimum) + summary_of_counted (the summary looked up is the "
               "statistics of exactly that split's values over the counted trees, none when no tree has it) + annotate_answers_iff + "
               "roundHalfEven_spec (label rounding: nearest, ties to even); collapseCall_spec + collapseRefuses_spec (the call refuses on "
               "rooting grounds exactly when target and sample differ in rootedness); treeRecOf_unrooted_basal_dup (encoded seed of degree 2 = the known-finding class: both basal edges carry the same normalised "
               "split, the record lists it twice, Nodup fails — with treeRecOf_unrooted_hts every not-rooted drawing is settled); "
               "refused_offers_invisible (a history with refused offers answers every query as the history with them erased: `Ev.refused` "
               "leaves the cache state unchanged); treeRecOf_unrooted_hts_drawn is the former "
               "`_partial` special case of treeRecOf_unrooted_hts (no `_partial` theorem is left; the uncovered not-rooted class is exactly "
               "the known finding `basal bifurcation survives`).")

OPS = ["summ", "collapse", "incremental", "more", "attain", "merge", "annot", "refused"]
OP_WEIGHTS = [0.28, 0.12, 0.11, 0.09, 0.10, 0.09, 0.10, 0.11]
THRESHOLDS = [None, 0.0, 0.25, 0.5, "GTH", 0.625, 0.75, 1.0]
ROOTED = {"R": True, "U": False, "N": None}
DEFECT_BASAL = "basal-split-counted-twice"
DEFECT_ABSENT = "absent-members-added"


def gth(dendropy):
    from dendropy.utility import constants
    return constants.GREATER_THAN_HALF


# ------------------------------------------------------------------ generators (harness code only: no library routine under test)
def gen_sample(dendropy, rng, ctx):
    n = rng.randint(3, ctx.pick(8, 12))
    extra = 1 if rng.random() < 0.06 else 0
    hole = rng.random() < 0.15
    total = n + extra + (1 if hole else 0)
    holes = [rng.randrange(total)] if hole else []
    tns = tu.make_namespace(dendropy, 0, labels=["t%d" % i for i in range(total)], holes=holes)
    taxa = rng.sample(list(tns), n)
    rooted = rng.choice([True, False, None])
    k = rng.randint(1, ctx.pick(12, 30))
    none_rate = rng.choice([0.0, 0.0, 0.2])
    unary = rng.choice([0.0, 0.0, 0.0, 0.05])
    base = c04.gen_on(dendropy, rng, tns, taxa, rooted, none_rate)
    trees = []
    for _ in range(k):
        r = rng.random()
        if r < 0.45:
            t = c04.clone(dendropy, base)
            for nd in tu.walk(t.seed_node):
                if nd.edge.length is not None and rng.random() < 0.5:
                    nd.edge.length = tu.dyadic(rng)
        elif r < 0.8:
            t = c04.perturb(dendropy, rng, base)
        else:
            tx = list(taxa)
            rng.shuffle(tx)
            shape = tu.rand_shape(rng, n, p_poly=rng.choice([0.0, 0.3]), p_unary=unary)
            t = tu.build_tree(dendropy, shape, tns, tx, lambda: tu.dyadic(rng, none_rate), rooted)
        if rng.random() < 0.03:
            t.is_rooted = rng.choice([True, False])
        trees.append(t)
    wmode = rng.choice(["none", "none", "ones", "dyadic", "dyadic", "zero", "mixed"])
    for t in trees:
        if wmode == "ones":
            t.weight = 1.0
        elif wmode == "dyadic":
            t.weight = rng.choice([0.25, 0.5, 1.0, 2.0, 3.0])
        elif wmode == "zero":
            t.weight = 0.0
        elif wmode == "mixed":
            t.weight = rng.choice([None, 0.5, 2.0])
    return tns, trees


def tree_rec(t):
    return {"rooted": c01.ROOT[t.is_rooted], "weight": None if t.weight is None else tu.frac(t.weight),
            "tree": tu.encode_tree(t, with_labels=False)[0]}


def members_mask(tns):
    return sum(1 << tns.accession_index(x) for x in tns)


def basal_split(t):
    """None, or the split that BOTH basal edges of a not-rooted tree carry once it is encoded with default flags, decided on the
    drawing alone: the basal bifurcation is opened up only when the seed has exactly two children as drawn and one of them has
    >= 2 children; unifurcations are suppressed afterwards (a unifurcating seed gives way to the first branching node below it)"""
    if t.is_rooted:
        return None
    eff = list(t.seed_node._child_nodes)
    if len(eff) == 2 and (len(eff[1]._child_nodes) >= 2 or len(eff[0]._child_nodes) >= 2):
        return None

    def resolve(nd):
        while len(nd._child_nodes) == 1:
            nd = nd._child_nodes[0]
        return nd
    if len(eff) == 1:
        eff = list(resolve(eff[0])._child_nodes)
    if len(eff) != 2:
        return None
    masks = tu.leafset_masks(t)
    L = masks[id(t.seed_node)]
    m = masks[id(eff[0])]
    return (L & ~m) if (m & (L & -L)) else m


def sample_case(tns, trees, use_w, thr, incl, **more):
    F = members_mask(tns)
    c = {"op": "summ", "ns": c01.namespace_desc(tns), "use_weights": use_w, "threshold": thr, "incl_external": incl,
         "trees": [tree_rec(t) for t in trees],
         "basal_bifurcation_survives": any(basal_split(t) is not None for t in trees),
         "namespace_has_absent_members": any(tu.leafset_masks(t)[id(t.seed_node)] != F for t in trees)}
    c.update(more)
    return c


def namespace_of_case(dendropy, c):
    return c01.tree_for_case(dendropy, {"ns": c["ns"], "rooted": "R", "tree": c["trees"][0]["tree"]})[0].taxon_namespace


def tree_of_rec(dendropy, rec, tns):
    t, ids = tu.tree_from_tokens(dendropy, rec["tree"], rooted=ROOTED[rec["rooted"]], tns=tns)
    w = rec.get("weight")
    t.weight = None if w is None else float(Fraction(w))
    return t, ids


def trees_of_case(dendropy, c):
    tns = namespace_of_case(dendropy, c)
    return tns, [tree_of_rec(dendropy, rec, tns)[0] for rec in c["trees"]]


def thr_value(dendropy, thr):
    """the float handed to the library.  A threshold given as {"num": k, "den": n} is the ATTAINABLE frequency k/n, handed over as
    the correctly rounded quotient float(k)/n (what a user writes as k/n)"""
    if isinstance(thr, dict):
        return float(thr["num"]) / thr["den"]
    return gth(dendropy) if thr == "GTH" else thr


def thr_exact(dendropy, thr):
    """the threshold the oracle compares with, exactly: k/n for an attainable frequency, else the rational value of the float"""
    if isinstance(thr, dict):
        return Fraction(thr["num"], thr["den"])
    v = thr_value(dendropy, thr)
    return None if v is None else Fraction(v)


def thr_label(thr):
    return "%d/%d" % (thr["num"], thr["den"]) if isinstance(thr, dict) else str(thr)


def recs_line(c):
    return " ".join("%s %s %s" % (r["rooted"], "N" if r["weight"] is None else r["weight"], " ".join(r["tree"])) for r in c["trees"])


# ------------------------------------------------------------------ independent oracle
def weight_of(t, use_w):
    return Fraction(t.weight) if (t.weight is not None and use_w) else Fraction(1)


def oracle_freqs(trees, use_w, double_basal=False):
    """the statement: weighted fraction of trees CONTAINING the split.  double_basal=True instead describes the documented defect
    (known finding): a tree whose basal bifurcation survives encoding is counted twice for the split of its two basal edges"""
    sets = [set(c04.split_lengths(t)) for t in trees]
    W = sum((weight_of(t, use_w) for t in trees), Fraction(0))
    norm = W if W != 0 else Fraction(len(trees))
    out = {}
    for t, s in zip(trees, sets):
        for x in s:
            out[x] = out.get(x, Fraction(0)) + weight_of(t, use_w)
        if double_basal:
            b = basal_split(t)
            if b is not None:
                out[b] = out.get(b, Fraction(0)) + weight_of(t, use_w)
    return {x: v / norm for x, v in out.items()}, sets


def canon_split(mask, Fmask, rooted):
    """a split as a bipartition of the namespace MEMBERS: the clade (rooted) / the side without the lowest member (not rooted)"""
    A = mask & Fmask
    if rooted:
        return A
    low = Fmask & -Fmask
    return (Fmask & ~A) if (A & low) else A


def nontrivial(mask, F, rooted=False):
    """informative: a clade of 2..n-1 taxa on rooted trees, a bipartition with >= 2 taxa on both sides otherwise"""
    A = c01.bits_of(mask) & F
    return len(A) >= 2 and len(F - A) >= (1 if rooted else 2)


def compatible(a, b, F, rooted):
    A, B = c01.bits_of(a) & F, c01.bits_of(b) & F
    if rooted:
        return (not (A & B)) or A <= B or B <= A
    return c01.quadrants_empty(A, B, F)


def close(x, y, tol=1e-9):
    return abs(x - y) <= tol * max(1.0, abs(x), abs(y))


def root_tip(tree):
    out = {}
    stack = [(tree.seed_node, Fraction(0))]
    while stack:
        nd, d = stack.pop()
        if not nd._child_nodes:
            out[tu.label_of(nd)] = d
        for c in nd._child_nodes:
            stack.append((c, d + tu.F(c.edge.length)))
    return out


def node_splits(tree):
    """[(node, split)] from scratch: leafset (rooted) / side without the tree's own lowest taxon (otherwise)"""
    masks = tu.leafset_masks(tree)
    L = masks[id(tree.seed_node)]
    low = L & -L
    rooted = bool(tree.is_rooted)
    return [(nd, masks[id(nd)] if rooted else ((L & ~masks[id(nd)]) if (masks[id(nd)] & low) else masks[id(nd)]))
            for nd in tu.walk(tree.seed_node)], L


def exact_stats(vals):
    sv = sorted(vals)
    n = len(sv)
    mean = sum(sv, Fraction(0)) / n
    med = sv[n // 2] if n % 2 else (sv[n // 2 - 1] + sv[n // 2]) / 2
    var = (sum(((v - mean) ** 2 for v in sv), Fraction(0)) / (n - 1)) if n >= 2 else None
    return mean, med, sv[0], sv[-1], var


def summary_problem(obj, prefix, vals):
    """mean / median / range / sd attributes of a node or edge against the values over the input trees (median and range exactly)"""
    mean, med, lo, hi, var = exact_stats(vals)
    g = lambda f: getattr(obj, prefix + f, None)
    rng_ = g("range")
    try:
        ok = close(g("mean"), float(mean)) and Fraction(g("median")) == med and len(rng_) == 2 and \
            Fraction(rng_[0]) == lo and Fraction(rng_[1]) == hi
        if ok and var is not None:
            ok = close(g("sd") ** 2, float(var), 1e-6)
    except (TypeError, ValueError):
        ok = False
    if ok:
        return None
    return "mean/median/range/sd = %r/%r/%r/%r, the values over the input trees are %s" % (
        g("mean"), g("median"), rng_, g("sd"), [str(v) for v in vals])


def argmax_set(scores, tol=1e-12):
    m = max(scores)
    return [i for i, s in enumerate(scores) if close(s, m, tol)]


def fresh_list(dendropy, tns, trees):
    tl = dendropy.TreeList(taxon_namespace=tns)
    for t in trees:
        c = c04.clone(dendropy, t)
        c.weight = t.weight
        tl.append(c)
    return tl


# ------------------------------------------------------------------ the check of one sample
def check_sample(ctx, dendropy, case, pending):
    tns, trees = trees_of_case(dendropy, case)
    use_w, thr, incl = case["use_weights"], case["threshold"], case["incl_external"]
    thr_v = thr_value(dendropy, thr)
    thr_f = thr_exact(dendropy, thr)
    thr = thr_label(thr)
    distinct = len({c01.canon_rooted(t) for t in trees})
    ctx.case(["summ", stable_hash(case)], distinct >= 2, sample={k: case[k] for k in ("ns", "use_weights", "threshold", "trees")}
             if len(trees) <= 3 else None, kind="summ")
    fr, sets = oracle_freqs(trees, use_w)
    members = [tns.accession_index(t) for t in tns]
    F = set(members)
    Fmask = members_mask(tns)
    allmask = tns.all_taxa_bitmask()
    basal = [basal_split(t) for t in trees]
    basal_set = {b for b in basal if b is not None}
    fresh = lambda: fresh_list(dendropy, tns, trees)
    # ---- (a) frequencies, TreeList.split_distribution and TreeArray routes
    sd = fresh().split_distribution(use_tree_weights=use_w, default_edge_length_value=0)
    rootings = {t.is_rooted for t in trees}   # None (unspecified) and False are different states to TreeArray.validate_rooting
    ta = None
    routes = [("TreeList.split_distribution", sd)]
    if len(rootings) == 1:
        ta = dendropy.TreeArray(taxon_namespace=tns, use_tree_weights=use_w)
        ta.add_trees(fresh())
        routes.append(("TreeArray.split_distribution", ta.split_distribution))
    defect = False
    for name, d in routes:
        got = {s: d[s] for s in d}
        if set(got) != set(fr):
            ctx.fail("frequency", "%s reports splits %s that differ from those the trees contain" % (name, sorted(set(got) ^ set(fr))[:6]), case)
            return
        bad = [s for s, f in fr.items() if not close(got[s], float(f), 1e-12)]
        if bad and basal_set:
            fr_dc, _ = oracle_freqs(trees, use_w, double_basal=True)
            if all(close(got[s], float(f), 1e-12) for s, f in fr_dc.items()):
                # exactly the documented defect and nothing else: everything downstream is judged against these frequencies
                ctx.fail("frequency-basal-double-count", "%s[%d] = %r, weighted fraction of trees containing it = %s: each tree whose basal "
                         "bifurcation survives encoding is counted twice for the split of its two basal edges" % (name, bad[0], got[bad[0]], fr[bad[0]]),
                         dict(case, defect=DEFECT_BASAL))
                defect = True
                continue
        if bad:
            ctx.fail("frequency", "%s[%d] = %r, weighted fraction of trees containing it = %s" % (name, bad[0], got[bad[0]], fr[bad[0]]), case)
            return
        one = [s for s, f in fr.items() if f == 1 and got[s] != 1.0]
        if one:
            ctx.fail("frequency", "%s[%d] = %r for a split that every tree contains (the fraction is exactly 1)" % (name, one[0], got[one[0]]), case)
            return
        absent = max(fr) + 2
        if d[absent] != 0:
            ctx.fail("frequency", "%s reports %r for a split that occurs in no tree" % (name, d[absent]), case)
    if defect:
        fr = oracle_freqs(trees, use_w, double_basal=True)[0]
    # cache invalidation: frequencies read after counting one more tree
    d2 = fresh().split_distribution(use_tree_weights=use_w)
    _ = d2[max(fr)]
    extra = c04.clone(dendropy, trees[0])
    extra.weight = trees[0].weight
    d2.count_splits_on_tree(extra)
    fr2, _s = oracle_freqs(trees + [trees[0]], use_w, double_basal=defect)
    for s, f in fr2.items():
        if not close(d2[s], float(f), 1e-12):
            ctx.fail("stale", "after counting one more tree split %d has frequency %r, expected %s (stale table?)" % (s, d2[s], f), case)
            break
    # ---- (b)-(d) consensus
    mixed = (True in rootings) and len(rootings) > 1       # rooted and not-rooted trees in one sample: no rooting state to inherit
    crooted = rootings == {True}
    full_sets = all(tu.leafset_masks(t)[id(t.seed_node)] == Fmask for t in trees)    # the property's domain
    for route in ("TreeList.consensus", "TreeArray.consensus_tree", "SplitDistribution.consensus_tree"):
        if len(rootings) > 1 and route != "SplitDistribution.consensus_tree":
            continue       # TreeArray refuses mixed rooting flags by design
        try:
            if route == "TreeList.consensus":
                con = fresh().consensus(min_freq=thr_v, use_tree_weights=use_w)
            elif route == "TreeArray.consensus_tree":
                con = ta.consensus_tree(min_freq=thr_v)
            else:
                con = fresh().split_distribution(use_tree_weights=use_w).consensus_tree(min_freq=thr_v)
        except Exception as e:
            if not common.is_library_exception(e):
                raise
            ctx.fail("consensus", "%s raised %s: %s" % (route, type(e).__name__, str(e)[:120]), case)
            continue
        probs = tu.arborescence_problems(con)
        if probs:
            ctx.fail("consensus", "%s returned a malformed tree: %s" % (route, probs), case)
            continue
        tips = [nd for nd in tu.walk(con.seed_node) if not nd._child_nodes]
        leaves = sorted(tns.accession_index(nd.taxon) for nd in tips if nd.taxon is not None)
        if leaves != sorted(members) or any(nd.taxon is None for nd in tips):
            ctx.fail("consensus", "%s does not span every taxon of the namespace exactly once: leaves %s" % (route, leaves), case)
            continue
        if not mixed and bool(con.is_rooted) != crooted:
            ctx.fail("consensus", "%s has rooting %s, input trees are %s" % (route, con.is_rooted, "rooted" if crooted else "not rooted"), case)
        # (e) support on the consensus nodes: the frequency of the node's split (0 for a split in no tree), whatever the sample
        for nd, s in node_splits(con)[0]:
            want = fr.get(s, Fraction(0))
            sup = getattr(nd, "support", None)
            if sup is None or not close(sup, float(want), 1e-12) or (want == 1 and sup != 1.0):
                ctx.fail("support", "%s: node with split %d carries support %r, frequency is %s" % (route, s, sup, want), case)
                break
        if mixed or not full_sets:
            continue   # outside the quantifier (trees lacking namespace members / no common rooting state): split clauses not judged
        cand = {}
        for s, f in fr.items():
            cs = canon_split(s, Fmask, crooted)
            if nontrivial(cs, F, crooted) and (thr_f is None or f >= thr_f):
                cand[cs] = max(f, cand.get(cs, Fraction(0)))
        got = {canon_split(m, Fmask, crooted) for m in tu.leafset_masks(con).values()}
        got = {s for s in got if nontrivial(s, F, crooted)}
        if thr_f is not None and thr_f > Fraction(1, 2) and not defect:
            if got != set(cand):
                ctx.fail("consensus", "%s at threshold %s has non-trivial splits %s, those with frequency >= threshold are %s" % (
                    route, thr, sorted(got), sorted(cand)), case)
        else:
            if not got <= set(cand):
                ctx.fail("consensus", "%s at threshold %s contains splits below the threshold: %s" % (route, thr, sorted(got - set(cand))), case)
            elif any(not compatible(a, b, F, crooted) for a in got for b in got):
                ctx.fail("consensus", "%s contains incompatible splits" % route, case)
            else:
                for c, f in cand.items():
                    if c in got:
                        continue
                    blockers = [r for r in got if not compatible(c, r, F, crooted)]
                    if not blockers:
                        ctx.fail("consensus", "%s at threshold %s is not maximal: split %d (freq %s) is compatible with all its splits" % (route, thr, c, f), case)
                        break
                    if all(cand[r] < f for r in blockers):
                        ctx.fail("consensus", "%s skipped split %d (freq %s) in favour of less frequent conflicting splits" % (route, c, f), case)
                        break
    # ---- (e) summaries on a target tree, both entry points, support as fraction / percentage / label
    per_split = {}
    for t in trees:
        for s, l in c04.split_lengths(t).items():
            per_split.setdefault(s, []).append(l)
    tgt_rec = case.get("target") or case["trees"][0]
    opts = case.get("summ_opts") or {}
    pct, as_label = bool(opts.get("pct")), bool(opts.get("label"))
    annot = None
    for route in ("TreeArray.summarize_splits_on_tree", "SplitDistribution.summarize_splits_on_tree"):
        if route.startswith("TreeArray") and ta is None:
            continue
        tgt = tree_of_rec(dendropy, tgt_rec, tns)[0]
        kw = {}
        if pct:
            kw["support_as_percentages"] = True
        if as_label:
            kw["set_support_as_node_label"] = True
        if route.startswith("TreeArray"):
            ta.summarize_splits_on_tree(tgt, **kw)
        else:
            fresh().split_distribution(use_tree_weights=use_w, default_edge_length_value=0).summarize_splits_on_tree(tgt, **kw)
        annot = {}
        for nd, s in node_splits(tgt)[0]:
            want = fr.get(s, Fraction(0)) * (100 if pct else 1)
            sup = getattr(nd, "support", None)
            annot.setdefault(s, set()).add(sup)
            if sup is None or not close(sup, float(want), 1e-12) or (fr.get(s) == 1 and sup != (100.0 if pct else 1.0)):
                ctx.fail("support", "%s: support %r for split %d, frequency %s%s" % (route, sup, s, fr.get(s, 0), " (as percentage)" if pct else ""), case)
                break
            if as_label:
                try:
                    lab = float(nd.label)
                except (TypeError, ValueError):
                    lab = None
                if lab is None or abs(lab - float(want)) > 0.5e-4 + 1e-9:
                    ctx.fail("support", "%s(set_support_as_node_label): label %r for split %d, support is %s" % (route, nd.label, s, want), case)
                    break
            vals = per_split.get(s, [])
            if not vals or s in basal_set:
                continue    # the value list of a doubly counted basal split is part of the documented defect
            prob = summary_problem(nd.edge, "length_", vals)
            if prob:
                ctx.fail("summary", "%s: edge of split %d: %s" % (route, s, prob), case)
                break
    # ---- (g) maximum credibility
    got_scores = {}
    if len(rootings) == 1:
        absent_bits = sorted(F - c01.bits_of(tu.leafset_masks(trees[0])[id(trees[0].seed_node)]))
        for kind in ("sum", "prod"):
            if kind == "sum":
                scores, idx = ta.calculate_sum_of_split_supports(include_external_splits=incl)
                best = ta.maximum_sum_of_split_support_tree(include_external_splits=incl, summarize_splits=False)
                best_tl = fresh().maximum_sum_of_split_support_tree(include_external_splits=incl)
            else:
                scores, idx = ta.calculate_log_product_of_split_supports(include_external_splits=incl)
                best = ta.maximum_product_of_split_support_tree(include_external_splits=incl, summarize_splits=False)
                best_tl = fresh().maximum_product_of_split_support_tree(include_external_splits=incl)
            got_scores[kind] = (scores, idx)
            if len(scores) != len(trees) or idx is None or not (0 <= idx < len(scores)) or scores[idx] != max(scores):
                ctx.fail("mcc-argmax", "%s-of-support: reported maximiser %s does not attain the maximum of the reported scores %s" % (kind, idx, scores), case)
                continue
            tops = argmax_set(scores)
            tl_judged = use_w or all(t.weight is None for t in trees)     # TreeList routes always weight by tree.weight
            for route, b in (("TreeArray", best), ("TreeList", best_tl)):
                if route == "TreeList" and not tl_judged:
                    continue
                canon = c01.canon_rooted if b.is_rooted else c01.canon_unrooted
                have = canon(b)
                if any(have == canon(trees[i]) for i in tops):
                    continue
                if route == "TreeArray" and absent_bits and any(have == canon(trees[i], extras=tuple(
                        sorted(F - c01.bits_of(tu.leafset_masks(trees[i])[id(trees[i].seed_node)])))) for i in tops):
                    ctx.fail("mcc", "maximum %s-of-support tree is input tree %s with the namespace members it lacks (%s) added as leaves: %s" % (
                        kind, tops, absent_bits, have), dict(case, defect=DEFECT_ABSENT))
                    continue
                ctx.fail("mcc-topology", "%s maximum %s-of-support tree has topology %s, the input trees attaining the maximum score are %s" % (
                    route, kind, have, [canon(trees[i]) for i in tops]), case)
            # the scores themselves, from scratch
            for i, t in enumerate(trees):
                if basal[i] is not None:
                    continue     # the doubly counted basal split enters the tree's own score twice (documented defect)
                nsp, tl_mask = node_splits(t)
                Ft = c01.bits_of(tl_mask)
                sc = Fraction(0) if kind == "sum" else 0.0
                for s in sorted({s for _nd, s in nsp}):
                    A = c01.bits_of(s) & Ft
                    triv = len(A) <= 1 or len(Ft - A) <= 1
                    if incl or s == tl_mask or not triv:
                        f = fr.get(s, Fraction(0))
                        if kind == "sum":
                            sc += f
                        elif f:
                            sc += math.log(float(f))
                if not close(scores[i], float(sc), 1e-9):
                    ctx.fail("mcc-score", "%s-of-support score of tree %d reported as %r, from the frequencies it is %r" % (kind, i, scores[i], float(sc)), case)
                    break
    # ---- correspondence
    if isinstance(case["threshold"], dict):
        return      # attainable non-dyadic thresholds are judged by the oracle only (the model compares exact rationals with the float's value)
    thr_tok = "N" if thr_v is None else tu.frac(thr_v)
    line = "summ %d %s %d %d %d %s %d %s" % (
        use_w, thr_tok, incl, allmask, len(members), " ".join(map(str, members)), len(trees), recs_line(case))
    impl = {"freqs": {s: sd[s] for s in sd}, "scores": got_scores, "rootings": rootings}
    if len(rootings) == 1:
        try:
            con = ta.consensus_tree(min_freq=thr_v, summarize_splits=False)
            impl["cons"] = c01.render_h(con.seed_node, tns)
            impl["crooted"] = bool(con.is_rooted)
        except Exception as e:
            if not common.is_library_exception(e):
                raise
            impl["cons"] = "EXC " + type(e).__name__
        impl["lens"] = {s: list(vals) for s, vals in ta.split_distribution.split_edge_lengths.items()}
    pending.append((line, case, impl))
    if annot is not None:
        aline = "annot %d %d %d %s %s %s" % (use_w, pct, len(trees), recs_line(case), tgt_rec["rooted"], " ".join(tgt_rec["tree"]))
        pending.append((aline, case, {"annot": annot}))


def parse_sections(o):
    out = {}
    for part in o.split(" | "):
        k, _, v = part.strip().partition(" ")
        out[k] = v.strip()
    return out


def flush(ctx, pending):
    outs = ctx.ask([p[0] for p in pending])
    for (line, case, impl), o in zip(pending, outs):
        if o is None:
            continue
        ctx.compared()
        if o.startswith("bad-"):
            ctx.disagree(line.split(" ", 1)[0], case, "ok", o)
            continue
        if "annot2" in impl:
            bad = compare_annot2(o, impl["annot2"], impl["decimals"])
            if bad:
                ctx.disagree("annot2", case, bad, o[:300])
            continue
        if "hist" in impl:
            toks = o.split()
            want = impl["hist"]
            bad = None
            if len(toks) != len(want):
                bad = "%d answers from the model, %d from the implementation" % (len(toks), len(want))
            else:
                for tok, w in zip(toks, want):
                    if w is None:
                        continue
                    kind, sp, v = w
                    if kind == "F":
                        if not close(v, float(Fraction(tok)), 1e-12):
                            bad = "frequency of %d in the history: impl %r model %s" % (sp, v, tok)
                    elif (tok == "-") != (v is None):
                        bad = "summary of %d in the history: impl %r model %s" % (sp, v, tok)
                    elif v is not None:
                        n, mean, med, lo, hi, var = tok.split(",")
                        rg = v.get("range")
                        ok = close(v.get("mean"), float(Fraction(mean))) and Fraction(v.get("median")) == Fraction(med) and \
                            Fraction(rg[0]) == Fraction(lo) and Fraction(rg[1]) == Fraction(hi) and \
                            (var == "inf" or close(v.get("sd") ** 2, float(Fraction(var)), 1e-6))
                        if not ok:
                            bad = "summary of %d in the history: impl %r model %s" % (sp, {k: v.get(k) for k in ("mean", "median", "range", "sd")}, tok)
                    if bad:
                        break
            if bad:
                ctx.disagree("hist", case, bad, o[:300])
            continue
        if "annot" in impl:
            model = {}
            for tok in o.split():
                s, _, f = tok.partition(":")
                model.setdefault(int(s), set()).add(Fraction(f))
            bad = None
            if set(model) != set(impl["annot"]):
                bad = "splits of the target differ"
            else:
                for s, vals in impl["annot"].items():
                    if len(model[s]) != 1 or any(v is None or not close(v, float(min(model[s])), 1e-12) for v in vals):
                        bad = "support of split %d: impl %s model %s" % (s, sorted(vals, key=str), [str(x) for x in model[s]])
                        break
            if bad:
                ctx.disagree("annot", case, bad, o[:300])
            continue
        sec = parse_sections(o)
        mf = {}
        for tok in sec.get("freqs", "").split():
            s, _, f = tok.partition(":")
            mf[int(s)] = Fraction(f)
        bad = None
        if set(mf) != set(impl["freqs"]):
            bad = "split sets differ"
        else:
            for s, f in mf.items():
                if not close(impl["freqs"][s], float(f), 1e-12):
                    bad = "freq of %d: impl %r model %s" % (s, impl["freqs"][s], f)
        if bad is None and "cons" in impl and len(impl["rootings"]) == 1:
            if impl["cons"] != sec.get("cons"):
                bad = "consensus: impl %s model %s" % (impl["cons"], sec.get("cons"))
            elif impl.get("crooted") is not None and ("1" if impl["crooted"] else "0") != sec.get("crooted"):
                bad = "consensus rooting"
        if bad is None and impl["scores"]:
            for kind, key, arg in (("sum", "sums", "argsum"), ("prod", "prods", "argprod")):
                scores, idx = impl["scores"][kind]
                ms = [Fraction(x) for x in sec.get(key, "").split()]
                if len(ms) != len(scores):
                    bad = "%s: %d scores vs %d" % (key, len(ms), len(scores))
                    break
                vals = [float(x) if kind == "sum" else (math.log(float(x)) if x > 0 else 0.0) for x in ms]
                if any(not close(a, b, 1e-9) for a, b in zip(scores, vals)):
                    bad = "%s scores: impl %s model %s" % (kind, scores, vals)
                    break
                top = sorted(ms, reverse=True)
                unique = len(top) < 2 or (top[0] - top[1]) > Fraction(1, 10 ** 6) * max(1, abs(top[0]))
                if unique and str(idx) != sec.get(arg):
                    bad = "%s maximiser: impl %s model %s" % (kind, idx, sec.get(arg))
                    break
        if bad is None and "lens" in impl:
            ml = {}
            for tok in sec.get("lens", "").split():
                s, _, rest = tok.partition(":")
                ml[int(s)] = rest.split(",")
            if set(ml) != set(impl["lens"]):
                bad = "length tables cover different splits"
            else:
                for s, vals in impl["lens"].items():
                    n, mean, med, lo, hi, var = ml[s]
                    emean, emed, elo, ehi, evar = exact_stats([Fraction(v) for v in vals])
                    if int(n) != len(vals) or Fraction(mean) != emean or Fraction(med) != emed or Fraction(lo) != elo \
                            or Fraction(hi) != ehi or (var == "inf") != (evar is None) or (evar is not None and Fraction(var) != evar):
                        bad = "length statistics of split %d: model %s, from the implementation's value list %s" % (
                            s, ml[s], [str(x) for x in (len(vals), emean, emed, elo, ehi, evar)])
                        break
        if bad:
            ctx.disagree("summ", case, bad, o[:300])
    del pending[:]



# ------------------------------------------------------------------ one summarising call: everything it writes on a target (op `annot2`)
ANNOT_MODES = [None, "keep", "support", "clear", "mean-length", "median-length"]


def gen_annot(ctx, dendropy):
    """a sample (rarely: NOTHING counted, the trees only define the namespace), a target from the sample or perturbed (half of the
    time not in encoded form), and the settings of one call: percentage, label with 0/1/2/4/6 places, every set_edge_lengths mode,
    a minimum edge length"""
    rng = ctx.rng
    tns, trees = gen_sample(dendropy, rng, ctx)
    Fmask = members_mask(tns)
    if len({t.is_rooted for t in trees}) != 1 or any(basal_split(t) is not None for t in trees) \
            or any(tu.leafset_masks(t)[id(t.seed_node)] != Fmask for t in trees):
        return None
    src = trees[rng.randrange(len(trees))] if rng.random() < 0.7 else c04.perturb(dendropy, rng, trees[0])
    if basal_split(src) is not None:
        return None
    tgt = c04.clone(dendropy, src)
    normal = rng.random() < 0.5
    if normal:
        tgt.encode_bipartitions()
    if rng.random() < 0.25:
        # weights that make non-trivial dyadic frequencies (ties of the label rounding: 1/32 at four places is 0.03125)
        for t in trees:
            t.weight = rng.choice([1.0, 3.0, 7.0, 15.0, 31.0, 0.5])
    opts = {"pct": rng.random() < 0.3, "label": rng.random() < 0.6, "decimals": rng.choice([0, 1, 2, 3, 4, 4, 6]),
            "mode": rng.choice(ANNOT_MODES), "min": rng.choice([None, None, None, 0.25, 1.0])}
    counted = 0 if rng.random() < 0.05 else len(trees)
    return dict(sample_case(tns, trees, rng.random() < 0.6, None, False), op="annot", target=tree_rec(tgt), target_normal=normal,
                annot_opts=opts, counted=counted, via=rng.choice(["TreeArray", "SplitDistribution"]))


def annot_kwargs(o):
    kw = {}
    if o["pct"]:
        kw["support_as_percentages"] = True
    if o["label"]:
        kw["set_support_as_node_label"] = True
    if o["decimals"] != 4:
        kw["support_label_decimals"] = o["decimals"]
    if o["mode"] is not None:
        kw["set_edge_lengths"] = o["mode"]
    if o["min"] is not None:
        kw["minimum_edge_length"] = o["min"]
    return kw


def run_annot(ctx, dendropy, case, pending):
    tns, all_trees = trees_of_case(dendropy, case)
    trees = all_trees[:case["counted"]]
    use_w, o = case["use_weights"], case["annot_opts"]
    ctx.case(["annot", stable_hash(case)], not trees or len({c01.canon_rooted(t) for t in trees}) >= 2, kind="annot")
    ctx.count("annot set_edge_lengths=%s" % o["mode"])
    ctx.count("annot label places=%s" % (o["decimals"] if o["label"] else "no label"))
    if o["min"] is not None:
        ctx.count("annot minimum_edge_length given")
    if not trees:
        ctx.count("annot nothing counted")
    fr = oracle_freqs(trees, use_w)[0] if trees else {}
    per_split = {}
    for t in trees:
        for s, l in c04.split_lengths(t).items():
            per_split.setdefault(s, []).append(l)
    tgt, ids = tree_of_rec(dendropy, case["target"], tns)
    was = {id(nd): nd.edge.length for nd in tu.walk(tgt.seed_node)} if case.get("target_normal") else None
    tl = dendropy.TreeList(taxon_namespace=tns)
    for t in trees:
        c = c04.clone(dendropy, t)
        c.weight = t.weight
        tl.append(c)
    if case.get("via") == "SplitDistribution":
        holder = tl.split_distribution(use_tree_weights=use_w, default_edge_length_value=0)
    else:
        holder = dendropy.TreeArray(taxon_namespace=tns, use_tree_weights=use_w)
        holder.add_trees(tl)
    d, pct, mode, mn = o["decimals"], o["pct"], o["mode"], o["min"]
    what = "%s.summarize_splits_on_tree(%s)" % (case.get("via"), annot_kwargs(o))
    refused = False
    try:
        holder.summarize_splits_on_tree(tgt, **annot_kwargs(o))
    except Exception as e:
        if not common.is_library_exception(e):
            raise
        refused = True
        if not (isinstance(e, ValueError) and mode in ("mean-length", "median-length") and not per_split):
            ctx.fail("summary", "%s raised %s: %s (%d trees counted)" % (what, type(e).__name__, str(e)[:100], len(trees)), case)
            return
    impl = "E"
    if not refused:
        impl = {}
        clamp = (lambda x: x) if mn is None else (lambda x: max(x, Fraction(mn)))
        for nd, s in node_splits(tgt)[0]:
            want = fr.get(s, Fraction(0)) * (100 if pct else 1)
            sup = getattr(nd, "support", None)
            if sup is None or not close(sup, float(want), 1e-12):
                ctx.fail("support", "%s: node of split %d has support %r, frequency is %s%s" % (what, s, sup, fr.get(s, 0), " (percentage requested)" if pct else ""), case)
                return
            if o["label"]:
                lab = nd.label
                try:
                    val = float(lab)
                    shape_ok = isinstance(lab, str) and (("." not in lab) if d == 0 else (len(lab.split(".")[-1]) == d and "." in lab))
                except (TypeError, ValueError):
                    val, shape_ok = None, False
                if val is None or not shape_ok or abs(Fraction(lab) - want) > Fraction(1, 2 * 10 ** d) + Fraction(1, 10 ** 9):
                    ctx.fail("support", "%s: label %r for split %d: not the support %s rendered with %d decimal places" % (what, lab, s, want, d), case)
                    return
            elif nd.label is not None:
                ctx.fail("settings", "%s: node of split %d was given the label %r although no label was requested" % (what, s, nd.label), case)
                return
            L = nd.edge.length
            vals = per_split.get(s)
            if mode in (None, "keep"):
                if was is not None and id(nd) in was and ((L is None) != (was[id(nd)] is None) or (L is not None and Fraction(L) != Fraction(was[id(nd)]))):
                    ctx.fail("settings", "%s: edge of split %d has length %r after a call that requested no edge lengths (it was %r)" % (what, s, L, was[id(nd)]), case)
                    return
            elif mode == "clear":
                if L is not None:
                    ctx.fail("settings", "%s: edge of split %d still has length %r" % (what, s, L), case)
                    return
            else:
                if mode == "support":
                    w = want
                elif vals:
                    w = exact_stats(vals)[0 if mode == "mean-length" else 1]
                else:
                    w = None        # a split no tree carries: the statement prescribes no value
                if w is not None and (L is None or not close(L, float(clamp(w)))):
                    ctx.fail("summary", "%s: edge of split %d has length %r, the %s is %s%s" % (
                        what, s, L, "support" if mode == "support" else mode[:-7] + " of its values over the input trees", w,
                        "" if mn is None else " (minimum edge length %s)" % mn), case)
                    return
            if vals and s not in {b for b in map(basal_split, trees) if b is not None}:
                prob = summary_problem(nd.edge, "length_", vals)
                if prob:
                    ctx.fail("summary", "%s: edge of split %d: %s" % (what, s, prob), case)
                    return
            e = nd.edge
            summ = None
            if getattr(e, "length_mean", None) is not None or getattr(e, "length_median", None) is not None:
                summ = {k: getattr(e, "length_" + k, None) for k in ("mean", "median", "range", "sd")}
            impl[ids.of(nd)] = (sup, nd.label, L, summ)
    line = "annot2 %d %d %d %d %s %s %d %s %s %s" % (
        use_w, pct, o["label"], d, mode or "keep", "N" if mn is None else tu.frac(mn), len(trees),
        recs_line(dict(case, trees=case["trees"][:case["counted"]])), case["target"]["rooted"], " ".join(case["target"]["tree"]))
    line = " ".join(line.split())
    pending.append((line, case, {"annot2": impl, "decimals": d}))


def compare_annot2(o, impl, d):
    """None, or how the model's account of one summarising call differs from what the library wrote"""
    if (o.strip() == "E") != (impl == "E"):
        return "refusal: impl %s model %s" % ("E" if impl == "E" else "answers", o[:40])
    if impl == "E":
        return None
    model = {}
    for tok in o.split():
        i, s, sup, lab, L, summ = tok.split(";")
        model[int(i)] = (int(s), Fraction(sup), lab, L, summ)
    if set(model) != set(impl):
        return "nodes decorated: impl %s model %s" % (sorted(impl, key=str), sorted(model))
    for i, (s, msup, mlab, mL, msumm) in sorted(model.items()):
        sup, lab, L, summ = impl[i]
        if not close(sup, float(msup), 1e-12):
            return "support of node %d (split %d): impl %r model %s" % (i, s, sup, msup)
        if (mlab == "-") != (lab is None):
            return "label of node %d: impl %r model %s" % (i, lab, mlab)
        if lab is not None:
            if Fraction(sup) == msup:
                if lab != mlab:     # the value is exactly representable: the rendering is determined digit by digit (ties to even)
                    return "label of node %d (support %s exactly): impl %r model %s" % (i, msup, lab, mlab)
            elif abs(Fraction(lab) - Fraction(mlab)) > Fraction(1, 10 ** d):
                return "label of node %d: impl %r model %s" % (i, lab, mlab)
        if (mL == "N") != (L is None) or (L is not None and not close(L, float(Fraction(mL)))):
            return "edge length of node %d (split %d): impl %r model %s" % (i, s, L, mL)
        if (msumm == "none") != (summ is None):
            return "length summary of node %d written: impl %r model %s" % (i, summ, msumm)
        if summ is not None:
            if msumm == "-":
                if summ["mean"] != 0 or summ["median"] != 0:
                    return "no-data summary of node %d: impl %r" % (i, summ)
            else:
                n, mean, med, lo, hi, var = msumm.split(",")
                rg = summ["range"]
                ok = close(summ["mean"], float(Fraction(mean))) and Fraction(summ["median"]) == Fraction(med) and len(rg) == 2 and \
                    Fraction(rg[0]) == Fraction(lo) and Fraction(rg[1]) == Fraction(hi) and \
                    (var == "inf" or close(summ["sd"] ** 2, float(Fraction(var)), 1e-6))
                if not ok:
                    return "length summary of node %d (split %d): impl %r model %s" % (i, s, summ, msumm)
    return None


# ------------------------------------------------------------------ histories with REFUSED offers (op `refused`)
REFUSAL_KINDS = ["non-ultrametric", "other-namespace", "rooting", "foreign-taxon", "bad-weight"]
REFUSED_ROUTES = ["TreeArray.add_tree", "TreeArray.add_trees", "SplitDistribution", "TreeList-derived"]


def gen_refused(ctx, dendropy):
    """trees are OFFERED one by one (or in a batch) to a TreeArray / a SplitDistribution / a distribution derived from a TreeList, under
    every combination of use_tree_weights, ignore_node_ages, ignore_edge_lengths; some offers are ones the library refuses (a tree
    that is not ultrametric while node ages are collected, a tree of another namespace, a rooting state the array does not take,
    a leaf whose taxon is not in the namespace, a weight that is not a number); the caller catches the exception and carries on.
    Afterwards every observable must be that of the collection WITHOUT the refused offers."""
    rng = ctx.rng
    ages = rng.random() < 0.5
    if ages:
        n = rng.randint(3, 6)
        tns = tu.make_namespace(dendropy, n)
        base_shape = tu.rand_shape(rng, n, p_poly=0.0, p_unary=0.0)
        trees = [ultrametric_on(dendropy, rng, tns, list(tns), base_shape if rng.random() < 0.6 else None) for _ in range(rng.randint(1, 7))]
    else:
        tns, trees = gen_sample(dendropy, rng, ctx)
        Fmask = members_mask(tns)
        if len({t.is_rooted for t in trees}) != 1 or any(basal_split(t) is not None for t in trees) \
                or any(tu.leafset_masks(t)[id(t.seed_node)] != Fmask for t in trees):
            return None
        for t in trees:
            t.weight = None
    wmode = rng.choice(["none", "none", "dyadic", "ones"])
    for t in trees:
        t.weight = None if wmode == "none" else (1.0 if wmode == "ones" else rng.choice([0.5, 1.0, 2.0, 3.0]))
    use_w = rng.random() < 0.5
    route = rng.choice(REFUSED_ROUTES)
    kinds = ["other-namespace", "foreign-taxon"]
    if ages:
        kinds += ["non-ultrametric"] * 3
    if route.startswith("TreeArray") and trees[0].is_rooted is not None:
        kinds.append("rooting")
    if use_w:
        kinds.append("bad-weight")
    k = len(trees)
    offers = [["good", i] for i in range(k)]
    for _ in range(rng.randint(1, 3)):
        # never before the first accepted tree on an array: the first offer fixes the array's rooting state
        pos = rng.randint(1, len(offers))
        offers.insert(pos, ["bad", rng.choice(kinds), rng.randrange(k), tu.frac(rng.choice([0.5, 1.0, 2.5]))])
    return dict(sample_case(tns, trees, use_w, rng.choice(["GTH", 0.625, 0.75, 1.0]), False), op="refused", ages=ages,
                ignore_lengths=rng.random() < 0.3, route=route, offers=offers, target_index=rng.randrange(k))


def bad_offer(dendropy, case, tns, kind, rec, param):
    """the tree of one refused offer, derived from the record of a good tree"""
    if kind == "other-namespace":
        other = namespace_of_case(dendropy, case)      # an equal but distinct namespace object
        return tree_of_rec(dendropy, rec, other)[0]
    t = tree_of_rec(dendropy, rec, tns)[0]
    leaf = [nd for nd in tu.walk(t.seed_node) if not nd._child_nodes][0]
    if kind == "non-ultrametric":
        leaf.edge.length = float(tu.F(leaf.edge.length) + Fraction(param))
    elif kind == "rooting":
        t.is_rooted = not t.is_rooted
    elif kind == "foreign-taxon":
        leaf.taxon = dendropy.Taxon(label="not-in-the-namespace")
    elif kind == "bad-weight":
        t.weight = "x"
    else:
        raise ValueError(kind)
    return t


def run_refused(ctx, dendropy, case, pending):
    tns, trees = trees_of_case(dendropy, case)
    use_w, ages, nolen, route = case["use_weights"], case["ages"], case["ignore_lengths"], case["route"]
    ctx.case(["refused", stable_hash(case)], True, kind="refused")
    ctx.count("refused route=%s" % route)
    ctx.count("refused flags use_tree_weights=%s ignore_node_ages=%s ignore_edge_lengths=%s" % (use_w, not ages, nolen))
    kw = dict(use_tree_weights=use_w, ignore_node_ages=not ages, ignore_edge_lengths=nolen)
    ta = None
    if route.startswith("TreeArray"):
        ta = dendropy.TreeArray(taxon_namespace=tns, **kw)
        sd = ta.split_distribution
        offer = ta.add_tree
    elif route == "SplitDistribution":
        sd = dendropy.SplitDistribution(taxon_namespace=tns, **kw)
        offer = lambda t: sd.count_splits_on_tree(t, default_edge_length_value=0)
    else:
        sd = None       # derived from a TreeList holding the first accepted tree, then offered the rest
        offer = None
    accepted, events = [], []

    def good_tree(i):
        c = c04.clone(dendropy, trees[i])
        c.weight = trees[i].weight
        return c

    def rec_tokens(r):
        return "%s %s %s" % (r["rooted"], "N" if r["weight"] is None else r["weight"], " ".join(r["tree"]))
    offers = [list(o) for o in case["offers"]]
    if route == "TreeArray.add_trees":
        # one batch up to and including the first refused offer; the call raises there and the caller offers the rest one by one
        cut = next(j for j, o in enumerate(offers) if o[0] == "bad") + 1
        batch = [good_tree(o[1]) if o[0] == "good" else bad_offer(dendropy, case, tns, o[1], case["trees"][o[2]], o[3]) for o in offers[:cut]]
        try:
            ta.add_trees(batch)
            ctx.count("refused: offer accepted by the library (case not judged)")
            return
        except Exception as e:
            if not common.is_library_exception(e):
                raise
        for o in offers[:cut]:
            if o[0] == "good":
                accepted.append(o[1])
                events.append("A " + rec_tokens(case["trees"][o[1]]))
            else:
                ctx.count("refused offer kind=%s" % o[1])
                events.append("X " + rec_tokens(case["trees"][o[2]]))
        offers = offers[cut:]
    for o in offers:
        if o[0] == "good":
            if sd is None:
                tl = dendropy.TreeList(taxon_namespace=tns)
                tl.append(good_tree(o[1]))
                sd = tl.split_distribution(default_edge_length_value=0, **kw)
                offer = lambda t: sd.count_splits_on_tree(t, default_edge_length_value=0)
            else:
                offer(good_tree(o[1]))
            accepted.append(o[1])
            events.append("A " + rec_tokens(case["trees"][o[1]]))
            continue
        if sd is None:
            continue
        bad = bad_offer(dendropy, case, tns, o[1], case["trees"][o[2]], o[3])
        try:
            offer(bad)
        except AssertionError:
            pass            # SplitDistribution refuses a foreign namespace by assertion
        except Exception as e:
            if not common.is_library_exception(e):
                raise
        else:
            ctx.count("refused: offer accepted by the library (case not judged)")
            return
        ctx.count("refused offer kind=%s" % o[1])
        events.append("X " + rec_tokens(case["trees"][o[2]]))
    if not accepted or sd is None:
        return
    judge_after_refusals(ctx, dendropy, case, tns, ta, sd, accepted, [trees[i] for i in accepted], events, pending)


def judge_after_refusals(ctx, dendropy, case, tns, ta, sd, idx, trees, events, pending):
    """every observable of a collection that was offered more trees than it took, against the trees it TOOK (from scratch)"""
    use_w, ages, nolen, thr = case["use_weights"], case["ages"], case["ignore_lengths"], case["threshold"]
    what = "%s after the offers %s" % (case["route"], " ".join(e[0] for e in events))
    thr_v, thr_f = thr_value(dendropy, thr), thr_exact(dendropy, thr)
    fr, _ = oracle_freqs(trees, use_w)
    n = len(trees)
    W = sum((weight_of(t, use_w) for t in trees), Fraction(0))
    members = [tns.accession_index(t) for t in tns]
    F, Fmask = set(members), members_mask(tns)
    crooted = all(t.is_rooted is True for t in trees)
    if ta is not None and len(ta) != n:
        ctx.fail("refused", "%s: the array holds %d trees, it accepted %d" % (what, len(ta), n), case)
        return
    got = {s: sd[s] for s in sd}
    if set(got) != set(fr):
        ctx.fail("frequency", "%s: splits reported %s differ from those of the trees held" % (what, sorted(set(got) ^ set(fr))[:6]), case)
        return
    norm = W if W != 0 else Fraction(n)
    for s, f in fr.items():
        if not close(got[s], float(f), 1e-12) or (f == 1 and got[s] != 1.0):
            ctx.fail("frequency", "%s: frequency of split %d = %r, weighted fraction of the %d trees held that contain it = %s" % (what, s, got[s], n, f), case)
            return
        if not close(sd.split_counts[s], float(f * norm), 1e-12):
            ctx.fail("refused", "%s: split_counts[%d] = %r, weighted number of held trees containing it = %s" % (what, s, sd.split_counts[s], f * norm), case)
            return
    lens, age = {}, {}
    for t in trees:
        for s, l in c04.split_lengths(t).items():
            lens.setdefault(s, []).append(l)
        if ages:
            masks = tu.leafset_masks(t)
            for nd in tu.walk(t.seed_node):
                age.setdefault(masks[id(nd)], []).append(tip_age(nd))
    if nolen:
        if any(v for v in sd.split_edge_lengths.values()):
            ctx.fail("refused", "%s: edge lengths were collected although ignore_edge_lengths is set" % what, case)
            return
    else:
        for s, vals in lens.items():
            have = sorted(tu.F(v) for v in sd.split_edge_lengths.get(s, []))
            if have != sorted(vals):
                ctx.fail("refused", "%s: split_edge_lengths[%d] = %s, the values over the trees held are %s" % (what, s, [str(v) for v in have], [str(v) for v in sorted(vals)]), case)
                return
    if ages:
        for s, vals in age.items():
            have = sorted(tu.F(v) for v in sd.split_node_ages.get(s, []))
            if have != sorted(vals):
                ctx.fail("refused", "%s: split_node_ages[%d] = %s, the ages over the trees held are %s" % (what, s, [str(v) for v in have], [str(v) for v in sorted(vals)]), case)
                return

    def annotations_ok(tree, label):
        for nd, s in node_splits(tree)[0]:
            want = fr.get(s, Fraction(0))
            sup = getattr(nd, "support", None)
            if sup is None or not close(sup, float(want), 1e-12):
                ctx.fail("support", "%s, %s: node of split %d carries support %r, frequency over the trees held is %s" % (what, label, s, sup, want), case)
                return False
            if not nolen and s in lens:
                prob = summary_problem(nd.edge, "length_", lens[s])
                if prob:
                    ctx.fail("summary", "%s, %s: edge of split %d: %s" % (what, label, s, prob), case)
                    return False
            if ages and s in age:
                prob = summary_problem(nd, "age_", age[s])
                if prob:
                    ctx.fail("summary", "%s, %s: node of split %d: age %s" % (what, label, s, prob), case)
                    return False
        return True
    holder = ta if ta is not None else sd
    tgt = tree_of_rec(dendropy, case["trees"][idx[case["target_index"] % len(idx)]], tns)[0]
    holder.summarize_splits_on_tree(tgt)
    if not annotations_ok(tgt, "summarize_splits_on_tree"):
        return
    con = holder.consensus_tree(min_freq=thr_v)
    probs = tu.arborescence_problems(con)
    tips = [nd for nd in tu.walk(con.seed_node) if not nd._child_nodes]
    if probs or sorted(tns.accession_index(nd.taxon) for nd in tips if nd.taxon is not None) != sorted(members) or any(nd.taxon is None for nd in tips):
        ctx.fail("consensus", "%s: consensus tree malformed or not spanning the namespace: %s" % (what, probs), case)
        return
    if bool(con.is_rooted) != crooted:
        ctx.fail("consensus", "%s: consensus has rooting %s, the trees held are %s" % (what, con.is_rooted, "rooted" if crooted else "not rooted"), case)
    if not annotations_ok(con, "consensus_tree"):
        return
    cand = {canon_split(s, Fmask, crooted) for s, f in fr.items() if f >= thr_f}
    cand = {c for c in cand if nontrivial(c, F, crooted)}
    have = {canon_split(m, Fmask, crooted) for m in tu.leafset_masks(con).values()}
    have = {c for c in have if nontrivial(c, F, crooted)}
    if thr_f > Fraction(1, 2):
        if have != cand:
            ctx.fail("consensus", "%s: consensus at threshold %s has non-trivial splits %s, those with frequency >= threshold over the trees held are %s" % (
                what, thr_label(thr), sorted(have), sorted(cand)), case)
            return
    elif not have <= cand or any(not compatible(x, y, F, crooted) for x in have for y in have) \
            or any(all(compatible(c, r, F, crooted) for r in have) for c in cand - have):
        ctx.fail("consensus", "%s: consensus at threshold %s with splits %s is not a maximal compatible subset of %s" % (what, thr_label(thr), sorted(have), sorted(cand)), case)
        return
    # collapse a held tree's weak edges
    tgt2 = tree_of_rec(dendropy, case["trees"][idx[case["target_index"] % len(idx)]], tns)[0]
    tgt2.encode_bipartitions()
    want_internal = sorted(s for s in internal_splits(tgt2) if fr.get(s, Fraction(0)) >= Fraction(3, 4))
    before = root_tip(tgt2)
    try:
        holder.collapse_edges_with_less_than_minimum_support(tgt2, min_freq=0.75)
        if sorted(internal_splits(tgt2)) != want_internal or root_tip(tgt2) != before:
            ctx.fail("collapse", "%s: internal edges left after collapsing below 3/4: %s, those with frequency >= 3/4 over the trees held: %s" % (
                what, sorted(internal_splits(tgt2)), want_internal), case)
            return
    except Exception as e:
        if not common.is_library_exception(e):
            raise
        ctx.fail("collapse", "%s: collapse_edges_with_less_than_minimum_support raised %s: %s" % (what, type(e).__name__, str(e)[:100]), case)
        return
    if ta is not None:
        for kind in ("prod", "sum"):
            scores, best_i = (ta.calculate_log_product_of_split_supports() if kind == "prod" else ta.calculate_sum_of_split_supports())
            if len(scores) != n or best_i is None or scores[best_i] != max(scores):
                ctx.fail("mcc-argmax", "%s: reported maximiser %s does not attain the maximum of the reported %s scores %s" % (what, best_i, kind, scores), case)
                return
            for i, t in enumerate(trees):
                nsp, tl_mask = node_splits(t)
                Ft = c01.bits_of(tl_mask)
                sc = 0.0
                for s in sorted({s for _nd, s in nsp}):
                    A = c01.bits_of(s) & Ft
                    if s == tl_mask or not (len(A) <= 1 or len(Ft - A) <= 1):
                        if fr.get(s):
                            sc += math.log(float(fr[s])) if kind == "prod" else float(fr[s])
                if not close(scores[i], sc, 1e-9):
                    ctx.fail("mcc-score", "%s: %s-of-support score of held tree %d reported as %r, from the frequencies it is %r" % (what, kind, i, scores[i], sc), case)
                    return
        best = ta.maximum_product_of_split_support_tree()
        canon = c01.canon_rooted if best.is_rooted else c01.canon_unrooted
        tops = argmax_set(ta.calculate_log_product_of_split_supports()[0])
        if not any(canon(best) == canon(trees[i]) for i in tops):
            ctx.fail("mcc-topology", "%s: maximum product-of-support tree has topology %s, the held trees attaining the maximum score are %s" % (
                what, canon(best), [canon(trees[i]) for i in tops]), case)
            return
    else:
        probe = c04.clone(dendropy, trees[0])
        pm = tu.leafset_masks(trees[0])
        want_sum = sum((fr.get(pm[id(nd)], Fraction(0)) for nd in tu.walk(trees[0].seed_node) if nd._child_nodes), Fraction(0))
        if ages:
            got_sum = sd.sum_of_split_support_on_tree(probe)
            if not close(got_sum, float(want_sum)):
                ctx.fail("support", "%s: sum_of_split_support_on_tree = %r, sum of the node frequencies over the trees held is %s" % (what, got_sum, want_sum), case)
                return
    # the totals themselves (last: what the statement speaks about is judged first)
    if sd.total_trees_counted != n or not close(sd.sum_of_tree_weights, float(W), 1e-12):
        ctx.fail("refused", "%s: total_trees_counted = %r and sum_of_tree_weights = %r, the collection holds %d trees of total weight %s" % (
            what, sd.total_trees_counted, sd.sum_of_tree_weights, n, W), case)
        return
    if set(sd.tree_rooting_types_counted) != {bool(t.is_rooted) for t in trees}:
        ctx.fail("refused", "%s: rooting states counted %s, those of the trees held %s" % (
            what, sorted(sd.tree_rooting_types_counted, key=str), sorted({bool(t.is_rooted) for t in trees})), case)
        return
    # correspondence: the same history (refused offers included) through the model of the caches; frequencies and summaries of every split
    answers, evs = [], list(events)
    for s in sorted(fr):
        evs.append("F %d" % s)
        answers.append(("F", s, sd[s]))
    evs.append("F %d" % (max(fr) + 2))
    answers.append(("F", max(fr) + 2, sd[max(fr) + 2]))
    if not nolen:
        table = sd.split_edge_length_summaries
        for s in sorted(fr):
            evs.append("S %d" % s)
            answers.append(("S", s, table.get(s)))
    pending.append(("hist %d %d %s" % (use_w, len(evs), " ".join(evs)), case, {"hist": answers}))


# ------------------------------------------------------------------ collapse
def gen_collapse(ctx, dendropy):
    rng = ctx.rng
    tns, trees = gen_sample(dendropy, rng, ctx)
    Fmask = members_mask(tns)
    if len({t.is_rooted for t in trees}) != 1 or any(tu.leafset_masks(t)[id(t.seed_node)] != Fmask for t in trees):
        return None
    if any(basal_split(t) is not None for t in trees):
        return None
    use_w = rng.random() < 0.5
    thr = rng.choice([0.25, 0.5, "GTH", 0.75, 1.0])
    src = trees[rng.randrange(len(trees))] if rng.random() < 0.7 else c04.perturb(dendropy, rng, trees[0])
    if basal_split(src) is not None:
        return None
    tgt = c04.clone(dendropy, src)
    # a drawing that is not in encoded form is used when encoding it keeps every root-to-tip distance: rooted, seed not a unifurcation
    # (unifurcations below the seed are suppressed by the call, their lengths added to the child)
    normal = rng.random() < 0.5 or tgt.is_rooted is not True or len(tgt.seed_node._child_nodes) < 2
    if normal:
        tgt.encode_bipartitions()  # normal form (no unifurcation, no basal bifurcation): the call under test re-encodes first, a no-op here
    mismatch = rng.random() < 0.1
    if mismatch:
        # a target whose rooting state does not fit the sample's: both combinations are refused by the call before it touches the tree
        tgt.is_rooted = rng.choice([False, None]) if trees[0].is_rooted is True else True
    return dict(sample_case(tns, trees, use_w, thr, False), op="collapse", target=tree_rec(tgt), target_normal=normal, target_mismatch=mismatch)


def internal_splits(tree):
    """splits carried by internal edges once the tree is in encoded form, read off ANY drawing of it: splits of internal non-seed
    nodes, minus the seed's own split and the splits of leaf edges (a unifurcation repeats the split below it; a dissolved basal
    node repeats its sibling's)"""
    nsp, _L = node_splits(tree)
    leaf = {s for nd, s in nsp if not nd._child_nodes}
    rootsplit = [s for nd, s in nsp if nd is tree.seed_node][0]
    return {s for nd, s in nsp if nd._child_nodes and nd is not tree.seed_node} - leaf - {rootsplit}


def run_collapse(ctx, dendropy, case, pending_c):
    tns, trees = trees_of_case(dendropy, case)
    use_w, thr = case["use_weights"], case["threshold"]
    thr_v = thr_value(dendropy, thr)
    thr_f = thr_exact(dendropy, thr)
    thr = thr_label(thr)
    fr, _ = oracle_freqs(trees, use_w)
    ctx.case(["collapse", stable_hash(case)], len(trees) >= 2, kind="collapse")
    if case.get("target_mismatch"):
        ctx.count("collapse target rooting does not fit the sample")
    got_model = None
    for route in ("TreeArray", "SplitDistribution"):
        tgt, ids = tree_of_rec(dendropy, case["target"], tns)
        before = root_tip(tgt)
        nsp, _L = node_splits(tgt)
        weak_leaf = any(fr.get(s, Fraction(0)) < thr_f for nd, s in nsp if not nd._child_nodes)
        want_internal = sorted(s for s in internal_splits(tgt) if fr.get(s, Fraction(0)) >= thr_f)
        # a target read as rooted has clades, one read as not rooted has bipartitions: against a sample of the other kind there is
        # no "frequency of its split" to speak of, and the call's deliberate refusal (ValueError) is legitimate
        ill_fitting = (all(t.is_rooted is True for t in trees) and not tgt.is_rooted) or \
            (not any(t.is_rooted is True for t in trees) and bool(tgt.is_rooted))
        if route == "TreeArray":
            ta = dendropy.TreeArray(taxon_namespace=tns, use_tree_weights=use_w)
            ta.add_trees(fresh_list(dendropy, tns, trees))
            holder = ta
        else:
            holder = fresh_list(dendropy, tns, trees).split_distribution(use_tree_weights=use_w)
        try:
            holder.collapse_edges_with_less_than_minimum_support(tgt, min_freq=thr_v)
            got = tu.render_tree(tgt, ids)
        except Exception as e:
            if not common.is_library_exception(e):
                raise
            got = "E"       # the call refuses; legitimate only when a leaf edge is below the threshold
            if isinstance(e, (TypeError, AttributeError, IndexError, KeyError)):
                # a refusal is raised deliberately; these escaping from inside the library are a crash, whatever the input
                ctx.fail("collapse", "%s.collapse_edges_with_less_than_minimum_support crashed with %s: %s" % (route, type(e).__name__, str(e)[:100]), case)
            elif not weak_leaf and not ill_fitting:
                ctx.fail("collapse", "%s.collapse_edges_with_less_than_minimum_support refused (%s: %s) although no leaf edge is below the threshold" % (
                    route, type(e).__name__, str(e)[:100]), case)
        if got != "E":
            probs = tu.arborescence_problems(tgt)
            if probs:
                ctx.fail("collapse", "%s: tree malformed after collapsing weak edges: %s" % (route, probs), case)
            after = root_tip(tgt)
            if after != before:
                ctx.fail("collapse", "%s: root-to-tip distances changed by collapsing weak edges: %s -> %s" % (
                    route, {k: str(v) for k, v in before.items()}, {k: str(v) for k, v in after.items()}), case)
            got_internal = sorted(internal_splits(tgt))
            if got_internal != want_internal:
                ctx.fail("collapse", "%s: internal edges left after collapsing below %s: %s, those with frequency >= threshold: %s" % (
                    route, thr, got_internal, want_internal), case)
        if route == "TreeArray":
            got_model = got
    if isinstance(case["threshold"], dict):
        return
    line = "collapse %d %s %d %s %s %s" % (use_w, tu.frac(thr_v), len(trees), recs_line(case), case["target"]["rooted"], " ".join(case["target"]["tree"]))
    pending_c.append((line, case, got_model))


def flush_c(ctx, pending_c):
    outs = ctx.ask([p[0] for p in pending_c])
    for (line, case, got), o in zip(pending_c, outs):
        if o is None:
            continue
        ctx.compared()
        if o.strip() != got.strip():
            ctx.disagree("collapse", case, got[:300], o[:300])
    del pending_c[:]


# ------------------------------------------------------------------ incremental use: caches must never be stale
def gen_incremental(ctx, dendropy):
    """trees are counted in batches on ONE TreeArray / SplitDistribution; between batches the summaries are queried in
    varying orders (this populates the frequency and summary caches); every answer must describe all trees counted so far"""
    rng = ctx.rng
    tns, trees = gen_sample(dendropy, rng, ctx)
    rootings = {t.is_rooted for t in trees}
    if len(rootings) != 1 or len(trees) < 2 or any(basal_split(t) is not None for t in trees):
        return None
    use_w = rng.random() < 0.5
    cuts = sorted(rng.sample(range(1, len(trees)), min(len(trees) - 1, rng.randint(1, 2))))
    def options():
        """the summarisation settings of ONE call; a later call on the same collection must not inherit them"""
        r = rng.random()
        if r < 0.5:
            return {}
        return rng.choice([{"support_as_percentages": True}, {"set_support_as_node_label": True}, {"set_edge_lengths": "support"},
                           {"set_edge_lengths": "mean-length"}, {"set_edge_lengths": "median-length"}, {"support_attr_name": "posterior"},
                           {"support_as_percentages": True, "set_edge_lengths": "support"}])
    script = [[[rng.choice(["consensus", "summarize", "summarize", "freq", "scores", "mcc"]), rng.randrange(1 << 16), options()]
               for _ in range(rng.randint(0, 4))] for _ in range(len(cuts) + 1)]
    if rng.random() < 0.7:
        script[-1].append(["summarize", rng.randrange(1 << 16), {}])
    # some batches do not come in tree by tree but through `update` from another array that counted them (event `M` of the cache model)
    merges = [rng.random() < 0.35 for _ in range(len(cuts) + 1)]
    return dict(sample_case(tns, trees, use_w, None, False), op="incremental", cuts=cuts, script=script, merge_batches=merges)


def run_incremental(ctx, dendropy, case, pending=None):
    tns, trees = trees_of_case(dendropy, case)
    use_w, cuts, script = case["use_weights"], case["cuts"], case["script"]
    batches = [trees[a:b] for a, b in zip([0] + cuts, cuts + [len(trees)])]
    ta = dendropy.TreeArray(taxon_namespace=tns, use_tree_weights=use_w)
    ctx.case(["incremental", stable_hash(case)], True, kind="incremental")
    seen = []
    events, answers = [], []      # the same history for the model of the caches (driver op `hist`): what was asked, what the library said

    def ask_freq(s, keep=True):
        v = ta.split_distribution[s]
        events.append("F %d" % s)
        answers.append(("F", s, v) if keep else None)
        return v

    def ask_summ(s, keep=True):
        v = ta.split_distribution.split_edge_length_summaries.get(s)
        events.append("S %d" % s)
        answers.append(("S", s, v) if keep else None)
        return v

    def ask_ages():
        ta.split_distribution.split_node_age_summaries      # read only: the table shares its staleness counter with the length summaries
        events.append("G")                                  # no answer in the model either
    ask_summ.ages = ask_ages
    try:
        _run_incremental(ctx, dendropy, case, tns, trees, use_w, batches, script, ta, seen, events, ask_freq, ask_summ)
    finally:
        if pending is not None and events:
            pending.append(("hist %d %d %s" % (use_w, len(events), " ".join(events)), case, {"hist": answers}))


def annotation_problem(tree, fr, per_split, opts, what, untouched=None):
    """a tree decorated by ONE summarising call made with the settings `opts` (and no others): support as fraction or percentage under
    the requested attribute name, label set iff requested, edge lengths set iff requested (`untouched`: {id(node): length} to compare
    with when they must not be set; None = not judged)"""
    pct = bool(opts.get("support_as_percentages"))
    name = opts.get("support_attr_name", "support")
    mode = opts.get("set_edge_lengths")
    for nd, s in node_splits(tree)[0]:
        want = fr.get(s, Fraction(0)) * (100 if pct else 1)
        sup = getattr(nd, name, None)
        if sup is None or not close(sup, float(want), 1e-12):
            return "%s: node of split %d has %s = %r, frequency is %s%s" % (what, s, name, sup, fr.get(s, 0), " (percentage requested)" if pct else " (no percentage requested)")
        if opts.get("set_support_as_node_label"):
            try:
                lab = float(nd.label)
            except (TypeError, ValueError):
                lab = None
            if lab is None or abs(lab - float(want)) > 0.5e-4 + 1e-9:
                return "%s: label %r for split %d, support is %s" % (what, nd.label, s, want)
        elif untouched is not None and nd.label is not None:
            return "%s: node of split %d was given the label %r although no label was requested" % (what, s, nd.label)
        L = nd.edge.length
        if mode == "support":
            if L is None or not close(L, float(want), 1e-12):
                return "%s(set_edge_lengths='support'): edge of split %d has length %r, support is %s" % (what, s, L, want)
        elif mode in ("mean-length", "median-length"):
            vals = per_split.get(s)
            if vals:
                mean, med, _lo, _hi, _v = exact_stats(vals)
                w = mean if mode == "mean-length" else med
                if L is None or not close(L, float(w)):
                    return "%s(set_edge_lengths=%r): edge of split %d has length %r, the %s of its values is %s" % (what, mode, s, L, mode[:-7], w)
        elif untouched is not None and id(nd) in untouched:
            was = untouched[id(nd)]
            if (L is None) != (was is None) or (L is not None and Fraction(L) != Fraction(was)):
                return "%s: edge of split %d has length %r after a call that requested no edge lengths (it was %r)" % (what, s, L, was)
    return None


def _run_incremental(ctx, dendropy, case, tns, trees, use_w, batches, script, ta, seen, events, ask_freq, ask_summ):
    rec_of = {id(t): r for t, r in zip(trees, case["trees"])}
    merges = list(case.get("merge_batches") or []) + [False] * len(batches)
    for bi, (batch, queries) in enumerate(zip(batches, script)):
        other = dendropy.TreeArray(taxon_namespace=tns, use_tree_weights=use_w) if merges[bi] else None
        toks = []
        for t in batch:
            c = c04.clone(dendropy, t)
            c.weight = t.weight
            (other if other is not None else ta).add_tree(c)
            seen.append(t)
            r = rec_of[id(t)]
            tok = "%s %s %s" % (r["rooted"], "N" if r["weight"] is None else r["weight"], " ".join(r["tree"]))
            if other is None:
                events.append("A " + tok)
            else:
                toks.append(tok)
        if other is not None:
            ta.update(other)
            ctx.count("incremental: batch merged in through update")
            events.append("M %d %s" % (len(toks), " ".join(toks)))
        fr, _ = oracle_freqs(seen, use_w)
        per_split = {}
        for t in seen:
            for s, l in c04.split_lengths(t).items():
                per_split.setdefault(s, []).append(l)
        for q in queries:
            q = [q, 0] if isinstance(q, str) else list(q)      # older recorded cases carry the query name only / no settings
            q, pick, opts = (q + [{}])[:3]
            some = sorted(fr)[pick % len(fr)]
            if q == "consensus":
                con = ta.consensus_tree(min_freq=0.5, **opts)
                ask_summ(some, keep=False)      # the call reads the summary table, then the frequency table
                ask_freq(some)
                prob = annotation_problem(con, fr, per_split, opts, "consensus_tree(%s) after %d trees" % (opts, len(seen)),
                                          untouched={id(nd): None for nd in tu.walk(con.seed_node)})
                if prob:
                    ctx.fail("settings", prob, case)
                    return
            elif q == "freq":
                for s, f in sorted(fr.items()):
                    v = ask_freq(s)
                    if not close(v, float(f), 1e-12):
                        ctx.fail("stale", "after %d trees split %d has frequency %r, expected %s" % (len(seen), s, v, f), case)
                        return
                ask_freq(max(fr) + 2)
            elif q == "scores":
                ta.calculate_sum_of_split_supports()
                ask_freq(some)
            elif q == "mcc":
                best = ta.maximum_product_of_split_support_tree(**opts)
                ask_summ(some)
                ask_freq(some)
                prob = annotation_problem(best, fr, per_split, opts, "maximum_product_of_split_support_tree(%s) after %d trees" % (opts, len(seen)))
                if prob:
                    ctx.fail("settings", prob, case)
                    return
            else:
                tgt = c04.clone(dendropy, seen[pick % len(seen)])
                # the summary-table reads the call is about to make (age summaries, then length summaries), visible to the model; frequencies after it
                tsplits = sorted({s for _nd, s in node_splits(tgt)[0]})
                ask_summ.ages()
                for s in tsplits:
                    ask_summ(s)
                tgt.encode_bipartitions()       # normal form first, so that "edge lengths untouched" can be read off node by node
                was = {id(nd): nd.edge.length for nd in tu.walk(tgt.seed_node)}
                ta.summarize_splits_on_tree(tgt, **opts)
                ask_freq(some)
                prob = annotation_problem(tgt, fr, per_split, opts, "summarize_splits_on_tree(%s) after %d trees" % (opts, len(seen)), untouched=was)
                if prob:
                    ctx.fail("settings" if opts or "requested" in prob else "stale", prob, case)
                    return
                for nd, s in node_splits(tgt)[0]:
                    vals = per_split.get(s, [])
                    if not vals:
                        continue
                    prob = summary_problem(nd.edge, "length_", vals)
                    if prob:
                        ctx.fail("stale", "after %d trees, edge of split %d: %s" % (len(seen), s, prob), case)
                        return


# ------------------------------------------------------------------ node ages, edge-length settings, per-tree scores (oracle only)
def ultrametric_on(dendropy, rng, tns, taxa, shape=None):
    """rooted ultrametric tree with dyadic node heights (all tips at height 0)"""
    taxa = list(taxa)
    rng.shuffle(taxa)
    shape = shape or tu.rand_shape(rng, len(taxa), p_poly=rng.choice([0.0, 0.25]), p_unary=0.0)
    it = iter(taxa)

    def go(sh):
        nd = dendropy.Node()
        if not sh:
            nd.taxon = next(it)
            return nd, Fraction(0)
        kids = [go(c) for c in sh]
        h = max(k[1] for k in kids) + Fraction(rng.randint(1, 8), 4)
        for c, hc in kids:
            c.edge.length = float(h - hc)
            nd.add_child(c)
        return nd, h
    seed, _h = go(shape)
    t = dendropy.Tree(taxon_namespace=tns, seed_node=seed)
    t.is_rooted = True
    return t


def tip_age(nd):
    d = Fraction(0)
    while nd._child_nodes:
        nd = nd._child_nodes[0]
        d += tu.F(nd.edge.length)
    return d


def gen_more(ctx, dendropy):
    rng = ctx.rng
    n = rng.randint(3, 7)
    tns = tu.make_namespace(dendropy, n)
    taxa = list(tns)
    k = rng.randint(1, 8)
    base_shape = tu.rand_shape(rng, n, p_poly=0.0, p_unary=0.0)
    trees = [ultrametric_on(dendropy, rng, tns, taxa, base_shape if rng.random() < 0.6 else None) for _ in range(k)]
    use_w = rng.random() < 0.5
    if use_w:
        for t in trees:
            t.weight = rng.choice([0.5, 1.0, 2.0])
    return dict(sample_case(tns, trees, use_w, None, rng.random() < 0.5), op="more",
                mode=rng.choice([None, "mean-length", "median-length", "support", "mean-age", "median-age"]),
                target_index=rng.randrange(k), probe_index=rng.randrange(k), via=rng.choice(["TreeArray", "SplitDistribution"]))


def run_more(ctx, dendropy, case):
    tns, trees = trees_of_case(dendropy, case)
    use_w, incl, mode = case["use_weights"], case["incl_external"], case["mode"]
    k = len(trees)
    ctx.case(["more", stable_hash(case)], len({c01.canon_rooted(t) for t in trees}) >= 2, kind="more")
    fr, _ = oracle_freqs(trees, use_w)
    fresh = lambda: fresh_list(dendropy, tns, trees)
    ta = dendropy.TreeArray(taxon_namespace=tns, use_tree_weights=use_w, ignore_node_ages=False)
    ta.add_trees(fresh())
    sd = ta.split_distribution
    if case.get("via") == "SplitDistribution":
        sd = fresh().split_distribution(use_tree_weights=use_w, ignore_node_ages=False, default_edge_length_value=0)
    # per-split ages and lengths over the input trees
    ages, lens = {}, {}
    for t in trees:
        masks = tu.leafset_masks(t)
        for nd in tu.walk(t.seed_node):
            ages.setdefault(masks[id(nd)], []).append(tip_age(nd))
            lens.setdefault(masks[id(nd)], []).append(tu.F(nd.edge.length))
    tgt = c04.clone(dendropy, trees[case["target_index"] % k])
    try:
        sd.summarize_splits_on_tree(tgt, set_edge_lengths=mode)
    except Exception as e:
        if not common.is_library_exception(e):
            raise
        ctx.fail("summary", "summarize_splits_on_tree(set_edge_lengths=%r) raised %s: %s" % (mode, type(e).__name__, str(e)[:100]), case)
        return
    masks = tu.leafset_masks(tgt)
    for nd in tu.walk(tgt.seed_node):
        s = masks[id(nd)]
        prob = summary_problem(nd, "age_", ages[s])
        if prob:
            ctx.fail("summary", "node of split %d: age %s" % (s, prob), case)
            return
        lmean, lmed, _lo, _hi, _var = exact_stats(lens[s])
        if mode == "mean-length" and not close(nd.edge.length, float(lmean)):
            ctx.fail("summary", "set_edge_lengths='mean-length': edge of split %d has length %r, mean of its lengths is %s" % (s, nd.edge.length, lmean), case)
            return
        if mode == "median-length" and (nd.edge.length is None or Fraction(nd.edge.length) != lmed):
            ctx.fail("summary", "set_edge_lengths='median-length': edge of split %d has length %r, median of its lengths is %s" % (s, nd.edge.length, lmed), case)
            return
        if mode == "support" and not close(nd.edge.length, float(fr[s])):
            ctx.fail("summary", "set_edge_lengths='support': edge of split %d has length %r, frequency %s" % (s, nd.edge.length, fr[s]), case)
            return
    if mode in ("mean-age", "median-age"):
        # lengths were set from the summarised ages: every node must now sit at that age above its descendant tips
        which = 0 if mode == "mean-age" else 1
        for nd in tu.walk(tgt.seed_node):
            if nd._parent_node is None:
                continue
            s, ps = masks[id(nd)], masks[id(nd._parent_node)]
            want = exact_stats(ages[ps])[which] - exact_stats(ages[s])[which]
            if want >= 0 and not close(nd.edge.length, float(want)):
                ctx.fail("summary", "set_edge_lengths=%r: edge of split %d has length %r, difference of the summarised ages is %s" % (mode, s, nd.edge.length, want), case)
                return
    # scores of one tree against the distribution, through SplitDistribution
    probe = trees[case["probe_index"] % k]
    pm = tu.leafset_masks(probe)
    want_sum = sum((fr.get(pm[id(nd)], Fraction(0)) for nd in tu.walk(probe.seed_node) if incl or nd._child_nodes), Fraction(0))
    got_sum = sd.sum_of_split_support_on_tree(c04.clone(dendropy, probe), include_external_splits=incl)
    if not close(got_sum, float(want_sum)):
        ctx.fail("support", "SplitDistribution.sum_of_split_support_on_tree(include_external_splits=%s) = %r, sum of the node frequencies is %s" % (incl, got_sum, want_sum), case)
    want_log = sum(math.log(float(fr[pm[id(nd)]])) for nd in tu.walk(probe.seed_node) if (incl or nd._child_nodes) and fr.get(pm[id(nd)], 0))
    got_log = sd.log_product_of_split_support_on_tree(c04.clone(dendropy, probe), include_external_splits=incl)
    if not close(got_log, want_log):
        ctx.fail("support", "log_product_of_split_support_on_tree = %r, from the frequencies %r" % (got_log, want_log), case)
    # TreeList routes to the maximum-credibility tree return a MEMBER of the list attaining the maximum of the scores the collection reports
    for kind in ("prod", "sum"):
        tl = fresh()
        if kind == "prod":
            best = tl.maximum_product_of_split_support_tree()
            scores, _idx = ta.calculate_log_product_of_split_supports()
        else:
            best = tl.maximum_sum_of_split_support_tree()
            scores, _idx = ta.calculate_sum_of_split_supports()
        where = [i for i, t in enumerate(tl) if t is best]
        tops = argmax_set(scores, 1e-9)
        if not where:
            ctx.fail("mcc-topology", "TreeList.maximum_%s_of_split_support_tree returned a tree that is not a member of the list" % kind, case)
        elif not any(c01.canon_rooted(best) == c01.canon_rooted(trees[i]) for i in tops):
            ctx.fail("mcc-topology", "TreeList.maximum_%s_of_split_support_tree has topology %s, the trees attaining the maximum score %s are %s" % (
                kind, c01.canon_rooted(best), tops, [c01.canon_rooted(trees[i]) for i in tops]), case)


# ------------------------------------------------------------------ thresholds equal to attainable frequencies (oracle only)
ATTAIN_COUNTS = [3, 5, 6, 6, 7, 7, 9, 10, 11, 12, 12, 13, 14, 15]
ATTAIN_LARGE = [49, 98, 103, 107]      # unanimous-split counts k for which k * (1/k) != 1 in binary64; costly, drawn rarely in the quick tier


def gen_attain(ctx, dendropy):
    """n trees (n not a power of two), unit weights, full leaf sets, one rooting state; the threshold is the frequency k/n of one
    of the sample's splits (or the next attainable value above it, or n/n), handed to the library as float(k)/n.  With unit
    weights the statement's comparison `count/n >= k/n` is the integer comparison count >= k, which is what the oracle does."""
    rng = ctx.rng
    large = rng.random() < ctx.pick(0.04, 0.2)
    k = rng.choice(ATTAIN_LARGE if large else ATTAIN_COUNTS)
    n = rng.randint(4, 5 if large else 7)
    hole = rng.random() < 0.15
    total = n + (1 if hole else 0)
    tns = tu.make_namespace(dendropy, 0, labels=["t%d" % i for i in range(total)], holes=[rng.randrange(total)] if hole else [])
    taxa = list(tns)
    rooted = rng.choice([True, False, None])
    base = c04.gen_on(dendropy, rng, tns, taxa, rooted, 0.0)
    alt = c04.perturb(dendropy, rng, base)
    trees = []
    for _ in range(k):
        r = rng.random()
        t = c04.clone(dendropy, base) if r < (0.8 if k > 20 else 0.55) else (c04.clone(dendropy, alt) if r < 0.85 else c04.perturb(dendropy, rng, base))
        t.weight = None
        trees.append(t)
    if k > 20 and rng.random() < 0.5:
        trees = [c04.clone(dendropy, base) for _ in range(k)]       # unanimous sample
    if any(basal_split(t) is not None for t in trees):
        return None
    if rng.random() < 0.5:
        for t in trees:
            t.weight = 1.0
    use_w = rng.random() < 0.5
    fr, _ = oracle_freqs(trees, use_w)
    F = set(tns.accession_index(t) for t in tns)
    crooted = rooted is True
    inform = [s for s in fr if nontrivial(canon_split(s, members_mask(tns), crooted), F, crooted)] or list(fr)
    s = rng.choice(sorted(inform))
    cnt = fr[s] * k
    assert cnt.denominator == 1
    cnt = int(cnt)
    r = rng.random()
    num = cnt if r < 0.7 else (min(k, cnt + 1) if r < 0.85 else k)
    thr = {"num": num, "den": k}
    if rng.random() < 0.5:
        src = trees[rng.randrange(k)]
        return sample_case(tns, trees, use_w, thr, rng.random() < 0.3, target=tree_rec(src), summ_opts={"pct": rng.random() < 0.2, "label": False})
    tgt = c04.clone(dendropy, trees[rng.randrange(k)])
    tgt.encode_bipartitions()      # normal form only, see gen_collapse
    return dict(sample_case(tns, trees, use_w, thr, False), op="collapse", target=tree_rec(tgt))


# ------------------------------------------------------------------ samples ASSEMBLED by merges; every collection involved is judged
def gen_merge(ctx, dendropy):
    """two or three groups of trees over one namespace go into TreeArrays that are merged (a + b, a += b, update, extend), the
    operands are KEPT and some of them grown afterwards; after every step each collection alive is judged, from scratch, against
    exactly the trees it was given"""
    rng = ctx.rng
    ages = rng.random() < 0.4
    if ages:
        n = rng.randint(3, 6)
        tns = tu.make_namespace(dendropy, n)
        base_shape = tu.rand_shape(rng, n, p_poly=0.0, p_unary=0.0)
        trees = [ultrametric_on(dendropy, rng, tns, list(tns), base_shape if rng.random() < 0.6 else None) for _ in range(rng.randint(3, 9))]
        use_w = rng.random() < 0.5
        if use_w:
            for t in trees:
                t.weight = rng.choice([0.5, 1.0, 2.0])
    else:
        tns, trees = gen_sample(dendropy, rng, ctx)
        Fmask = members_mask(tns)
        if len(trees) < 3 or len({t.is_rooted for t in trees}) != 1 or any(basal_split(t) is not None for t in trees) \
                or any(tu.leafset_masks(t)[id(t.seed_node)] != Fmask for t in trees):
            return None
        use_w = rng.random() < 0.5
    k = len(trees)
    idx = list(range(k))
    rng.shuffle(idx)
    c1 = rng.randint(1, k - 2)
    c2 = rng.randint(c1 + 1, k - 1)
    A, B, C = idx[:c1], idx[c1:c2], idx[c2:]
    script = [["new", "a", A], ["new", "b", B]]
    kind = rng.choice(["+", "+", "+=", "update", "extend"])
    if kind == "+":
        script.append(["merge", "+", "c", "a", "b"])
    else:
        x, y = rng.choice([("a", "b"), ("b", "a")])
        script.append(["merge", kind, x, x, y])
    if rng.random() < 0.3:
        # an EMPTY array built with the opposite use_tree_weights takes everything, settings included, from its first merge partner
        script.append(["new", "e", [], not use_w])
        script.append(["merge", rng.choice(["+=", "update", "extend"]), "e", "e", "a"])
    script.append(["check"])
    names = ["a", "b"] + (["c"] if kind == "+" else [])
    half = max(1, len(C) // 2)
    script.append(["add", rng.choice(names), C[:half]])
    script.append(["check"])
    if C[half:]:
        if rng.random() < 0.5:
            x, y = rng.sample(names, 2)
            script.append(["merge", rng.choice(["+=", "update", "extend"]), x, x, y])
            script.append(["add", y, C[half:]])
        else:
            script.append(["add", rng.choice(names), C[half:]])
        script.append(["check"])
    thr = rng.choice(["GTH", 0.625, 0.75, 1.0])
    return dict(sample_case(tns, trees, use_w, thr, False), op="merge", ages=ages, script=script,
                target_index=rng.randrange(k))


def judge_collection(ctx, dendropy, case, tns, ta, recs_idx, trees, label, pending):
    """every clause of the statement on ONE collection, against the trees it was given (`trees`, in the order given)"""
    use_w, thr, ages = case["use_weights"], case["threshold"], case["ages"]
    thr_v, thr_f = thr_value(dendropy, thr), thr_exact(dendropy, thr)
    fr, _ = oracle_freqs(trees, use_w)
    members = [tns.accession_index(t) for t in tns]
    F, Fmask = set(members), members_mask(tns)
    crooted = all(t.is_rooted is True for t in trees)
    d = ta.split_distribution
    got = {s: d[s] for s in d}
    if len(ta) != len(trees):
        ctx.fail("merge", "%s holds %d trees, it was given %d" % (label, len(ta), len(trees)), case)
        return
    if set(got) != set(fr):
        ctx.fail("frequency", "%s reports splits %s that differ from those of the trees it was given" % (label, sorted(set(got) ^ set(fr))[:6]), case)
        return
    for s, f in fr.items():
        if not close(got[s], float(f), 1e-12) or (f == 1 and got[s] != 1.0):
            ctx.fail("frequency", "%s[%d] = %r, weighted fraction of its trees containing it = %s" % (label, s, got[s], f), case)
            return
    lens, age = {}, {}
    for t in trees:
        for s, l in c04.split_lengths(t).items():
            lens.setdefault(s, []).append(l)
        if ages:
            masks = tu.leafset_masks(t)
            for nd in tu.walk(t.seed_node):
                age.setdefault(masks[id(nd)], []).append(tip_age(nd))

    def annotations_ok(tree, what):
        for nd, s in node_splits(tree)[0]:
            want = fr.get(s, Fraction(0))
            sup = getattr(nd, "support", None)
            if sup is None or not close(sup, float(want), 1e-12):
                ctx.fail("support", "%s, %s: node of split %d carries support %r, frequency over the trees of this collection is %s" % (label, what, s, sup, want), case)
                return False
            if s in lens:
                prob = summary_problem(nd.edge, "length_", lens[s])
                if prob:
                    ctx.fail("summary", "%s, %s: edge of split %d: %s (values over the %d trees this collection was given)" % (label, what, s, prob, len(trees)), case)
                    return False
            if ages and s in age:
                prob = summary_problem(nd, "age_", age[s])
                if prob:
                    ctx.fail("summary", "%s, %s: node of split %d: age %s (ages over the %d trees this collection was given)" % (label, what, s, prob, len(trees)), case)
                    return False
        return True
    tgt = tree_of_rec(dendropy, case["trees"][case["target_index"] % len(case["trees"])], tns)[0]
    ta.summarize_splits_on_tree(tgt)
    if not annotations_ok(tgt, "summarize_splits_on_tree"):
        return
    con = ta.consensus_tree(min_freq=thr_v)
    probs = tu.arborescence_problems(con)
    tips = [nd for nd in tu.walk(con.seed_node) if not nd._child_nodes]
    if probs or sorted(tns.accession_index(nd.taxon) for nd in tips if nd.taxon is not None) != sorted(members) or any(nd.taxon is None for nd in tips):
        ctx.fail("consensus", "%s: consensus tree malformed or not spanning the namespace: %s" % (label, probs), case)
        return
    if bool(con.is_rooted) != crooted:
        ctx.fail("consensus", "%s: consensus has rooting %s, its trees are %s" % (label, con.is_rooted, "rooted" if crooted else "not rooted"), case)
    if not annotations_ok(con, "consensus_tree"):
        return
    cand = {canon_split(s, Fmask, crooted) for s, f in fr.items() if f >= thr_f}
    cand = {c for c in cand if nontrivial(c, F, crooted)}
    have = {canon_split(m, Fmask, crooted) for m in tu.leafset_masks(con).values()}
    have = {c for c in have if nontrivial(c, F, crooted)}
    if thr_f > Fraction(1, 2):
        if have != cand:
            ctx.fail("consensus", "%s: consensus at threshold %s has non-trivial splits %s, those with frequency >= threshold over its trees are %s" % (
                label, thr_label(thr), sorted(have), sorted(cand)), case)
    elif not have <= cand or any(not compatible(x, y, F, crooted) for x in have for y in have) \
            or any(all(compatible(c, r, F, crooted) for r in have) for c in cand - have):
        ctx.fail("consensus", "%s: consensus at threshold %s with splits %s is not a maximal compatible subset of those reaching the threshold over its trees, %s" % (
            label, thr_label(thr), sorted(have), sorted(cand)), case)
    scores, idx = ta.calculate_log_product_of_split_supports()
    if len(scores) != len(trees) or idx is None or scores[idx] != max(scores):
        ctx.fail("mcc-argmax", "%s: reported maximiser %s does not attain the maximum of the reported scores %s" % (label, idx, scores), case)
        return
    best = ta.maximum_product_of_split_support_tree()
    canon = c01.canon_rooted if best.is_rooted else c01.canon_unrooted
    tops = argmax_set(scores)
    if not any(canon(best) == canon(trees[i]) for i in tops):
        ctx.fail("mcc-topology", "%s: maximum product-of-support tree has topology %s, its trees attaining the maximum score are %s" % (
            label, canon(best), [canon(trees[i]) for i in tops]), case)
    elif not annotations_ok(best, "maximum_product_of_split_support_tree"):
        return
    for i, t in enumerate(trees):
        nsp, tl_mask = node_splits(t)
        Ft = c01.bits_of(tl_mask)
        sc = 0.0
        for s in sorted({s for _nd, s in nsp}):
            A = c01.bits_of(s) & Ft
            if s == tl_mask or not (len(A) <= 1 or len(Ft - A) <= 1):
                if fr.get(s):
                    sc += math.log(float(fr[s]))
        if not close(scores[i], sc, 1e-9):
            ctx.fail("mcc-score", "%s: product-of-support score of its tree %d reported as %r, from the frequencies it is %r" % (label, i, scores[i], sc), case)
            break
    # correspondence: the model counts the trees this collection was given, one by one
    sub = dict(case, trees=[case["trees"][i] for i in recs_idx])
    line = "summ %d %s %d %d %d %s %d %s" % (use_w, tu.frac(thr_v), 0, tns.all_taxa_bitmask(), len(members), " ".join(map(str, members)),
                                             len(trees), recs_line(sub))
    impl = {"freqs": got, "scores": {}, "rootings": {trees[0].is_rooted}, "lens": {s: list(v) for s, v in d.split_edge_lengths.items()}}
    pending.append((line, case, impl))


def run_merge(ctx, dendropy, case, pending):
    tns, trees = trees_of_case(dendropy, case)
    use_w, ages = case["use_weights"], case["ages"]
    ctx.case(["merge", stable_hash(case)], True, kind="merge")
    cols, given = {}, {}

    def new_array(flag=None):
        return dendropy.TreeArray(taxon_namespace=tns, use_tree_weights=use_w if flag is None else flag, ignore_node_ages=not ages)

    def add(name, idxs):
        for i in idxs:
            c = c04.clone(dendropy, trees[i])
            c.weight = trees[i].weight
            cols[name].add_tree(c)
            given[name].append(i)
    for step in case["script"]:
        if step[0] == "new":
            cols[step[1]], given[step[1]] = new_array(step[3] if len(step) > 3 else None), []
            if len(step) > 3:
                ctx.count("merge into an empty array built with the other use_tree_weights")
            add(step[1], step[2])
        elif step[0] == "add":
            add(step[1], step[2])
        elif step[0] == "merge":
            _m, kind, dst, x, y = step
            if kind == "+":
                cols[dst] = cols[x] + cols[y]
                given[dst] = given[x] + given[y]
            else:
                if kind == "+=":
                    cols[x] += cols[y]
                elif kind == "update":
                    cols[x].update(cols[y])
                else:
                    cols[x].extend(cols[y])
                given[x] = given[x] + given[y]
        else:
            for name in sorted(cols):
                if given[name]:
                    judge_collection(ctx, dendropy, case, tns, cols[name], given[name], [trees[i] for i in given[name]],
                                     "collection %s (after %s)" % (name, " ; ".join(" ".join(map(str, st[:2])) for st in case["script"][:case["script"].index(step) + 1] if st[0] != "check")),
                                     pending)


# ------------------------------------------------------------------ dispatch
def gen_case(ctx, dendropy, op):
    rng = ctx.rng
    if op == "merge":
        return gen_merge(ctx, dendropy)
    if op == "attain":
        return gen_attain(ctx, dendropy)
    if op == "summ":
        tns, trees = gen_sample(dendropy, rng, ctx)
        src = trees[rng.randrange(len(trees))] if rng.random() < 0.75 else c04.perturb(dendropy, rng, trees[0])
        return sample_case(tns, trees, rng.random() < 0.6, rng.choice(THRESHOLDS), rng.random() < 0.3,
                           target=tree_rec(src), summ_opts={"pct": rng.random() < 0.25, "label": rng.random() < 0.25})
    if op == "incremental":
        return gen_incremental(ctx, dendropy)
    if op == "more":
        return gen_more(ctx, dendropy)
    if op == "annot":
        return gen_annot(ctx, dendropy)
    if op == "refused":
        return gen_refused(ctx, dendropy)
    return gen_collapse(ctx, dendropy)


def run_case(ctx, dendropy, case, pending, pending_c):
    """run ONE self-contained case; an exception escaping the library is a candidate violation, one raised by harness code is a harness bug"""
    op = case.get("op")
    try:
        if op == "summ":
            check_sample(ctx, dendropy, case, pending)
        elif op == "collapse":
            run_collapse(ctx, dendropy, case, pending_c)
        elif op == "incremental":
            run_incremental(ctx, dendropy, case, pending)
        elif op == "more":
            run_more(ctx, dendropy, case)
        elif op == "merge":
            run_merge(ctx, dendropy, case, pending)
        elif op == "annot":
            run_annot(ctx, dendropy, case, pending)
        elif op == "refused":
            run_refused(ctx, dendropy, case, pending)
        else:
            raise ValueError("unknown op %r" % (op,))
    except Exception as e:
        if not common.is_library_exception(e):
            raise
        ctx.fail("exception", "%s raised %s: %s" % (op, type(e).__name__, str(e)[:200]), case)


def run(ctx):
    dendropy = __import__("dendropy")
    rng = ctx.rng
    ctx.set_budget(30, 540)
    pending, pending_c = [], []
    for _ in range(ctx.pick(1500, 30000)):
        if ctx.out_of_time():
            break
        op = rng.choices(OPS, OP_WEIGHTS)[0]
        case = gen_case(ctx, dendropy, op)
        if case is None:
            continue
        run_case(ctx, dendropy, case, pending, pending_c)
        if len(pending) >= 150:
            flush(ctx, pending)
        if len(pending_c) >= 150:
            flush_c(ctx, pending_c)
    flush(ctx, pending)
    flush_c(ctx, pending_c)
    if ctx.tier == "thorough":
        exhaustive(ctx, dendropy, pending)


def search(ctx, broken):
    """obligations broke (a kernel regenerated from the source no longer equals the model's, or generation left the supported
    subset) or the model disagrees: look for a concrete input on which the REAL code contradicts the statement, with the oracles
    only, aimed at the regenerated kernels: thresholds that are attainable frequencies (`>=` vs `>`), weights None/zero/dyadic
    (weight_to_use, normaliser), even counts (median), every summarising setting (percentage, label, edge-length modes, minimum),
    collapse at each threshold and with ill-fitting rooting, scores and their maximiser"""
    dendropy = __import__("dendropy")
    rng = ctx.rng
    pending, pending_c = [], []
    t0 = __import__("time").time()
    for i in range(ctx.pick(400, 3000)):
        if ctx.failures and i > 50:
            break
        if __import__("time").time() - t0 > ctx.pick(25, 240):
            break
        op = ["attain", "annot", "collapse", "more", "summ", "incremental", "refused"][i % 7]
        case = gen_case(ctx, dendropy, op)
        if case is None:
            continue
        run_case(ctx, dendropy, case, pending, pending_c)
        del pending[:]          # oracle only: the model is what is in doubt
        del pending_c[:]


def exhaustive(ctx, dendropy, pending):
    """all multisets of <= 3 binary rooted/unrooted shapes over 4 taxa with every labelling rotation, all thresholds"""
    import itertools
    n = 4
    tns = tu.make_namespace(dendropy, n)
    members = list(tns)
    shapes = [s for s in tu.all_shapes(n)]
    trees_all = []
    for s in shapes:
        for rot in range(n):
            trees_all.append((s, rot))
    count = 0
    for rooted in (True, False):
        for k in (1, 2, 3):
            for combo in itertools.combinations_with_replacement(range(0, len(trees_all), 3), k):
                trees = [tu.build_tree(dendropy, trees_all[i][0], tns, members[trees_all[i][1]:] + members[:trees_all[i][1]],
                                       lambda: 1.0, rooted) for i in combo]
                thr = THRESHOLDS[count % len(THRESHOLDS)]
                run_case(ctx, dendropy, sample_case(tns, trees, True, thr, False), pending, [])
                count += 1
                if len(pending) >= 300:
                    flush(ctx, pending)
    flush(ctx, pending)
    ctx.extra["exhaustive_small_scope"] = "%d multisets of <= 3 trees over 4 taxa (every third (shape, rotation)), both rootings, thresholds cycled" % count


def replay(ctx, rec):
    dendropy = __import__("dendropy")
    c = dict(rec["replay"])
    c.pop("defect", None)
    pending, pending_c = [], []
    if "rng_state" in c:
        # records written before every case became self-contained: regenerate the case from the recorded generator state
        st = c["rng_state"]
        ctx.rng.setstate((st[0], tuple(st[1]), st[2]))
        ctx.tier = c.get("tier", ctx.tier)
        case = gen_case(ctx, dendropy, c["op"])
        if case is not None:
            run_case(ctx, dendropy, case, pending, pending_c)
    else:
        run_case(ctx, dendropy, c, pending, pending_c)
    flush(ctx, pending)
    flush_c(ctx, pending_c)
