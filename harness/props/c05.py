"""C05 - split frequencies, consensus trees and support annotations are exact."""
import math
from fractions import Fraction

import treeutil as tu
from common import stable_hash
from props import c01, c04

ID = "C05"
GEN_DEPENDS = ["PyBits"]
RULE = ("samples of 1-12 trees over 3-8 taxa (namespace sometimes with an extra member or a hole), drawn around a base topology so that "
        "majority splits exist, rooted / unrooted (rarely mixed), polytomies and unary nodes, dyadic / None lengths, tree weights "
        "None / 1 / dyadic / all zero, use_tree_weights on and off, thresholds {None, 0, 1/4, 1/2, GREATER_THAN_HALF, 5/8, 3/4, 1}; "
        "non-trivial = at least two distinct topologies in the sample")
MODELLED_NOT_VERIFIED = [
    "C05: the Lean model (Model/C05.lean on C01/C04) is hand-written from SplitDistribution.count_splits_on_tree / calc_freqs / consensus_tree, "
    "TreeArray.calculate_*_of_split_supports and collapse_edges_with_less_than_minimum_support; tied per sample (frequencies, consensus tree "
    "with child order, scores, first maximiser, per-split length statistics, collapsed tree)",
    "C05: math.log in the product score (the model multiplies supports; compared through exp within 1e-9), binary64 (weights and thresholds are "
    "dyadic so exact and float verdicts coincide), HPD / 5-95 quantiles and annotation objects (not in the statement)",
]
EXPLANATION = ("Theorems: frequency = weighted count / normaliser and 0 for absent splits; a count is never stale (freq reads the current counts); "
               "splits above one half pairwise co-occur in a tree hence are laminar and all inserted in any order (majority rule); the greedy "
               "insertion skips exactly the splits conflicting with the tree built so far (maximality); the consensus keeps the star's leaf set; "
               "collapse keeps root-to-tip distances; the reported maximiser is the first index attaining the maximum score.")

THRESHOLDS = [None, 0.0, 0.25, 0.5, "GTH", 0.625, 0.75, 1.0]


def gth(dendropy):
    from dendropy.utility import constants
    return constants.GREATER_THAN_HALF


# ------------------------------------------------------------------ generators
def gen_sample(dendropy, rng, ctx):
    n = rng.randint(3, ctx.pick(8, 12))
    extra = 1 if rng.random() < 0.15 else 0
    hole = rng.random() < 0.1
    total = n + extra + (1 if hole else 0)
    holes = [rng.randrange(total)] if hole else []
    tns = tu.make_namespace(dendropy, 0, labels=["t%d" % i for i in range(total)], holes=holes)
    taxa = rng.sample(list(tns), n)
    rooted = rng.choice([True, False, None])
    k = rng.randint(1, ctx.pick(12, 30))
    none_rate = rng.choice([0.0, 0.0, 0.2])
    unary = rng.choice([0.0, 0.0, 0.0, 0.05])
    base = c04.gen_on(dendropy, rng, tns, taxa, rooted, none_rate)
    trees = []
    for _ in range(k):
        r = rng.random()
        if r < 0.45:
            t = c04.clone(dendropy, base)
            for nd in tu.walk(t.seed_node):
                if nd.edge.length is not None and rng.random() < 0.5:
                    nd.edge.length = tu.dyadic(rng)
        elif r < 0.8:
            t = c04.perturb(dendropy, rng, base)
        else:
            tx = list(taxa)
            rng.shuffle(tx)
            shape = tu.rand_shape(rng, n, p_poly=rng.choice([0.0, 0.3]), p_unary=unary)
            t = tu.build_tree(dendropy, shape, tns, tx, lambda: tu.dyadic(rng, none_rate), rooted)
        if rng.random() < 0.03:
            t.is_rooted = rng.choice([True, False])
        trees.append(t)
    wmode = rng.choice(["none", "none", "ones", "dyadic", "dyadic", "zero", "mixed"])
    for t in trees:
        if wmode == "ones":
            t.weight = 1.0
        elif wmode == "dyadic":
            t.weight = rng.choice([0.25, 0.5, 1.0, 2.0, 3.0])
        elif wmode == "zero":
            t.weight = 0.0
        elif wmode == "mixed":
            t.weight = rng.choice([None, 0.5, 2.0])
    return tns, trees


def sample_case(tns, trees, use_w, thr, incl):
    return {"op": "summ", "ns": c01.namespace_desc(tns), "use_weights": use_w, "threshold": thr, "incl_external": incl,
            "trees": [{"rooted": c01.ROOT[t.is_rooted], "weight": None if t.weight is None else tu.frac(t.weight),
                       "tree": tu.encode_tree(t, with_labels=False)[0]} for t in trees],
            "basal_bifurcation_survives": any(c04.basal_survives(t) for t in trees),
            "namespace_has_absent_members": any(tu.leafset_masks(t)[id(t.seed_node)] != sum(1 << tns.accession_index(x) for x in tns) for t in trees)}


def trees_of_case(dendropy, c):
    tns = c01.tree_for_case(dendropy, {"ns": c["ns"], "rooted": "R", "tree": c["trees"][0]["tree"]})[0].taxon_namespace
    out = []
    for rec in c["trees"]:
        t, _ = tu.tree_from_tokens(dendropy, rec["tree"], rooted={"R": True, "U": False, "N": None}[rec["rooted"]], tns=tns)
        t.weight = None if rec["weight"] is None else float(Fraction(rec["weight"]))
        out.append(t)
    return tns, out


def thr_value(dendropy, thr):
    return gth(dendropy) if thr == "GTH" else thr


# ------------------------------------------------------------------ independent oracle
def weight_of(t, use_w):
    return Fraction(t.weight) if (t.weight is not None and use_w) else Fraction(1)


def oracle_freqs(trees, use_w):
    sets = [set(c04.split_lengths(t)) for t in trees]
    W = sum((weight_of(t, use_w) for t in trees), Fraction(0))
    norm = W if W != 0 else Fraction(len(trees))
    out = {}
    for t, s in zip(trees, sets):
        for x in s:
            out[x] = out.get(x, Fraction(0)) + weight_of(t, use_w)
    return {x: v / norm for x, v in out.items()}, sets


def nontrivial(mask, F, rooted=False):
    """informative: a clade of 2..n-1 taxa on rooted trees, a bipartition with >= 2 taxa on both sides on unrooted ones"""
    A = c01.bits_of(mask) & F
    return len(A) >= 2 and len(F - A) >= (1 if rooted else 2)


def compatible(a, b, F, rooted):
    A, B = c01.bits_of(a) & F, c01.bits_of(b) & F
    if rooted:
        return (not (A & B)) or A <= B or B <= A
    return c01.quadrants_empty(A, B, F)


def canon_split(mask, allmask, rooted):
    """clade (rooted) / side without the lowest namespace bit (unrooted), as a frozenset over ALL namespace bits"""
    if rooted:
        return mask
    low = allmask & -allmask
    return (allmask & ~mask) if (mask & low) else mask


def tree_splits_all(tree, allmask, rooted):
    masks = tu.leafset_masks(tree)
    return {canon_split(m, allmask, rooted) for m in masks.values()}


def close(x, y, tol=1e-9):
    return abs(x - y) <= tol * max(1.0, abs(x), abs(y))


def root_tip(tree):
    out = {}
    stack = [(tree.seed_node, Fraction(0))]
    while stack:
        nd, d = stack.pop()
        if not nd._child_nodes:
            out[tu.label_of(nd)] = d
        for c in nd._child_nodes:
            stack.append((c, d + tu.F(c.edge.length)))
    return out


# ------------------------------------------------------------------ the check of one sample
def check_sample(ctx, dendropy, tns, trees, use_w, thr, incl, pending):
    case = sample_case(tns, trees, use_w, thr, incl)
    thr_v = thr_value(dendropy, thr)
    distinct = len({c01.canon_rooted(t) for t in trees})
    ctx.case(["summ", stable_hash(case)], distinct >= 2, sample={k: case[k] for k in ("ns", "use_weights", "threshold", "trees")}
             if len(trees) <= 3 else None, kind="summ")
    fr, sets = oracle_freqs(trees, use_w)
    members = [tns.accession_index(t) for t in tns]
    F = set(members)
    allmask = tns.all_taxa_bitmask()

    def fresh():
        tl = dendropy.TreeList(taxon_namespace=tns)
        for t in trees:
            c = c04.clone(dendropy, t)
            c.weight = t.weight
            tl.append(c)
        return tl
    # ---- (a) frequencies, TreeList.split_distribution and TreeArray routes
    sd = fresh().split_distribution(use_tree_weights=use_w, default_edge_length_value=0)
    rootings = {t.is_rooted for t in trees}   # None (unspecified) and False are different states to TreeArray.validate_rooting
    ta = None
    routes = [("TreeList.split_distribution", sd)]
    if len(rootings) == 1:
        ta = dendropy.TreeArray(taxon_namespace=tns, use_tree_weights=use_w)
        ta.add_trees(fresh())
        routes.append(("TreeArray.split_distribution", ta.split_distribution))
    for name, d in routes:
        got_keys = set(d.split_counts)
        if got_keys != set(fr):
            ctx.fail("frequency", "%s reports splits %s, the trees contain %s" % (name, sorted(got_keys ^ set(fr))[:6], "other"), case)
            return
        for s, f in fr.items():
            if not close(d[s], float(f), 1e-12):
                ctx.fail("frequency", "%s[%d] = %r, weighted fraction of trees containing it = %s" % (name, s, d[s], f), case)
                return
        absent = max(fr) + 2
        if d[absent] != 0:
            ctx.fail("frequency", "%s reports %r for a split that occurs in no tree" % (name, d[absent]), case)
    # cache invalidation: frequencies read after counting one more tree
    if trees:
        d2 = fresh().split_distribution(use_tree_weights=use_w)
        _ = d2[max(fr)]
        extra = c04.clone(dendropy, trees[0])
        extra.weight = trees[0].weight
        d2.count_splits_on_tree(extra)
        fr2, _s = oracle_freqs(trees + [trees[0]], use_w)
        for s, f in fr2.items():
            if not close(d2[s], float(f), 1e-12):
                ctx.fail("frequency", "after counting one more tree split %d has frequency %r, expected %s (stale table?)" % (s, d2[s], f), case)
                break
    # ---- (b)-(d) consensus
    for route in ("TreeList.consensus", "TreeArray.consensus_tree"):
        if len(rootings) > 1:
            continue
        try:
            if route == "TreeList.consensus":
                if len(rootings) > 1:
                    continue       # TreeArray refuses mixed rootings by design
                con = fresh().consensus(min_freq=thr_v, use_tree_weights=use_w)
            else:
                con = ta.consensus_tree(min_freq=thr_v)
        except Exception as e:
            ctx.fail("consensus", "%s raised %s: %s" % (route, type(e).__name__, str(e)[:120]), case)
            continue
        crooted = rootings == {True}
        probs = tu.arborescence_problems(con)
        if probs:
            ctx.fail("consensus", "%s returned a malformed tree: %s" % (route, probs), case)
            continue
        leaves = sorted(tns.accession_index(nd.taxon) for nd in tu.walk(con.seed_node) if not nd._child_nodes and nd.taxon is not None)
        if leaves != sorted(members) or any(nd.taxon is None for nd in tu.walk(con.seed_node) if not nd._child_nodes):
            ctx.fail("consensus", "%s does not span every taxon of the namespace exactly once: leaves %s" % (route, leaves), case)
            continue
        if bool(con.is_rooted) != crooted:
            ctx.fail("consensus", "%s has rooting %s, input trees are %s" % (route, con.is_rooted, "rooted" if crooted else "unrooted"), case)
        # candidate splits in canonical form over the namespace
        thr_f = None if thr_v is None else Fraction(thr_v)
        cand = {}
        for s, f in fr.items():
            cs = canon_split(s, allmask, crooted) if all(set(c01.bits_of(s)) <= F for _ in [0]) else s
            if nontrivial(cs, F, crooted) and (thr_f is None or f >= thr_f):
                cand[cs] = max(f, cand.get(cs, Fraction(0)))
        got = {s for s in tree_splits_all(con, allmask, crooted) if nontrivial(s, F, crooted)}
        full_sets = all(tu.leafset_masks(t)[id(t.seed_node)] == allmask for t in trees)
        if not full_sets:
            continue   # trees lacking namespace members: masks are relative to each tree's own leafset; not judged here
        if thr_f is not None and thr_f > Fraction(1, 2):
            if got != set(cand):
                ctx.fail("consensus", "%s at threshold %s has non-trivial splits %s, those with frequency >= threshold are %s" % (
                    route, thr, sorted(got), sorted(cand)), case)
        else:
            if not got <= set(cand):
                ctx.fail("consensus", "%s at threshold %s contains splits below the threshold: %s" % (route, thr, sorted(got - set(cand))), case)
            elif any(not compatible(a, b, F, crooted) for a in got for b in got):
                ctx.fail("consensus", "%s contains incompatible splits" % route, case)
            else:
                for c, f in cand.items():
                    if c in got:
                        continue
                    blockers = [r for r in got if not compatible(c, r, F, crooted)]
                    if not blockers:
                        ctx.fail("consensus", "%s at threshold %s is not maximal: split %d (freq %s) is compatible with all its splits" % (route, thr, c, f), case)
                        break
                    if all(cand[r] < f for r in blockers):
                        ctx.fail("consensus", "%s skipped split %d (freq %s) in favour of less frequent conflicting splits" % (route, c, f), case)
                        break
        # (e) support on the consensus nodes
        masks = tu.leafset_masks(con)
        L = masks[id(con.seed_node)]
        low = L & -L
        for nd in tu.walk(con.seed_node):
            m = masks[id(nd)]
            s = m if crooted else ((L & ~m) if (m & low) else m)
            want = fr.get(s, Fraction(0))
            sup = getattr(nd, "support", None)
            if sup is None or not close(sup, float(want), 1e-12):
                ctx.fail("support", "%s: node with split %d carries support %r, frequency is %s" % (route, s, sup, want), case)
                break
    # ---- (e) summaries on a target tree
    if trees and len(rootings) == 1:
        tgt = c04.clone(dendropy, trees[ctx.rng.randrange(len(trees))])
        ta.summarize_splits_on_tree(tgt)
        per_split = {}
        for t in trees:
            for s, l in c04.split_lengths(t).items():
                per_split.setdefault(s, []).append(l)
        masks = tu.leafset_masks(tgt)
        L = masks[id(tgt.seed_node)]
        low = L & -L
        rooted = bool(tgt.is_rooted)
        if not case["basal_bifurcation_survives"]:
            for nd in tu.walk(tgt.seed_node):
                m = masks[id(nd)]
                s = m if rooted else ((L & ~m) if (m & low) else m)
                vals = per_split.get(s, [])
                if not vals:
                    continue
                if not close(getattr(nd, "support", -1), float(fr.get(s, 0)), 1e-12):
                    ctx.fail("support", "summarize_splits_on_tree: support %r for split %d, frequency %s" % (getattr(nd, "support", None), s, fr.get(s)), case)
                    break
                e = nd.edge
                mean = sum(vals, Fraction(0)) / len(vals)
                sv = sorted(vals)
                med = sv[len(sv) // 2] if len(sv) % 2 else (sv[len(sv) // 2 - 1] + sv[len(sv) // 2]) / 2
                ok = close(e.length_mean, float(mean)) and close(e.length_median, float(med)) and \
                    close(e.length_range[0], float(sv[0])) and close(e.length_range[1], float(sv[-1]))
                if ok and len(vals) >= 2:
                    var = sum(((v - mean) ** 2 for v in vals), Fraction(0)) / (len(vals) - 1)
                    ok = close(e.length_sd ** 2, float(var), 1e-6)
                if not ok:
                    ctx.fail("summary", "edge of split %d: mean/median/range/sd = %r/%r/%r/%r, values over the input trees are %s" % (
                        s, e.length_mean, e.length_median, e.length_range, e.length_sd, [str(v) for v in vals]), case)
                    break
    # ---- (g) maximum credibility
    got_scores = {}
    if trees and len(rootings) == 1:
        for kind in ("sum", "prod"):
            if kind == "sum":
                scores, idx = ta.calculate_sum_of_split_supports(include_external_splits=incl)
                best = ta.maximum_sum_of_split_support_tree(include_external_splits=incl, summarize_splits=False)
            else:
                scores, idx = ta.calculate_log_product_of_split_supports(include_external_splits=incl)
                best = ta.maximum_product_of_split_support_tree(include_external_splits=incl, summarize_splits=False)
            got_scores[kind] = (scores, idx)
            if idx is None or scores[idx] != max(scores) or idx != scores.index(max(scores)):
                ctx.fail("mcc", "%s-of-support: reported maximiser %s is not the first maximum of the reported scores %s" % (kind, idx, scores), case)
                continue
            canon = c01.canon_rooted if best.is_rooted else c01.canon_unrooted
            if canon(best) != canon(trees[idx]):
                ctx.fail("mcc", "maximum %s-of-support tree has topology %s, input tree %d attaining the maximum score is %s" % (
                    kind, canon(best), idx, canon(trees[idx])), case)
            # the scores themselves, from scratch
            for i, t in enumerate(trees):
                tl_mask = tu.leafset_masks(t)[id(t.seed_node)]
                Ft = c01.bits_of(tl_mask)
                sc = Fraction(0) if kind == "sum" else 0.0
                for nd in tu.walk(t.seed_node):
                    pass
                masks_t = tu.leafset_masks(t)
                lowt = tl_mask & -tl_mask
                rt = bool(t.is_rooted)
                seen = []
                for nd in tu.walk(t.seed_node):
                    m = masks_t[id(nd)]
                    s = m if rt else ((tl_mask & ~m) if (m & lowt) else m)
                    seen.append(s)
                if case["basal_bifurcation_survives"] or len(set(seen)) != len(seen):
                    sc = None
                    break
                for s in seen:
                    A = c01.bits_of(s) & Ft
                    triv = len(A) <= 1 or len(Ft - A) <= 1
                    if incl or s == tl_mask or not triv:
                        f = fr.get(s, Fraction(0))
                        if kind == "sum":
                            sc += f
                        elif f:
                            sc += math.log(float(f))
                if sc is not None and not close(scores[i], float(sc), 1e-9):
                    ctx.fail("mcc", "%s-of-support score of tree %d reported as %r, from the frequencies it is %r" % (kind, i, scores[i], float(sc)), case)
                    break
    # ---- correspondence
    thr_tok = "N" if thr_v is None else tu.frac(thr_v)
    line = "summ %d %s %d %d %d %s %d %s" % (
        use_w, thr_tok, incl, allmask, len(members), " ".join(map(str, members)), len(trees),
        " ".join("%s %s %s" % (r["rooted"], "N" if r["weight"] is None else r["weight"], " ".join(r["tree"])) for r in case["trees"]))
    impl = {"freqs": {s: sd[s] for s in sd.split_counts}, "scores": got_scores, "rootings": rootings}
    if len(rootings) == 1:
        try:
            con = ta.consensus_tree(min_freq=thr_v, summarize_splits=False)
            impl["cons"] = c01.render_h(con.seed_node, tns)
            impl["crooted"] = bool(con.is_rooted)
        except Exception as e:
            impl["cons"] = "EXC " + type(e).__name__
        lens = {}
        for s, vals in ta.split_distribution.split_edge_lengths.items():
            lens[s] = list(vals)
        impl["lens"] = lens
    pending.append((line, case, impl))


def parse_sections(o):
    out = {}
    for part in o.split(" | "):
        k, _, v = part.strip().partition(" ")
        out[k] = v.strip()
    return out


def flush(ctx, pending):
    outs = ctx.ask([p[0] for p in pending])
    for (line, case, impl), o in zip(pending, outs):
        if o is None:
            continue
        ctx.compared()
        if o in ("bad-op", "bad-trees"):
            ctx.disagree("summ", case, "ok", o)
            continue
        sec = parse_sections(o)
        mf = {}
        for tok in sec.get("freqs", "").split():
            s, _, f = tok.partition(":")
            mf[int(s)] = Fraction(f)
        bad = None
        if set(mf) != set(impl["freqs"]):
            bad = "split sets differ"
        else:
            for s, f in mf.items():
                if not close(impl["freqs"][s], float(f), 1e-12):
                    bad = "freq of %d: impl %r model %s" % (s, impl["freqs"][s], f)
        if bad is None and "cons" in impl and len(impl["rootings"]) == 1:
            if impl["cons"] != sec.get("cons"):
                bad = "consensus: impl %s model %s" % (impl["cons"], sec.get("cons"))
            elif impl.get("crooted") is not None and ("1" if impl["crooted"] else "0") != sec.get("crooted"):
                bad = "consensus rooting"
        if bad is None and impl["scores"]:
            for kind, key, arg in (("sum", "sums", "argsum"), ("prod", "prods", "argprod")):
                scores, idx = impl["scores"][kind]
                ms = [Fraction(x) for x in sec.get(key, "").split()]
                if len(ms) != len(scores):
                    bad = "%s: %d scores vs %d" % (key, len(ms), len(scores))
                    break
                vals = [float(x) if kind == "sum" else (math.log(float(x)) if x > 0 else 0.0) for x in ms]
                if any(not close(a, b, 1e-9) for a, b in zip(scores, vals)):
                    bad = "%s scores: impl %s model %s" % (kind, scores, vals)
                    break
                top = sorted(ms, reverse=True)
                unique = len(top) < 2 or (top[0] - top[1]) > Fraction(1, 10 ** 6) * max(1, abs(top[0]))
                if unique and str(idx) != sec.get(arg):
                    bad = "%s maximiser: impl %s model %s" % (kind, idx, sec.get(arg))
                    break
        if bad is None and "lens" in impl:
            ml = {}
            for tok in sec.get("lens", "").split():
                s, _, rest = tok.partition(":")
                ml[int(s)] = rest.split(",")
            if set(ml) != set(impl["lens"]):
                bad = "length tables cover different splits"
            else:
                for s, vals in impl["lens"].items():
                    n, mean, med, lo, hi, var = ml[s]
                    fv = [Fraction(v) for v in vals]
                    if int(n) != len(vals) or not close(float(Fraction(mean)), float(sum(fv, Fraction(0)) / len(fv))) \
                            or Fraction(lo) != min(fv) or Fraction(hi) != max(fv):
                        bad = "length statistics of split %d" % s
                        break
        if bad:
            ctx.disagree("summ", case, bad, o[:300])
    del pending[:]


# ------------------------------------------------------------------ collapse
def op_collapse(ctx, dendropy, pending_c):
    rng = ctx.rng
    tns, trees = gen_sample(dendropy, rng, ctx)
    rootings = {t.is_rooted for t in trees}
    if len(rootings) != 1 or any(tu.leafset_masks(t)[id(t.seed_node)] != tu.leafset_masks(trees[0])[id(trees[0].seed_node)] for t in trees):
        return
    use_w = rng.random() < 0.5
    thr = rng.choice([0.25, 0.5, "GTH", 0.75, 1.0])
    thr_v = thr_value(dendropy, thr)
    fr, _ = oracle_freqs(trees, use_w)
    src = trees[rng.randrange(len(trees))] if rng.random() < 0.7 else c04.perturb(dendropy, rng, trees[0])
    tgt = c04.clone(dendropy, src)
    case = dict(sample_case(tns, trees, use_w, thr, False), op="collapse",
                target={"rooted": c01.ROOT[tgt.is_rooted], "tree": tu.encode_tree(tgt, with_labels=False)[0]})
    if case["basal_bifurcation_survives"] or c04.basal_survives(tgt):
        return
    tgt.encode_bipartitions()      # the call re-encodes first (suppresses unifurcations, collapses an unrooted basal bifurcation)
    before = root_tip(tgt)
    masks = tu.leafset_masks(tgt)
    L = masks[id(tgt.seed_node)]
    low = L & -L
    rooted = bool(tgt.is_rooted)

    def split_of(m):
        return m if rooted else ((L & ~m) if (m & low) else m)
    ta = dendropy.TreeArray(taxon_namespace=tns, use_tree_weights=use_w)
    tl = dendropy.TreeList(taxon_namespace=tns)
    for t in trees:
        c = c04.clone(dendropy, t)
        c.weight = t.weight
        tl.append(c)
    ta.add_trees(tl)
    ctx.case(["collapse", stable_hash(case)], len(trees) >= 2, kind="collapse")
    # expected surviving internal splits: the encoding is taken on the tree after default encoding (unifurcations suppressed)
    enc_t = c04.clone(dendropy, tgt)
    enc_t.encode_bipartitions()
    m2 = tu.leafset_masks(enc_t)
    weak_leaf = any(fr.get(split_of(m2[id(nd)]), Fraction(0)) < Fraction(thr_v) for nd in tu.walk(enc_t.seed_node) if not nd._child_nodes)
    want_internal = sorted(split_of(m2[id(nd)]) for nd in tu.walk(enc_t.seed_node)
                           if nd._child_nodes and nd is not enc_t.seed_node and fr.get(split_of(m2[id(nd)]), Fraction(0)) >= Fraction(thr_v))
    toks, ids = tu.encode_tree(tgt, with_labels=False)
    case["target"]["tree"] = toks
    try:
        ta.collapse_edges_with_less_than_minimum_support(tgt, min_freq=thr_v)
        got = tu.render_tree(tgt, ids)
    except ValueError as e:
        got = "E"
        if not weak_leaf:
            ctx.fail("collapse", "collapse_edges_with_less_than_minimum_support raised ValueError: %s" % str(e)[:100], case)
    if got != "E":
        probs = tu.arborescence_problems(tgt)
        if probs:
            ctx.fail("collapse", "tree malformed after collapsing weak edges: %s" % probs, case)
        after = root_tip(tgt)
        if after != before:
            ctx.fail("collapse", "root-to-tip distances changed by collapsing weak edges: %s -> %s" % (
                {k: str(v) for k, v in before.items()}, {k: str(v) for k, v in after.items()}), case)
        m3 = tu.leafset_masks(tgt)
        got_internal = sorted(split_of(m3[id(nd)]) for nd in tu.walk(tgt.seed_node) if nd._child_nodes and nd is not tgt.seed_node)
        if got_internal != want_internal:
            ctx.fail("collapse", "internal edges left after collapsing below %s: %s, those with frequency >= threshold: %s" % (thr, got_internal, want_internal), case)
    line = "collapse %d %s %d %s %s %s" % (
        use_w, tu.frac(thr_v), len(trees),
        " ".join("%s %s %s" % (r["rooted"], "N" if r["weight"] is None else r["weight"], " ".join(r["tree"])) for r in case["trees"]),
        case["target"]["rooted"], " ".join(toks))
    pending_c.append((line, case, got))


def flush_c(ctx, pending_c):
    outs = ctx.ask([p[0] for p in pending_c])
    for (line, case, got), o in zip(pending_c, outs):
        if o is None:
            continue
        ctx.compared()
        if o.strip() != got.strip():
            ctx.disagree("collapse", case, got[:300], o[:300])
    del pending_c[:]



# ------------------------------------------------------------------ incremental use: caches must never be stale
def op_incremental(ctx, dendropy, pending):
    """trees are counted in batches on ONE TreeArray / SplitDistribution; between batches the summaries are queried in
    varying orders (this populates the frequency and summary caches); every answer must describe all trees counted so far"""
    rng = ctx.rng
    tns, trees = gen_sample(dendropy, rng, ctx)
    rootings = {t.is_rooted for t in trees}
    if len(rootings) != 1 or len(trees) < 2 or any(c04.basal_survives(t) for t in trees):
        return
    use_w = rng.random() < 0.5
    cuts = sorted(rng.sample(range(1, len(trees)), min(len(trees) - 1, rng.randint(1, 2))))
    batches = [trees[a:b] for a, b in zip([0] + cuts, cuts + [len(trees)])]
    script = [[rng.choice(["consensus", "summarize", "summarize", "freq", "scores", "mcc"]) for _ in range(rng.randint(0, 3))]
              for _ in batches]
    script[-1] = script[-1] + ["summarize"] if rng.random() < 0.7 else script[-1]
    case = dict(sample_case(tns, trees, use_w, None, False), op="incremental", cuts=cuts, script=script)
    run_incremental(ctx, dendropy, tns, trees, use_w, cuts, script, case)


def run_incremental(ctx, dendropy, tns, trees, use_w, cuts, script, case):
    batches = [trees[a:b] for a, b in zip([0] + cuts, cuts + [len(trees)])]
    ta = dendropy.TreeArray(taxon_namespace=tns, use_tree_weights=use_w)
    ctx.case(["incremental", stable_hash(case)], True, kind="incremental")
    seen = []
    for batch, queries in zip(batches, script):
        for t in batch:
            c = c04.clone(dendropy, t)
            c.weight = t.weight
            ta.add_tree(c)
            seen.append(t)
        fr, _ = oracle_freqs(seen, use_w)
        per_split = {}
        for t in seen:
            for s, l in c04.split_lengths(t).items():
                per_split.setdefault(s, []).append(l)
        for q in queries:
            if q == "consensus":
                ta.consensus_tree(min_freq=0.5)
            elif q == "freq":
                d = ta.split_distribution
                for s, f in fr.items():
                    if not close(d[s], float(f), 1e-12):
                        ctx.fail("stale", "after %d trees split %d has frequency %r, expected %s" % (len(seen), s, d[s], f), case)
                        return
            elif q == "scores":
                ta.calculate_sum_of_split_supports()
            elif q == "mcc":
                ta.maximum_product_of_split_support_tree()
            else:
                tgt = c04.clone(dendropy, seen[ctx.rng.randrange(len(seen))])
                ta.summarize_splits_on_tree(tgt)
                masks = tu.leafset_masks(tgt)
                L = masks[id(tgt.seed_node)]
                low = L & -L
                rooted = bool(tgt.is_rooted)
                for nd in tu.walk(tgt.seed_node):
                    m = masks[id(nd)]
                    s = m if rooted else ((L & ~m) if (m & low) else m)
                    vals = per_split.get(s, [])
                    if not vals:
                        continue
                    if not close(getattr(nd, "support", -1), float(fr.get(s, 0)), 1e-12):
                        ctx.fail("stale", "after %d trees, summarize_splits_on_tree gives support %r for split %d, frequency over all counted trees is %s" % (
                            len(seen), getattr(nd, "support", None), s, fr.get(s)), case)
                        return
                    mean = sum(vals, Fraction(0)) / len(vals)
                    sv = sorted(vals)
                    e = nd.edge
                    if not (close(e.length_mean, float(mean)) and close(e.length_range[0], float(sv[0])) and close(e.length_range[1], float(sv[-1]))):
                        ctx.fail("stale", "after %d trees, edge of split %d is summarised as mean %r range %r; the %d values counted so far are %s" % (
                            len(seen), s, e.length_mean, e.length_range, len(vals), [str(v) for v in vals]), case)
                        return



# ------------------------------------------------------------------ further entry points (oracle only)
def ultrametric_on(dendropy, rng, tns, taxa, shape=None):
    """rooted ultrametric tree with dyadic node heights (all tips at height 0)"""
    taxa = list(taxa)
    rng.shuffle(taxa)
    shape = shape or tu.rand_shape(rng, len(taxa), p_poly=rng.choice([0.0, 0.25]), p_unary=0.0)
    it = iter(taxa)

    def go(sh):
        nd = dendropy.Node()
        if not sh:
            nd.taxon = next(it)
            return nd, Fraction(0)
        kids = [go(c) for c in sh]
        h = max(k[1] for k in kids) + Fraction(rng.randint(1, 8), 4)
        for c, hc in kids:
            c.edge.length = float(h - hc)
            nd.add_child(c)
        return nd, h
    seed, _h = go(shape)
    t = dendropy.Tree(taxon_namespace=tns, seed_node=seed)
    t.is_rooted = True
    return t


def tip_age(nd):
    d = Fraction(0)
    while nd._child_nodes:
        nd = nd._child_nodes[0]
        d += tu.F(nd.edge.length)
    return d


def op_more(ctx, dendropy, pending):
    rng = ctx.rng
    n = rng.randint(3, 7)
    tns = tu.make_namespace(dendropy, n)
    taxa = list(tns)
    k = rng.randint(1, 8)
    base_shape = tu.rand_shape(rng, n, p_poly=0.0, p_unary=0.0)
    trees = [ultrametric_on(dendropy, rng, tns, taxa, base_shape if rng.random() < 0.6 else None) for _ in range(k)]
    use_w = rng.random() < 0.5
    if use_w:
        for t in trees:
            t.weight = rng.choice([0.5, 1.0, 2.0])
    case = dict(sample_case(tns, trees, use_w, None, False), op="more")
    ctx.case(["more", stable_hash(case)], len({c01.canon_rooted(t) for t in trees}) >= 2, kind="more")
    fr, _ = oracle_freqs(trees, use_w)

    def fresh():
        tl = dendropy.TreeList(taxon_namespace=tns)
        for t in trees:
            c = c04.clone(dendropy, t)
            c.weight = t.weight
            tl.append(c)
        return tl
    ta = dendropy.TreeArray(taxon_namespace=tns, use_tree_weights=use_w, ignore_node_ages=False)
    ta.add_trees(fresh())
    sd = ta.split_distribution
    # per-split ages and lengths over the input trees
    ages, lens = {}, {}
    for t in trees:
        masks = tu.leafset_masks(t)
        for nd in tu.walk(t.seed_node):
            ages.setdefault(masks[id(nd)], []).append(tip_age(nd))
            lens.setdefault(masks[id(nd)], []).append(tu.F(nd.edge.length))
    tgt = c04.clone(dendropy, trees[rng.randrange(k)])
    mode = rng.choice([None, "mean-length", "median-length", "support", "mean-age"])
    try:
        ta.summarize_splits_on_tree(tgt, set_edge_lengths=mode)
    except Exception as e:
        ctx.fail("summary", "summarize_splits_on_tree(set_edge_lengths=%r) raised %s: %s" % (mode, type(e).__name__, str(e)[:100]), case)
        return
    masks = tu.leafset_masks(tgt)
    for nd in tu.walk(tgt.seed_node):
        s = masks[id(nd)]
        av = sorted(ages[s])
        mean = sum(av, Fraction(0)) / len(av)
        med = av[len(av) // 2] if len(av) % 2 else (av[len(av) // 2 - 1] + av[len(av) // 2]) / 2
        ok = close(nd.age_mean, float(mean)) and close(nd.age_median, float(med)) and \
            close(nd.age_range[0], float(av[0])) and close(nd.age_range[1], float(av[-1]))
        if ok and len(av) >= 2:
            var = sum(((v - mean) ** 2 for v in av), Fraction(0)) / (len(av) - 1)
            ok = close(nd.age_sd ** 2, float(var), 1e-6)
        if not ok:
            ctx.fail("summary", "node of split %d: age mean/median/range/sd = %r/%r/%r/%r, ages of that split over the input trees are %s" % (
                s, nd.age_mean, nd.age_median, nd.age_range, nd.age_sd, [str(v) for v in av]), case)
            return
        lv = sorted(lens[s])
        lmean = sum(lv, Fraction(0)) / len(lv)
        lmed = lv[len(lv) // 2] if len(lv) % 2 else (lv[len(lv) // 2 - 1] + lv[len(lv) // 2]) / 2
        if mode == "mean-length" and not close(nd.edge.length, float(lmean)):
            ctx.fail("summary", "set_edge_lengths='mean-length': edge of split %d has length %r, mean of its lengths is %s" % (s, nd.edge.length, lmean), case)
            return
        if mode == "median-length" and not close(nd.edge.length, float(lmed)):
            ctx.fail("summary", "set_edge_lengths='median-length': edge of split %d has length %r, median of its lengths is %s" % (s, nd.edge.length, lmed), case)
            return
        if mode == "support" and not close(nd.edge.length, float(fr[s])):
            ctx.fail("summary", "set_edge_lengths='support': edge of split %d has length %r, frequency %s" % (s, nd.edge.length, fr[s]), case)
            return
    if mode == "mean-age":
        # lengths were set from mean ages: every node must now sit at its mean age above its descendant tips
        for nd in tu.walk(tgt.seed_node):
            if nd._parent_node is None:
                continue
            s, ps = masks[id(nd)], masks[id(nd._parent_node)]
            want = sum(ages[ps], Fraction(0)) / len(ages[ps]) - sum(ages[s], Fraction(0)) / len(ages[s])
            if want >= 0 and not close(nd.edge.length, float(want)):
                ctx.fail("summary", "set_edge_lengths='mean-age': edge of split %d has length %r, difference of mean ages is %s" % (s, nd.edge.length, want), case)
                return
    # scores of one tree against the distribution, through SplitDistribution
    probe = c04.clone(dendropy, trees[rng.randrange(k)])
    incl = rng.random() < 0.5
    pm = tu.leafset_masks(probe)
    want_sum = sum((fr.get(pm[id(nd)], Fraction(0)) for nd in tu.walk(probe.seed_node) if incl or nd._child_nodes), Fraction(0))
    got_sum = sd.sum_of_split_support_on_tree(c04.clone(dendropy, probe), include_external_splits=incl)
    if not close(got_sum, float(want_sum)):
        ctx.fail("support", "SplitDistribution.sum_of_split_support_on_tree(include_external_splits=%s) = %r, sum of the node frequencies is %s" % (incl, got_sum, want_sum), case)
    want_log = sum(math.log(float(fr[pm[id(nd)]])) for nd in tu.walk(probe.seed_node) if (incl or nd._child_nodes) and fr.get(pm[id(nd)], 0))
    got_log = sd.log_product_of_split_support_on_tree(c04.clone(dendropy, probe), include_external_splits=incl)
    if not close(got_log, want_log):
        ctx.fail("support", "log_product_of_split_support_on_tree = %r, from the frequencies %r" % (got_log, want_log), case)
    # TreeList route to the maximum-credibility tree returns the input tree object attaining the maximum
    tl = fresh()
    best = tl.maximum_product_of_split_support_tree()
    scores, idx = ta.calculate_log_product_of_split_supports()
    if best is not tl[idx] and not any(best is t for t in tl):
        ctx.fail("mcc", "TreeList.maximum_product_of_split_support_tree returned a tree that is not a member of the list", case)
    elif c01.canon_rooted(best) != c01.canon_rooted(trees[idx]):
        ctx.fail("mcc", "TreeList.maximum_product_of_split_support_tree has topology %s, the tree attaining the maximum score is %s" % (
            c01.canon_rooted(best), c01.canon_rooted(trees[idx])), case)


def run_op(ctx, dendropy, op, pending, pending_c):
    rng = ctx.rng
    if op == "summ":
        tns, trees = gen_sample(dendropy, rng, ctx)
        check_sample(ctx, dendropy, tns, trees, rng.random() < 0.6, rng.choice(THRESHOLDS), rng.random() < 0.3, pending)
    elif op == "incremental":
        op_incremental(ctx, dendropy, pending)
    elif op == "more":
        op_more(ctx, dendropy, pending)
    else:
        op_collapse(ctx, dendropy, pending_c)


def run(ctx):
    dendropy = __import__("dendropy")
    rng = ctx.rng
    ctx.set_budget(45, 600)
    pending, pending_c = [], []
    for _ in range(ctx.pick(1500, 30000)):
        if ctx.out_of_time():
            break
        op = rng.choices(["summ", "collapse", "incremental", "more"], [0.5, 0.17, 0.17, 0.16])[0]
        state = rng.getstate()
        try:
            run_op(ctx, dendropy, op, pending, pending_c)
        except Exception as e:
            ctx.fail("exception", "%s raised %s: %s" % (op, type(e).__name__, str(e)[:200]),
                     {"op": op, "rng_state": [state[0], list(state[1]), state[2]], "tier": ctx.tier})
        if len(pending) >= 150:
            flush(ctx, pending)
        if len(pending_c) >= 150:
            flush_c(ctx, pending_c)
    flush(ctx, pending)
    flush_c(ctx, pending_c)
    if ctx.tier == "thorough":
        exhaustive(ctx, dendropy, pending)


def exhaustive(ctx, dendropy, pending):
    """all multisets of <= 3 binary rooted/unrooted shapes over 4 taxa with every labelling rotation, all thresholds"""
    import itertools
    n = 4
    tns = tu.make_namespace(dendropy, n)
    members = list(tns)
    shapes = [s for s in tu.all_shapes(n)]
    trees_all = []
    for s in shapes:
        for rot in range(n):
            trees_all.append((s, rot))
    count = 0
    for rooted in (True, False):
        for k in (1, 2, 3):
            for combo in itertools.combinations_with_replacement(range(0, len(trees_all), 3), k):
                trees = [tu.build_tree(dendropy, trees_all[i][0], tns, members[trees_all[i][1]:] + members[:trees_all[i][1]],
                                       lambda: 1.0, rooted) for i in combo]
                thr = THRESHOLDS[count % len(THRESHOLDS)]
                check_sample(ctx, dendropy, tns, trees, True, thr, False, pending)
                count += 1
                if len(pending) >= 300:
                    flush(ctx, pending)
    flush(ctx, pending)
    ctx.extra["exhaustive_small_scope"] = "%d multisets of <= 3 trees over 4 taxa (every third (shape, rotation)), both rootings, thresholds cycled" % count


def replay(ctx, rec):
    dendropy = __import__("dendropy")
    c = rec["replay"]
    pending, pending_c = [], []
    if "rng_state" in c:
        st = c["rng_state"]
        ctx.rng.setstate((st[0], tuple(st[1]), st[2]))
        ctx.tier = c.get("tier", ctx.tier)
        try:
            run_op(ctx, dendropy, c["op"], pending, pending_c)
        except Exception as e:
            ctx.fail("exception", "%s raised %s: %s" % (c["op"], type(e).__name__, str(e)[:200]), c)
    elif c.get("op") == "summ":
        tns, trees = trees_of_case(dendropy, c)
        check_sample(ctx, dendropy, tns, trees, c["use_weights"], c["threshold"], c["incl_external"], pending)
    elif c.get("op") == "incremental":
        tns, trees = trees_of_case(dendropy, c)
        run_incremental(ctx, dendropy, tns, trees, c["use_weights"], c["cuts"], c["script"], c)
    flush(ctx, pending)
    flush_c(ctx, pending_c)
