"""C10 - taxon namespaces keep a stable one-to-one taxon/bit map and exact label lookups."""
import copy as _copy
import itertools
import pickle
import re
import warnings

from common import time_limit, hex6, is_library_exception

ID = "C10"
GEN_DEPENDS = ["Tables", "C10Kernels", "C10Lower"]
RULE = ("operation histories (<= 30 ops quick, <= 45 thorough, plus an observation burst) over the whole public alphabet of "
        "TaxonNamespace: constructor from labels/Taxon objects (also with is_mutable=False), add/append/add_taxa/new/new_taxa/require/"
        "remove_taxon/remove/del/remove_label/discard_label/sort (default key and six custom keys)/reverse/clear/relabel/copy constructor "
        "(also with keywords)/copy.copy/deepcopy/pickle/taxon_namespace_scoped_copy/is_mutable/is_case_sensitive and every lookup "
        "(label_taxon_map included), bit and rendering observer with their keyword forms (taxa_bitmask(taxa=, labels=, first_match_only=), "
        "bitmask_taxa_list(index=), legacy aliases); label pools with duplicates, case variants, characters that need quoting, labels beyond "
        "Latin-1 (final sigma, dotted I, digraphs, Cyrillic, CJK: kind `wide`) and taxa without a label (kind `unlabelled`, oracle only); "
        "the regenerated kernels against the implementation on namespaces of 0..90 taxa; "
        "thorough adds every sequence of <= 3 symbolic mutators from two base namespaces; "
        "non-trivial = the history removes, re-adds, reorders or copies (bits differ from list positions or live in two namespaces)")
MODELLED_NOT_VERIFIED = [
    "C10: taxa WITHOUT a label are inside the model since wave 2: in its label store the empty string stands for `no label` (None) - "
    "theorem unlabelled_member_spec: no non-empty query matches it, it is rendered as the empty token; labels that ARE the empty string "
    "and None as a QUERY label stay outside (the latter only at kernel level: unlabelled_spec + differential op matcho).  A sort that "
    "list.sort refuses (TypeError ordering None) is modelled as a refusal plus the member order CPython left behind, which the harness "
    "reports to the model (op sortx; sort_refused_spec: any rearrangement accepted, bits untouched) - the order itself is not predicted",
    "C10: Taxon objects are opaque ids with a string label.  Labels are non-empty strings over all of Unicode; the case folding is "
    "str.lower as tables regenerated from the running interpreter (Gen/C10Lower.lean: offset ranges, the one two-character result, the "
    "Final_Sigma context rule) - equality with CPython is differential-tested on every generated label, proved only in the form "
    "case_folding_latin1 (closed form on ASCII/Latin-1) and case_folding_wide (the sigma rule as stated).  For unlabelled taxa the oracle does not judge "
    "renderings (an unlabelled taxon has no name).  None as a QUERY label, the empty label, lone surrogates, negative bitmasks, "
    "annotations and TaxonNamespacePartition/Mapping are outside model and check",
    "C10: custom sort keys: the six key functions of SORT_KEYS are modelled (label, lower-cased label, length, accession index, "
    "(length, label) tuple, constant); sort_key_perm/sorted/stable hold for ANY key function with totally pre-ordered values, but a "
    "key the harness does not pass (or one whose comparison raises) is not compared with the implementation",
    "C10: remove_taxon_label/discard_taxon_label with first_match_only=True (ops rmlf/dlf): the current code raises TypeError "
    "before touching the namespace once a label matches, which no clause of the statement speaks about; the model has both this "
    "refusal and the documented behaviour (first match leaves; theorem remove_first_spec) and is told which one was observed",
    "C10: the comparison with the model distinguishes only ImmutableTaxonNamespaceError from other documented refusals "
    "(KeyError/IndexError/LookupError/ValueError are one class) and does not look at all_taxa_bitmask except where it is asked for",
    "C10: nexusprocessing.bitmask_as_newick_string is modelled in its repaired form (members placed by their own bit); "
    "escape_nexus_token's character class comes from the generated table Tables.protectDefault; pickling is modelled as deepcopy "
    "(fresh Taxon objects, same bits), label_taxon_map through a lookup of one key (last member per folded label wins)",
]
EXPLANATION = ("Theorems about the state machine the driver runs, for arbitrary operation lists: the invariant (member list "
               "duplicate-free, members = keys of the index map, index < counter, the two index maps inverse of each other, memo "
               "coherent, members are existing Taxon objects) holds in every reachable world (inv_init, inv_step, inv_reachable, "
               "index_maps_coherent_reachable, memo_coherent_reachable); bits_distinct, masks_distinct, taxon_bitmask_spec, "
               "bm_acc_agree, bit_stable(+_history), mask_stable_history, counter_monotone(+_history), no_reuse, "
               "index_never_rebound (also across clear), other_namespaces_untouched; a _spec theorem for every op of the alphabet: "
               "mk, ctor_labels/ctor_mixed/ctor_immutable, add, add_taxa, new, new_taxa, require, rm, del, remove_label, sort_perm/sorted/"
               "stable/ops, clear, relabel, flags, copy_bits, copy_kw, deepcopy_bits, scoped_copy, lookup(+ops), label_map, get_taxa(+ops), "
               "labels_mask, tbm_kw, tbm_btl_ops, tbm_btl_ops_exact, btl_index (index=k reads the mask shifted by k), observers, in_op, "
               "refusals, require_idempotent; custom sort keys: sort_key_perm / sort_key_sorted / sort_key_stable for ANY key function "
               "whose values are totally pre-ordered, sort_key_kinds (the six keys of the driver are such), sort_key_ops_spec, "
               "sort_default_key (key=None is key=label), sort_const_identity, sort_acc_bit_order; renderings: mask_roundtrip(+_exact: "
               "duplicate-free, ascending by bit), newick_spec, newick_any_mask, nwk_op_text, bitstring_spec, "
               "token_equivalence / token_injective / token_injective_no_blank (which labels can share a NEXUS token) and "
               "newick_names_exactly; text level: text_determines_tokens(+_flat) (a local tokenizer reads back the printed tokens), "
               "token_wellformed, nwk_text_names_exactly (the printed string names exactly the taxa, for non-empty labels and "
               "preserve_spaces or quote_underscores); remove_first_spec (first_match_only=True: the TypeError refusal of the "
               "code as it is, and the documented first-match removal); case folding: labelMatches_iff, case_folding_latin1 (closed "
               "form, idempotent on ASCII/Latin-1), case_folding_wide (Final_Sigma rule), in_scope_match; immutable_spec(+_history); "
               "wave 2: add_taxa_repeats_spec (an iterable mentioning taxa more than once: every newcomer listed once, one bit each, in order of "
               "first mention, counter grows by the number of newcomers), add_taxa_mention_twice, unlabelled_member_spec (a member without "
               "a label - the empty label of the store - matches no non-empty query under either case setting, in every lookup op; empty "
               "token), sort_refused_spec (list.sort's TypeError with an unlabelled member: when, and that only the order may change); "
               "tie A bridges: kernel_taxon_bitmask, kernel_all_taxa_bitmask, kernel_bitstring, kernel_btl, kernel_btl_loop, "
               "kernel_newick (the kernels regenerated from taxonmodel.py / bitprocessing.py / nexusprocessing.py equal the model's). "
               "None is _partial.")

SORT_KEYS = {
    "label": lambda ns: (lambda x: x.label),
    "lower": lambda ns: (lambda x: x.label.lower()),
    "len": lambda ns: (lambda x: len(x.label)),
    "acc": lambda ns: ns.accession_index,
    "lenlabel": lambda ns: (lambda x: (len(x.label), x.label)),
    "const": lambda ns: (lambda x: 0),
}

MUTATORS = {"sortk", "mknsimm", "copykw", "append", "remove", "pickle", "rmlf", "dlf", "mkns", "add", "addtaxa", "new", "newtaxa", "req", "rm", "del", "rml", "dl", "sort", "rev", "clear", "relabel",
            "copy", "shallow", "deep", "setmut", "setcs", "mk"}

BASE_LABELS = ["a", "A", "b", "B", "ab", "Ab", "aB", "AB", "c d", "c_d", "x'y", "e(f", "g,h", "É", "é", "Z", "z", "z1",
               "Q q", "r_s t", "T:1", "u-v", "w[1]", "ño", "ÑO", "ß", "k;", "=m", "n\tn", "1", "10"]
ALPHA = "abAB cd_'(),:;[]{}-=*/\\\"+<>ÉéÑñß×" + "xyzXYZ019"


# ---------------------------------------------------------------- reading library state without trusting it
def safe_index(ns, t):
    """the accession index the library reports for t, or None when it reports none / raises / answers something that is no index.
    Generators and the oracle read the namespace through these helpers only: an incoherent namespace must end as an oracle
    failure of the one-to-one clause, never as a harness exception."""
    try:
        i = ns.accession_index(t)
    except Exception:  # noqa
        return None
    return i if (isinstance(i, int) and not isinstance(i, bool) and i >= 0) else None


def safe_bit(ns, t):
    i = safe_index(ns, t)
    return 0 if i is None else 1 << i


def safe_all(ns):
    try:
        m = ns.all_taxa_bitmask()
    except Exception:  # noqa
        return 0
    return m if (isinstance(m, int) and not isinstance(m, bool) and m >= 0) else 0


def shaped(form, items, nss=None, want_ids=None, tid=None):
    """the iterable handed to a bulk operation: list / tuple / one-shot iterator / another namespace object itself"""
    if form == "iter":
        return iter(list(items))
    if form == "gen":
        return (x for x in list(items))
    if form == "tuple":
        return tuple(items)
    if isinstance(form, str) and form.startswith("ns:") and nss is not None:
        m = int(form[3:])
        if 0 <= m < len(nss) and [tid.get(id(t)) for t in nss[m]] == list(want_ids):
            return nss[m]
    return list(items)


# ---------------------------------------------------------------- op encoding (line protocol)
def cflag(c):
    return "N" if c is None else ("T" if c else "F")


def b01(b):
    return "1" if b else "0"


def lab6(l):
    """a label a Taxon is created or relabelled with: in the model's label store the empty string stands for "no label" (None)"""
    return hex6("" if l is None else l)


def enc_op(op):
    k = op[0]
    if k == "mk":
        return ["mk", lab6(op[1])]
    if k == "mkns":
        return ["mkns", b01(op[1])] + [("T%d" % x) if isinstance(x, int) else ("L" + lab6(x)) for x in op[2]]
    if k in ("append", "remove", "sbits"):       # legacy / deprecated aliases: the same model op
        return [{"append": "add", "remove": "rm", "sbits": "bits"}[k], str(op[1]), str(op[2])]
    if k == "gtbm":
        return ["tbm", str(op[1])] + [str(t) for t in op[2]]
    if k == "pickle":
        return ["deep", str(op[1])]
    if k == "sortk":
        return ["sortk", str(op[1]), op[2], b01(op[3])]
    if k == "btli":
        return ["btli", str(op[1]), str(op[2]), str(op[3])]
    if k == "tbmkw":
        return ["tbmkw", str(op[1]), cflag(op[2]), b01(op[3]),
                "-" if op[4] is None else "T" + ",".join(str(t) for t in op[4]),
                "-" if op[5] is None else "L" + ",".join(hex6(l) for l in op[5])]
    if k == "mknsimm":
        return ["mknsimm", b01(op[1])] + [("T%d" % x) if isinstance(x, int) else ("L" + lab6(x)) for x in op[2]]
    if k == "copykw":
        return ["copykw", str(op[1]), cflag(op[2]), cflag(op[3])]
    if k == "scoped":
        return ["scoped", str(op[1])]
    if k == "sortx":
        return ["sortx", str(op[1])] + [str(t) for t in op[2]]
    if k == "ltm":
        return ["ltm", str(op[1]), cflag(op[2]), hex6(op[3])]
    if k in ("add", "rm", "del", "bm", "acc", "in", "btl", "bits"):
        return [k, str(op[1]), str(op[2])]
    if k in ("addtaxa", "tbm"):
        return [k, str(op[1])] + [str(t) for t in op[2]]
    if k == "new":
        return ["new", str(op[1]), lab6(op[2])]
    if k == "newtaxa":
        return ["newtaxa", str(op[1])] + [lab6(l) for l in op[2]]
    if k in ("rmlf", "dlf"):       # the 5th field (which behaviour was observed) is added by run_history
        return [k, str(op[1]), cflag(op[2]), hex6(op[3])] + ([b01(op[4])] if len(op) > 4 else [])
    if k in ("req", "rml", "dl", "get", "find", "has"):
        return [k, str(op[1]), cflag(op[2]), hex6(op[3])]
    if k in ("sort", "setmut", "setcs"):
        return [k, str(op[1]), b01(op[2])]
    if k in ("rev", "clear", "deep", "all"):
        return [k, str(op[1])]
    if k in ("copy", "shallow"):
        return ["copy", str(op[1])]
    if k == "relabel":
        return ["relabel", str(op[1]), lab6(op[2])]
    if k == "gets":
        return ["gets", str(op[1]), cflag(op[2]), b01(op[3])] + [hex6(l) for l in op[4]]
    if k in ("hasall", "lbm"):
        return [k, str(op[1]), cflag(op[2])] + [hex6(l) for l in op[3]]
    if k == "nwk" or k == "snwk":
        return ["nwk", str(op[1]), str(op[2]), b01(op[3]), b01(op[4])]
    raise ValueError("unknown op %r" % (op,))


def hist_line(ops):
    return "hist " + " ; ".join(" ".join(enc_op(op)) for op in ops)


# ---------------------------------------------------------------- implementation runner
class BadRef(Exception):
    """an op names a namespace or Taxon that does not exist (only candidates of the shrinker can)"""


class World(object):
    """real DendroPy objects behind the ids of the protocol"""

    def __init__(self, dendropy):
        self.d = dendropy
        self.err = dendropy.utility.error
        self.taxa = []
        self.tid = {}
        self.nss = []

    def reg(self, t):
        if id(t) not in self.tid:
            self.tid[id(t)] = len(self.taxa)
            self.taxa.append(t)
        return self.tid[id(t)]

    def name(self, t):
        return "t%d" % self.tid[id(t)] if id(t) in self.tid else "t?"

    def ids(self, l):
        return "ids:" + ",".join(str(self.tid.get(id(t), "?")) for t in l)

    def exc(self, e):
        if isinstance(e, self.err.ImmutableTaxonNamespaceError):
            return "Immutable"
        # the statement only speaks about immutability; any other refusal the library documents is one class
        for cls in (KeyError, IndexError, LookupError, ValueError):
            if isinstance(e, cls):
                return "Error"
        return "Internal(%s)" % type(e).__name__

    def kw(self, c):
        return {} if c is None else {"is_case_sensitive": c}

    def check_refs(self, op):
        k = op[0]
        ts = []
        if k in ("mkns", "mknsimm"):
            ts = [x for x in op[2] if isinstance(x, int)]
        elif k == "relabel":
            ts = [op[1]]
        elif k != "mk":
            if not (0 <= op[1] < len(self.nss)):
                raise BadRef()
            if k in ("add", "rm", "bm", "acc", "in", "append", "remove"):
                ts = [op[2]]
            elif k in ("addtaxa", "tbm", "gtbm"):
                ts = op[2]
            elif k == "tbmkw":
                ts = op[4] or []
        if any(not (0 <= t < len(self.taxa)) for t in ts):
            raise BadRef()

    def call(self, op):
        """execute one op; returns (canonical return string, raw return value)"""
        d, k = self.d, op[0]
        self.check_refs(op)
        try:
            if k == "mk":
                t = d.Taxon(label=op[1])
                return "t%d" % self.reg(t), t
            if k == "mkns":
                ns = d.TaxonNamespace(shaped(op[3] if len(op) > 3 else "list", [self.taxa[x] if isinstance(x, int) else x for x in op[2]]),
                                      is_case_sensitive=op[1])
                for t in ns:
                    self.reg(t)
                self.nss.append(ns)
                return "n%d" % (len(self.nss) - 1), ns
            if k == "mknsimm":
                ns = d.TaxonNamespace([self.taxa[x] if isinstance(x, int) else x for x in op[2]], is_case_sensitive=op[1], is_mutable=False)
                for t in ns:
                    self.reg(t)
                self.nss.append(ns)
                return "n%d" % (len(self.nss) - 1), ns
            if k == "relabel":
                self.taxa[op[1]].label = op[2]
                return "ok", None
            ns = self.nss[op[1]]
            if k == "append":
                ns.append(self.taxa[op[2]])
                return "ok", None
            if k == "remove":
                with warnings.catch_warnings():
                    warnings.simplefilter("ignore")
                    ns.remove(self.taxa[op[2]])
                return "ok", None
            if k == "sortk":
                ns.sort(key=SORT_KEYS[op[2]](ns), reverse=op[3])
                return "ok", None
            if k == "btli":
                r = ns.bitmask_taxa_list(op[2], index=op[3])
                return self.ids(r), r
            if k == "tbmkw":
                kw = dict(self.kw(op[2]))
                if op[3]:
                    kw["first_match_only"] = True
                if op[4] is not None:
                    kw["taxa"] = [self.taxa[t] for t in op[4]]
                if op[5] is not None:
                    kw["labels"] = list(op[5])
                r = ns.taxa_bitmask(**kw)
                return "n%d" % r, r
            if k == "gtbm":
                r = ns.get_taxa_bitmask(taxa=[self.taxa[t] for t in op[2]])
                return "n%d" % r, r
            if k == "sbits":
                with warnings.catch_warnings():
                    warnings.simplefilter("ignore")
                    r = ns.split_as_string(op[2])
                return "s" + hex6(r), r
            if k == "copykw":
                kw = {}
                if op[2] is not None:
                    kw["is_case_sensitive"] = op[2]
                if op[3] is not None:
                    kw["is_mutable"] = op[3]
                new = d.TaxonNamespace(ns, **kw)
                for t in new:
                    self.reg(t)
                self.nss.append(new)
                return "n%d" % (len(self.nss) - 1), new
            if k == "pickle":
                new = pickle.loads(pickle.dumps(ns))
                for t in new:
                    self.reg(t)
                self.nss.append(new)
                return "n%d" % (len(self.nss) - 1), new
            if k == "scoped":
                memo = {}
                r = ns.taxon_namespace_scoped_copy(memo)
                who = [j for j, x in enumerate(self.nss) if x is r]
                return ("n%d" % who[0]) if who else "n?", (r, memo)
            if k == "ltm":
                m = ns.label_taxon_map(**self.kw(op[2]))
                try:
                    t = m[op[3]]
                except KeyError:
                    t = None
                return ("None" if t is None else self.name(t)), t
            if k == "add":
                ns.add_taxon(self.taxa[op[2]])
                return "ok", None
            if k == "addtaxa":
                ns.add_taxa(shaped(op[3] if len(op) > 3 else "list", [self.taxa[t] for t in op[2]], self.nss, op[2], self.tid))
                return "ok", None
            if k == "new":
                t = ns.new_taxon(op[2])
                return "t%d" % self.reg(t), t
            if k == "newtaxa":
                try:
                    r = ns.new_taxa(shaped(op[3] if len(op) > 3 else "list", op[2]))
                finally:
                    for t in ns:
                        self.reg(t)
                return self.ids(r), r
            if k == "req":
                t = ns.require_taxon(op[3], **self.kw(op[2]))
                return "t%d" % self.reg(t), t
            if k == "rm":
                ns.remove_taxon(self.taxa[op[2]])
                return "ok", None
            if k == "del":
                del ns[op[2]]
                return "ok", None
            if k == "rml":
                ns.remove_taxon_label(op[3], **self.kw(op[2]))
                return "ok", None
            if k == "dl":
                ns.discard_taxon_label(op[3], **self.kw(op[2]))
                return "ok", None
            if k == "rmlf":
                ns.remove_taxon_label(op[3], first_match_only=True, **self.kw(op[2]))
                return "ok", None
            if k == "dlf":
                ns.discard_taxon_label(op[3], first_match_only=True, **self.kw(op[2]))
                return "ok", None
            if k == "sort":
                ns.sort(reverse=op[2])
                return "ok", None
            if k == "rev":
                ns.reverse()
                return "ok", None
            if k == "clear":
                ns.clear()
                return "ok", None
            if k in ("copy", "shallow", "deep"):
                new = d.TaxonNamespace(ns) if k == "copy" else (_copy.copy(ns) if k == "shallow" else _copy.deepcopy(ns))
                for t in new:
                    self.reg(t)
                self.nss.append(new)
                return "n%d" % (len(self.nss) - 1), new
            if k == "setmut":
                ns.is_mutable = op[2]
                return "ok", None
            if k == "setcs":
                ns.is_case_sensitive = op[2]
                return "ok", None
            if k == "get":
                t = ns.get_taxon(op[3], **self.kw(op[2]))
                return ("None" if t is None else self.name(t)), t
            if k == "find":
                r = ns.findall(op[3], **self.kw(op[2]))
                return self.ids(r), r
            if k == "gets":
                r = ns.get_taxa(op[4], first_match_only=op[3], **self.kw(op[2]))
                return self.ids(r), r
            if k == "has":
                r = ns.has_taxon_label(op[3], **self.kw(op[2]))
                return str(bool(r)), r
            if k == "hasall":
                r = ns.has_taxa_labels(op[3], **self.kw(op[2]))
                return str(bool(r)), r
            if k == "bm":
                r = ns.taxon_bitmask(self.taxa[op[2]])
                return "n%d" % r, r
            if k == "acc":
                r = ns.accession_index(self.taxa[op[2]])
                return "n%d" % r, r
            if k == "tbm":
                r = ns.taxa_bitmask(taxa=[self.taxa[t] for t in op[2]])
                return "n%d" % r, r
            if k == "lbm":
                r = ns.taxa_bitmask(labels=op[3], **self.kw(op[2]))
                return "n%d" % r, r
            if k == "all":
                r = ns.all_taxa_bitmask()
                return "n%d" % r, r
            if k == "btl":
                r = ns.bitmask_taxa_list(op[2])
                return self.ids(r), r
            if k == "nwk":
                r = ns.bitmask_as_newick_string(op[2], preserve_spaces=op[3], quote_underscores=op[4])
                return "s" + hex6(r), r
            if k == "snwk":
                r = ns.split_as_newick_string(op[2], preserve_spaces=op[3], quote_underscores=op[4])
                return "s" + hex6(r), r
            if k == "bits":
                r = ns.bitmask_as_bitstring(op[2])
                return "s" + hex6(r), r
            if k == "in":
                r = self.taxa[op[2]] in ns
                return str(bool(r)), r
        except Exception as e:  # noqa: mapped to the protocol's error enum
            return self.exc(e), e
        raise ValueError("unknown op %r" % (op,))

    def dump(self):
        out = []
        for ns in self.nss:
            ms = []
            for t in ns:
                i = safe_index(ns, t)
                i = "?" if i is None else str(i)
                ms.append("%s.%s.%s" % (self.tid.get(id(t), "?"), i, lab6(t.label)))
            out.append("m%sc%s:%s" % (b01(ns.is_mutable), b01(ns.is_case_sensitive), ",".join(ms)))
        return "/".join(out)


# ---------------------------------------------------------------- independent oracle
def parse_newick_groups(s):
    """('flat', [labels]) / ('sides', [left], [right]) / None; own tokenizer: quotes with '' doubling, bare words"""
    i, n = 0, len(s)
    stack, top = [], None
    pending = None      # label being collected in the current group, None if none since the last comma
    while i < n:
        c = s[i]
        if c == "(":
            stack.append([])
            pending = None
            i += 1
        elif c == ")":
            if not stack:
                return None
            grp = stack.pop()
            if pending is not None:
                grp.append(pending)
            pending = None
            if stack:
                stack[-1].append(grp)
            else:
                top = grp
            i += 1
            # a closed group is itself the pending element of its parent: skip the comma logic
            pending = None
        elif c == ",":
            if pending is not None:
                stack[-1].append(pending)
            pending = None
            i += 1
        elif c == ";":
            i += 1
        elif c in " \t\n":
            i += 1
        elif c == "'":
            j, buf = i + 1, []
            while True:
                if j >= n:
                    return None
                if s[j] == "'":
                    if j + 1 < n and s[j + 1] == "'":
                        buf.append("'")
                        j += 2
                        continue
                    break
                buf.append(s[j])
                j += 1
            pending = ("q", "".join(buf))
            i = j + 1
        else:
            j = i
            while j < n and s[j] not in "(),;' \t\n":
                j += 1
            pending = ("b", s[i:j])
            i = j
    if top is None or stack:
        return None
    if all(isinstance(x, tuple) for x in top):
        return ("flat", top)
    if len(top) == 2 and all(isinstance(x, list) and all(isinstance(y, tuple) for y in x) for x in top):
        return ("sides", top[0], top[1])
    return None


def token_names(tok, label):
    """does this Newick token name this label?  a quoted token is the label verbatim; in an unquoted token an
    underscore stands for a blank (so `c_d` names both `c d` and `c_d` - the format cannot tell them apart)"""
    kind, text = tok
    if kind == "q":
        return text == label
    return text == label.replace(" ", "_").replace("\t", "_")


def names_exactly(tokens, labels):
    """is there a one-to-one assignment of the tokens to the labels? (bipartite matching; the lists are short)"""
    labels = list(labels)
    if len(tokens) != len(labels):
        return False
    owner = [None] * len(labels)

    def place(i, seen):
        for j, l in enumerate(labels):
            if j not in seen and token_names(tokens[i], l):
                seen.add(j)
                if owner[j] is None or place(owner[j], seen):
                    owner[j] = i
                    return True
        return False

    return all(place(i, set()) for i in range(len(tokens)))


class Oracle(object):
    """the clauses of the statement, evaluated on the implementation's observable output after every op"""

    def __init__(self, ctx, world, ops):
        self.ctx, self.w, self.ops = ctx, world, ops
        self.masks = {}      # (ns index, id(taxon)) -> mask observed while it has been a member
        self.failed = []
        self.incoherent = False

    def fail(self, kind, what, upto):
        self.failed.append((kind, what, upto))

    def snap(self):
        out = []
        for ns in self.w.nss:
            members = list(ns)
            idx = {}
            for t in members:
                idx[id(t)] = safe_index(ns, t)
            out.append((members, idx, bool(ns.is_mutable), bool(ns.is_case_sensitive)))
        return out

    @staticmethod
    def matches(members, cs, label):
        if cs:
            return [t for t in members if t.label == label]
        # a member without a label has nothing to fold: it matches no query (not even "none")
        return [t for t in members if t.label is not None and str(t.label).lower() == str(label).lower()]

    def member_subset(self, snap_ns, m):
        """the members named by mask m, or None when m has a set bit that belongs to no member"""
        members, idx = snap_ns[0], snap_ns[1]
        byidx = {idx[id(t)]: t for t in members}
        sub, i, mm = [], 0, m
        while mm:
            if mm & 1:
                if i not in byidx:
                    return None
                sub.append(byidx[i])
            mm >>= 1
            i += 1
        return sub

    def check_renderings(self, k, n, snap_ns, subset, kind_txt, nwk=None, bits=None):
        members, idx = snap_ns[0], snap_ns[1]
        inset = {id(t) for t in subset}
        if nwk is not None and any(t.label is None for t in members):
            nwk = None      # a taxon without a label has no name a rendering could mention
        if nwk is not None:
            p = parse_newick_groups(nwk)
            want_l = [t.label for t in members if id(t) in inset]
            want_r = [t.label for t in members if id(t) not in inset]
            good = False
            if p is not None and p[0] == "sides":
                good = names_exactly(p[1], want_l) and names_exactly(p[2], want_r)
            elif p is not None and p[0] == "flat":
                good = (not subset or len(inset) == len(members)) and names_exactly(p[1], [t.label for t in members])
            if not good:
                self.fail("render", "%s of namespace %d: Newick rendering %r of the bitmask of members %s does not name exactly those "
                          "taxa (members in order: %s)" % (kind_txt, n, nwk, [t.label for t in members if id(t) in inset],
                                                           [(t.label, idx[id(t)]) for t in members]), k)
        if bits is not None:
            ones = {len(bits) - 1 - p for p, ch in enumerate(bits) if ch == "1"}
            want = {idx[id(t)] for t in subset}
            ok = set(bits) <= {"0", "1"} and ones == want and all(idx[id(t)] < len(bits) for t in members)
            if not ok:
                self.fail("render", "%s of namespace %d: bitstring %r of the bitmask of members with bits %s" % (
                    kind_txt, n, bits, sorted(want)), k)

    def roundtrip(self, k, n, snap_ns, subset, m, what):
        """clause (b) for the member set `subset` whose mask the implementation says is m"""
        ns = self.w.nss[n]
        inset = {id(t) for t in subset}
        if not isinstance(m, int) or isinstance(m, bool) or m < 0 or bin(m).count("1") != len(inset):
            self.fail("roundtrip", "%s of %d distinct members of namespace %d returned %r (needs one bit per taxon)" % (
                what, len(inset), n, m), k)
            return
        try:
            with time_limit(10):
                back = ns.bitmask_taxa_list(m)
                nwk = ns.bitmask_as_newick_string(m)
                nwk2 = ns.split_as_newick_string(m)
                bits = ns.bitmask_as_bitstring(m)
        except Exception as e:  # noqa
            self.fail("roundtrip", "%s = %d of members %s of namespace %d: converting the mask back raised %s" % (
                what, m, [t.label for t in subset], n, type(e).__name__), k)
            return
        if len(back) != len({id(t) for t in back}) or {id(t) for t in back} != inset:
            self.fail("roundtrip", "%s = %d of members %s of namespace %d, bitmask_taxa_list gives back %s" % (
                what, m, [t.label for t in subset], n, [t.label for t in back]), k)
        self.check_renderings(k, n, snap_ns, subset, "bitmask_as_newick_string / bitmask_as_bitstring", nwk=nwk, bits=bits)
        self.check_renderings(k, n, snap_ns, subset, "split_as_newick_string", nwk=nwk2)

    def refusals(self, op, snap_ns):
        """the exceptions the library raises deliberately for this call in this state (empty: the call is in its domain and
        must not raise at all).  A KeyError/IndexError/TypeError/AttributeError escaping from inside is not a refusal."""
        w, kind = self.w, op[0]
        members, idx, mut, cs = snap_ns
        ids = {id(t) for t in members}
        ecs = (lambda c: cs if c is None else c)
        imm = w.err.ImmutableTaxonNamespaceError
        if kind in ("add", "append"):
            return (imm,) if (not mut and id(w.taxa[op[2]]) not in ids) else ()
        if kind == "copykw":
            # is_mutable=False is in force while the members of the other namespace are added
            return (imm,) if (op[3] is False and members) else ()
        if kind == "tbmkw":
            if op[4] is not None:
                return () if all(id(w.taxa[t]) in ids for t in op[4]) else (KeyError,)
            return () if op[5] is not None else (TypeError,)
        if kind == "btli":
            return () if self.member_subset(snap_ns, op[2] << op[3]) is not None else (KeyError,)
        if kind == "addtaxa":
            return (imm,) if (not mut and any(id(w.taxa[t]) not in ids for t in op[2])) else ()
        if kind in ("new", "newtaxa"):
            return () if mut else (imm,)
        if kind == "req":
            return (imm,) if (not mut and not self.matches(members, ecs(op[2]), op[3])) else ()
        if kind in ("rm", "remove"):
            return () if id(w.taxa[op[2]]) in ids else (ValueError,)
        if kind == "del":
            return () if op[2] < len(members) else (IndexError,)
        if kind == "rml":
            return () if self.matches(members, ecs(op[2]), op[3]) else (LookupError,)
        if kind in ("bm", "acc"):
            return () if id(w.taxa[op[2]]) in ids else (KeyError,)
        if kind in ("tbm", "gtbm"):
            return () if all(id(w.taxa[t]) in ids for t in op[2]) else (KeyError,)
        if kind == "btl":
            return () if self.member_subset(snap_ns, op[2]) is not None else (KeyError,)
        if kind in ("sort", "sortk") and len(members) >= 2 and any(t.label is None for t in members) \
                and (kind == "sort" or op[2] == "label"):
            return (TypeError,)     # CPython cannot order None against a string: list.sort refuses (the order reached so far stays)
        if kind in ("rmlf", "dlf"):
            # FINDING (reported, outside the statement): with a match the current code raises TypeError before touching
            # the namespace; accepted here so that the check stays quiet, everything else about these calls is checked
            hit = self.matches(members, ecs(op[2]), op[3])
            return (TypeError,) if hit else ((LookupError,) if kind == "rmlf" else ())
        return ()

    def check_refusal(self, k, op, raw, isexc, b, a):
        if not isexc:
            return
        allowed = self.refusals(op, b)
        good = bool(allowed) and isinstance(raw, allowed)
        if good and allowed == (LookupError,) and isinstance(raw, (KeyError, IndexError)):
            good = False
        if good and allowed == (TypeError,) and isinstance(raw, self.w.err.ImmutableTaxonNamespaceError):
            good = False
        if not good:
            self.fail("refusal", "%s %r on namespace %d (members %s, %s) raised %s: %s; %s" % (
                op[0], op[2:], op[1], [t.label for t in b[0]], "mutable" if b[2] else "immutable", type(raw).__name__, raw,
                ("documented refusal here would be " + "/".join(c.__name__ for c in allowed)) if allowed
                else "the call is in its domain and must not raise"), k)
        elif op[0] in ("sort", "sortk") and {id(x) for x in a[0]} == {id(x) for x in b[0]} and len(a[0]) == len(b[0]):
            pass        # a refused sort may leave the members partially reordered; who is a member (and every bit) is unchanged
        elif len(a[0]) != len(b[0]) or any(x is not y for x, y in zip(a[0], b[0])):
            self.fail("refusal", "%s was refused (%s) but changed the members of namespace %d from %s to %s" % (
                op[0], type(raw).__name__, op[1], [t.label for t in b[0]], [t.label for t in a[0]]), k)

    def check_members(self, k, op, raw, isexc, b, a):
        """who is a member after an addition / removal / reordering that went through (sets only: the statement fixes
        no positions)"""
        if isexc:
            return
        w, kind = self.w, op[0]
        members, idx, mut, cs = b
        ecs = (lambda c: cs if c is None else c)
        before_ids = {id(t) for t in members}
        after_ids = {id(t) for t in a[0]}
        want = None
        if kind in ("rm", "remove"):
            want = before_ids - {id(w.taxa[op[2]])}
        elif kind == "del" and op[2] < len(members):
            want = before_ids - {id(members[op[2]])}
        elif kind in ("rml", "dl"):
            want = before_ids - {id(t) for t in self.matches(members, ecs(op[2]), op[3])}
        elif kind in ("rmlf", "dlf"):
            hit = self.matches(members, ecs(op[2]), op[3])
            want = before_ids - ({id(hit[0])} if hit else set())
        elif kind == "clear":
            want = set()
        elif kind in ("sort", "rev", "setmut", "setcs", "get", "find", "gets", "has", "hasall", "bm", "acc", "tbm", "lbm",
                      "all", "btl", "nwk", "snwk", "bits", "in", "copy", "shallow", "deep", "sortk", "btli", "tbmkw", "gtbm",
                      "sbits", "copykw", "pickle", "scoped", "ltm"):
            want = before_ids
        elif kind in ("add", "append"):
            want = before_ids | {id(w.taxa[op[2]])}
        elif kind == "addtaxa":
            want = before_ids | {id(w.taxa[t]) for t in op[2]}
        elif kind == "newtaxa":
            new = [t for t in a[0] if id(t) not in before_ids]
            lkey = (lambda x: (x is None, x or ""))
            if not (before_ids <= after_ids and len(new) == len(op[2]) and sorted((t.label for t in new), key=lkey) == sorted(op[2], key=lkey)
                    and len(raw) == len(new) and {id(t) for t in raw} == {id(t) for t in new}):
                self.fail("members", "new_taxa(%r) on namespace %d: members %s -> %s" % (
                    op[2], op[1], [t.label for t in members], [t.label for t in a[0]]), k)
        if want is not None and want != after_ids:
            self.fail("members", "%s %r on namespace %d: members %s -> %s" % (
                kind, op[2:], op[1], [t.label for t in members], [t.label for t in a[0]]), k)

    def check_ctor(self, k, op, raw, isexc, before, after):
        if isexc or len(after) != len(before) + 1:
            self.fail("refusal", "TaxonNamespace(%r) raised %s" % (op[2], type(raw).__name__), k)
            return
        w = self.w
        cm = after[-1][0]
        given = {id(w.taxa[x]) for x in op[2] if isinstance(x, int)}
        lkey = (lambda x: (x is None, x or ""))
        labels = sorted((x for x in op[2] if not isinstance(x, int)), key=lkey)
        new = [t for t in cm if id(t) not in given]
        if not (given <= {id(t) for t in cm} and sorted((t.label for t in new), key=lkey) == labels):
            self.fail("members", "TaxonNamespace(%r): members %s" % (op[2], [t.label for t in cm]), k)

    def two_bits(self, j, members, idx):
        """one taxon reachable from two bits, or from a bit that is not its own (read through bitmask_taxa_list, bit by bit)"""
        ns = self.w.nss[j]
        mids = {id(t) for t in members}
        width = max([safe_all(ns).bit_length()] + [v + 1 for v in idx.values() if isinstance(v, int)])
        owner = {}
        for i in range(min(width, 4096)):
            try:
                r = list(ns.bitmask_taxa_list(1 << i))
            except Exception:  # noqa: a bit without a taxon
                continue
            for t in r:
                if id(t) in mids:
                    owner.setdefault(id(t), []).append(i)
        for t in members:
            bits = owner.get(id(t), [])
            if len(bits) > 1 or (bits and idx.get(id(t)) is not None and bits != [idx[id(t)]]):
                return "member %r of namespace %d is found at bits %s by bitmask_taxa_list, its accession index is %s" % (
                    t.label, j, bits, idx.get(id(t)))
        return None

    def after(self, k, op, ret, raw, before, after):
        w, kind = self.w, op[0]
        n = op[1] if kind not in ("mk", "mkns", "mknsimm", "relabel") else None
        # ---- (a) one-to-one and stable, in every namespace; (d) immutable namespaces never grow
        for j, (members, idx, mut, cs) in enumerate(after):
            bad = False
            if len({id(t) for t in members}) != len(members):
                seen, twice = set(), []
                for t in members:
                    if id(t) in seen:
                        twice.append(t.label)
                    seen.add(id(t))
                self.fail("bits", "namespace %d lists a taxon twice after %s %r: members %s, repeated %s" % (
                    j, kind, op[2:], [t.label for t in members], twice), k)
                bad = True
            vals = [idx[id(t)] for t in members]
            uniq = {id(t): idx[id(t)] for t in members}
            if any(not isinstance(v, int) or v < 0 for v in vals) or len(set(uniq.values())) != len(uniq):
                self.fail("bits", "after %s the members of namespace %d have accession bits %s (every member needs one, all distinct)" % (kind, j, vals), k)
                bad = True
            if not bad and kind in MUTATORS and (j == n or j >= len(before)):
                msg = self.two_bits(j, members, idx)
                if msg:
                    self.fail("bits", "after %s %r: %s" % (kind, op[2:], msg), k)
                    bad = True
            if bad:
                # the namespace is no one-to-one taxon/bit map any more: nothing else can be judged on it, the history ends here
                self.incoherent = True
            if j < len(before):
                bm, bidx, bmut, _ = before[j]
                for t in members:
                    if id(t) in bidx and bidx[id(t)] != idx[id(t)]:
                        self.fail("bits", "%s changed the bit of member %r of namespace %d from %s to %s" % (
                            kind, t.label, j, bidx[id(t)], idx[id(t)]), k)
                gone = {id(t) for t in bm} - {id(t) for t in members}
                for g in gone:
                    self.masks.pop((j, g), None)
                if not bmut and not (kind == "setmut" and n == j):
                    gained = [t.label for t in members if id(t) not in bidx]
                    if gained:
                        self.fail("immutable", "immutable namespace %d gained %s through %s" % (j, gained, kind), k)
        if self.incoherent:
            return
        isexc = isinstance(raw, Exception)
        if kind == "mkns":
            self.check_ctor(k, op, raw, isexc, before, after)
        if kind == "mknsimm":
            # an immutable namespace cannot take a first member: only the empty iterable may be accepted
            imm = isinstance(raw, w.err.ImmutableTaxonNamespaceError)
            if (isexc and not (imm and op[2])) or (isexc and len(after) != len(before)):
                self.fail("refusal", "TaxonNamespace(%r, is_mutable=False) raised %s" % (op[2], type(raw).__name__), k)
        if n is None or n >= len(before):
            if isexc and kind in ("mk", "relabel"):
                self.fail("refusal", "%s raised %s" % (kind, type(raw).__name__), k)
            return
        members, idx, mut, cs = before[n]
        amembers, aidx = after[n][0], after[n][1]
        ecs = (lambda c: cs if c is None else c)
        ns = w.nss[n]
        self.check_refusal(k, op, raw, isexc, before[n], after[n])
        self.check_members(k, op, raw, isexc, before[n], after[n])
        if kind == "bm" and any(t is w.taxa[op[2]] for t in amembers):
            t = w.taxa[op[2]]
            if isexc or not isinstance(raw, int) or raw <= 0 or raw & (raw - 1) or raw != 1 << aidx[id(t)]:
                self.fail("bits", "taxon_bitmask of member %r (accession bit %s) of namespace %d is %s" % (t.label, aidx[id(t)], n, ret), k)
            else:
                old = self.masks.get((n, id(t)))
                if old is not None and old != raw:
                    self.fail("bits", "taxon_bitmask of member %r of namespace %d changed from %d to %d while it stayed a member" % (
                        t.label, n, old, raw), k)
                self.masks[(n, id(t))] = raw
                for u in amembers:
                    if u is not t and self.masks.get((n, id(u))) == raw:
                        self.fail("bits", "members %r and %r of namespace %d share the mask %d" % (t.label, u.label, n, raw), k)
        elif kind in ("tbm", "gtbm") or (kind == "tbmkw" and op[4] is not None):
            sub = [w.taxa[t] for t in (op[2] if kind != "tbmkw" else op[4])]
            if all(id(t) in aidx for t in sub):
                if isexc:
                    self.fail("roundtrip", "taxa_bitmask(taxa=members) raised %s" % ret, k)
                else:
                    self.roundtrip(k, n, after[n], sub, raw, "taxa_bitmask(taxa=...)")
        elif kind == "tbmkw" and op[5] is not None:
            per = [self.matches(members, ecs(op[2]), l) for l in op[5]]
            chosen = {id(m[0]) for m in per if m} if op[3] else {id(t) for m in per for t in m}
            sub = [t for t in members if id(t) in chosen]
            if isexc:
                self.fail("roundtrip", "taxa_bitmask(labels=%r, first_match_only=%s) raised %s" % (op[5], op[3], ret), k)
            else:
                self.roundtrip(k, n, after[n], sub, raw, "taxa_bitmask(labels=%r, first_match_only=%s)" % (op[5], op[3]))
        elif kind == "btli":
            sub = self.member_subset(after[n], op[2] << op[3])
            if sub is not None:
                if isexc or len(raw) != len(sub) or {id(t) for t in raw} != {id(t) for t in sub}:
                    self.fail("roundtrip", "bitmask_taxa_list(%d, index=%d) on namespace %d (bits of members %s) returned %s" % (
                        op[2], op[3], n, [t.label for t in sub], ret if isexc else [t.label for t in raw]), k)
        elif kind == "scoped":
            if isexc or raw[0] is not ns or any(raw[1].get(id(t)) is not t for t in amembers):
                self.fail("copy", "taxon_namespace_scoped_copy of namespace %d did not return the namespace itself with every member "
                          "mapped to itself (%s)" % (n, ret), k)
        elif kind == "ltm":
            want = self.matches(members, ecs(op[2]), op[3])
            if isexc or not ((raw is None and not want) or any(raw is t for t in want)):
                self.fail("lookup", "label_taxon_map(case=%s)[%r] on namespace %d (case-sensitive=%s, members %s) gave %s; matching members: %s" % (
                    op[2], op[3], n, cs, [t.label for t in members], ret, [w.name(t) for t in want]), k)
        elif kind == "lbm":
            sub = [t for t in members if any(t in self.matches(members, ecs(op[2]), l) for l in op[3])]
            if isexc:
                self.fail("roundtrip", "taxa_bitmask(labels=%r) raised %s" % (op[3], ret), k)
            else:
                self.roundtrip(k, n, after[n], sub, raw, "taxa_bitmask(labels=%r)" % (op[3],))
        elif kind == "btl":
            sub = self.member_subset(after[n], op[2])
            if sub is not None:
                if isexc or len(raw) != len(sub) or {id(t) for t in raw} != {id(t) for t in sub}:
                    self.fail("roundtrip", "bitmask_taxa_list(%d) on namespace %d (bits of members %s) returned %s" % (
                        op[2], n, [t.label for t in sub], ret if isexc else [t.label for t in raw]), k)
        elif kind in ("nwk", "snwk"):
            sub = self.member_subset(after[n], op[2])
            if sub is not None:
                if isexc:
                    self.fail("render", "Newick rendering of member mask %d raised %s" % (op[2], ret), k)
                else:
                    self.check_renderings(k, n, after[n], sub, "bitmask_as_newick_string(preserve_spaces=%s, quote_underscores=%s)" % (
                        op[3], op[4]), nwk=raw)
        elif kind in ("bits", "sbits"):
            sub = self.member_subset(after[n], op[2])
            if sub is not None:
                if isexc:
                    self.fail("render", "bitmask_as_bitstring(%d) raised %s" % (op[2], ret), k)
                else:
                    self.check_renderings(k, n, after[n], sub, "bitmask_as_bitstring", bits=raw)
        # ---- (c) lookups
        elif kind in ("get", "find", "has"):
            want = self.matches(members, ecs(op[2]), op[3])
            if kind == "get":
                good = (raw is None and not want) or (want and raw is want[0])
            elif kind == "find":
                good = (not isexc) and len(raw) == len(want) and all(x is y for x, y in zip(raw, want))
            else:
                good = (not isexc) and bool(raw) == bool(want)
            if not good:
                self.fail("lookup", "%s(%r, case=%s) on namespace %d (case-sensitive=%s, members %s) returned %s; matching members in order: %s" % (
                    {"get": "get_taxon", "find": "findall", "has": "has_taxon_label"}[kind], op[3], op[2], n, cs,
                    [t.label for t in members], ret, [w.name(t) for t in want]), k)
        elif kind == "gets":
            per = [self.matches(members, ecs(op[2]), l) for l in op[4]]
            if op[3]:
                want = [m[0] for m in per if m]
                good = (not isexc) and len(raw) == len(want) and all(x is y for x, y in zip(raw, want))
            else:
                wantset = {id(t) for m in per for t in m}
                good = (not isexc) and len(raw) == len({id(t) for t in raw}) and {id(t) for t in raw} == wantset
                if good:
                    # among the matches a label contributes first, the order is membership order
                    pos = {id(t): i for i, t in enumerate(raw)}
                    first_owner = {}
                    for li, m in enumerate(per):
                        for t in m:
                            first_owner.setdefault(id(t), li)
                    for li, m in enumerate(per):
                        mine = [pos[id(t)] for t in m if first_owner[id(t)] == li]
                        if mine != sorted(mine):
                            good = False
            if not good:
                self.fail("lookup", "get_taxa(%r, case=%s, first_match_only=%s) on namespace %d (members %s) returned %s" % (
                    op[4], op[2], op[3], n, [t.label for t in members], ret), k)
        elif kind == "hasall":
            want = all(self.matches(members, ecs(op[2]), l) for l in op[3])
            if isexc or bool(raw) != want:
                self.fail("lookup", "has_taxa_labels(%r, case=%s) on namespace %d (members %s) returned %s" % (
                    op[3], op[2], n, [t.label for t in members], ret), k)
        elif kind == "req":
            want = self.matches(members, ecs(op[2]), op[3])
            same = len(amembers) == len(members) and all(x is y for x, y in zip(amembers, members))
            if want:
                good = raw is want[0] and same
            elif not mut:
                good = isexc and ret == "Immutable" and same
            else:
                good = (not isexc and len(amembers) == len(members) + 1 and all(x is y for x, y in zip(amembers, members))
                        and amembers[-1] is raw and raw.label == op[3] and id(raw) not in idx
                        and aidx[id(raw)] not in set(idx.values()))
            if not good:
                self.fail("require", "require_taxon(%r, case=%s) on %s namespace %d (case-sensitive=%s, members %s) returned %s, members afterwards %s; "
                          "first match: %s" % (op[3], op[2], "mutable" if mut else "immutable", n, cs, [t.label for t in members], ret,
                                               [t.label for t in amembers], w.name(want[0]) if want else None), k)
        elif kind == "new":
            if mut:
                good = (not isexc and len(amembers) == len(members) + 1 and amembers[-1] is raw and raw.label == op[2]
                        and aidx[id(raw)] not in set(idx.values()))
            else:
                good = isexc and ret == "Immutable"
            if not good:
                self.fail("require", "new_taxon(%r) on %s namespace %d returned %s, members %s -> %s" % (
                    op[2], "mutable" if mut else "immutable", n, ret, [t.label for t in members], [t.label for t in amembers]), k)
        # ---- (e) copies
        elif kind in ("copy", "shallow", "deep", "copykw", "pickle"):
            if kind == "copykw" and isexc and self.refusals(op, before[n]):
                pass        # judged by check_refusal
            elif isexc or len(after) != len(before) + 1:
                self.fail("copy", "%s of namespace %d raised %s" % (kind, n, ret), k)
            else:
                cm, cidx = after[-1][0], after[-1][1]
                good = len(cm) == len(members)
                if good and kind not in ("deep", "pickle"):
                    good = all(x is y for x, y in zip(cm, members)) and all(cidx[id(t)] == idx[id(t)] for t in members)
                elif good:
                    good = (all(x is not y and x.label == y.label and cidx[id(x)] == idx[id(y)] for x, y in zip(cm, members))
                            and not ({id(t) for t in cm} & {id(t) for t in members}))
                if not good:
                    self.fail("copy", "%s of namespace %d: original (label, bit) %s, copy %s" % (
                        kind, n, [(t.label, idx[id(t)]) for t in members], [(t.label, cidx[id(t)]) for t in cm]), k)


# ---------------------------------------------------------------- one history: implementation, oracle, model
def in_scope(l):
    """the labels the model speaks about: non-empty strings over all of Unicode (no None label; lone surrogates cannot be
    written in the line protocol)"""
    return isinstance(l, str) and l != "" and not any(0xD800 <= ord(c) <= 0xDFFF for c in l)


CREATES = ("mk", "mkns", "mknsimm", "new", "relabel", "newtaxa")


def op_labels(op):
    k = op[0]
    if k == "mk":
        return [op[1]]
    if k in ("mkns", "mknsimm"):
        return [x for x in op[2] if not isinstance(x, int)]
    if k == "tbmkw":
        return list(op[5] or [])
    if k == "ltm":
        return [op[3]]
    if k in ("new", "relabel"):
        return [op[2]]
    if k in ("newtaxa",):
        return list(op[2])
    if k in ("req", "rml", "dl", "rmlf", "dlf", "get", "find", "has"):
        return [op[3]]
    if k in ("hasall", "lbm"):
        return list(op[3])
    if k == "gets":
        return list(op[4])
    return []


def run_history(ctx, dendropy, opgen, pending, fixed_ops=None, kind="random", compare=None):
    """opgen(world, k) -> next op or None; or fixed_ops = a recorded list (replay).
    compare=False: implementation and oracle only (labels outside the model's scope); None: decided by the labels"""
    w = World(dendropy)
    ops, outs, mops = [], [], []
    orc = Oracle(ctx, w, ops)
    k = 0
    refused_sort = False
    while True:
        if fixed_ops is not None:
            if k >= len(fixed_ops):
                break
            op = fixed_ops[k]
        else:
            try:
                op = opgen(w, k)
            except Exception as e:  # noqa
                if not is_library_exception(e):
                    raise
                # the generator was reading the namespace (public accessors) and the library raised: the state is incoherent
                orc.fail("bits", "reading namespace state before op %d raised %s: %s" % (k, type(e).__name__, e), max(k - 1, 0))
                break
            if op is None:
                break
        op = [list(x) if isinstance(x, tuple) else x for x in op]
        ops.append(op)
        before = orc.snap()
        with time_limit(20):
            ret, raw = w.call(op)
        after = orc.snap()
        mop = op
        if op[0] in ("rmlf", "dlf"):
            # remove/discard_taxon_label(first_match_only=True): the model has both behaviours the code can show once a label
            # matches - the refusal of the code as it is (TypeError, nothing changes; `fixed` = 0) and the documented one
            # (the first match leaves; `fixed` = 1) - and is told which one was observed; return value and members are then
            # compared as for every other op.
            fixed = not isinstance(raw, TypeError) or isinstance(raw, w.err.ImmutableTaxonNamespaceError)
            mop = [op[0], op[1], op[2], op[3], fixed]
            if not fixed:
                ctx.count("first_match_only raises TypeError (side finding, state unchanged)")
                ret = "TypeError"
        if op[0] == "tbmkw" and op[4] is None and op[5] is None and isinstance(raw, TypeError) \
                and not isinstance(raw, w.err.ImmutableTaxonNamespaceError):
            ret = "TypeError"       # neither taxa= nor labels=: get_taxa() refuses the call
        if op[0] in ("sort", "sortk") and isinstance(raw, TypeError) and not isinstance(raw, w.err.ImmutableTaxonNamespaceError):
            # list.sort refused to order None against a string and left the members in a partial order of its own (which one depends
            # on the interpreter's merge): the model is given the refusal together with the order observed (op sortx, theorem
            # sort_refused_spec: any rearrangement of the members is accepted, nothing else changes)
            refused_sort = True
            ret = "TypeError"
            mop = ["sortx", op[1], [w.tid.get(id(t), 10 ** 9) for t in w.nss[op[1]]]]
        mops.append(mop)
        outs.append(ret + " # " + w.dump())
        try:
            orc.after(k, op, ret, raw, before, after)
        except Exception as e:  # noqa
            if not is_library_exception(e):
                raise
            orc.fail("bits", "judging %s %r: reading the namespace raised %s: %s" % (op[0], op[1:], type(e).__name__, e), k)
            orc.incoherent = True
        k += 1
        if orc.incoherent:
            compare = False     # the model has nothing to say about a namespace that is no one-to-one map any more
            break
    report(ctx, dendropy, ops, orc, shrink=fixed_ops is None)
    kinds = {o[0] for o in ops}
    nontrivial = bool(kinds & {"rm", "del", "rml", "dl", "clear", "sort", "rev", "copy", "shallow", "deep", "remove", "sortk", "copykw", "pickle"})
    ctx.case([enc_op(o) for o in ops], nontrivial, sample={"ops": ops[:12], "n_ops": len(ops)}, kind=kind)
    for o in ops:
        ctx.count("op:" + o[0])
    # labels a Taxon is given may be None (no label: the empty label of the model); query labels must be in-scope strings
    scoped = all((l is None and o[0] in CREATES) or in_scope(l) for o in ops for l in op_labels(o))
    if refused_sort:
        ctx.count("histories with a sort refused because of an unlabelled member (model told the order left behind)")
    if compare is None:
        compare = scoped
    if compare and not scoped:
        raise AssertionError("a label outside the model's scope was about to be sent to the model")
    if compare:
        pending.append((hist_line(mops), ops, outs))
    else:
        ctx.count("histories outside the model's scope (None as a query, empty label, surrogate, refused sort, incoherent state): implementation + oracle only")
    return orc


class Quiet(object):
    """a context that only collects (used by the shrinker)"""

    def __init__(self):
        self.failures = []

    def case(self, *a, **k):
        pass

    def count(self, *a, **k):
        pass


def fails_with(dendropy, ops, kind):
    """does the history still violate clause `kind`?  returns (index of the failing op, message) or None"""
    w = World(dendropy)
    orc = Oracle(None, w, ops)
    try:
        for k, op in enumerate(ops):
            before = orc.snap()
            with time_limit(20):
                ret, raw = w.call(op)
            try:
                orc.after(k, op, ret, raw, before, orc.snap())
            except Exception as e:  # noqa
                if not is_library_exception(e):
                    raise
                orc.fail("bits", "judging %s %r: reading the namespace raised %s: %s" % (op[0], op[1:], type(e).__name__, e), k)
                orc.incoherent = True
            for f in orc.failed:
                if f[0] == kind:
                    return f[2], f[1]
            if orc.incoherent:
                return None
    except BadRef:
        return None
    return None


def shrink(dendropy, ops, kind, budget=400):
    """greedy one-op-at-a-time deletion (a candidate that names a Taxon or namespace which no longer exists is skipped)"""
    cur = list(ops)
    changed = True
    while changed and budget > 0:
        changed = False
        for i in range(len(cur) - 1, -1, -1):
            if budget <= 0:
                break
            cand = cur[:i] + cur[i + 1:]
            budget -= 1
            r = fails_with(dendropy, cand, kind) if cand else None
            if r is not None:
                cur = cand[:r[0] + 1]
                changed = True
                break
    return cur


def report(ctx, dendropy, ops, orc, shrink=True):
    seen = set()
    for kind, what, upto in orc.failed:
        if kind in seen:
            continue
        seen.add(kind)
        rops = ops[:upto + 1]
        if shrink and len(ctx.failures) < 4:
            small = globals()["shrink"](dendropy, rops, kind)
            r = fails_with(dendropy, small, kind)
            if r is not None:
                rops, what = small[:r[0] + 1], r[1]
        ctx.fail(kind, what, {"ops": rops, "clause": kind})


_MODEL_ERRS = {"ValueError", "LookupError", "KeyError", "IndexError"}
_DUMP_MASK = re.compile(r"(m[01]c[01])a\d+:")


def canon_model(out, ignore_ret):
    """the model's `ret # dump` in the vocabulary of the comparison: non-immutability refusals are one class, the dump
    does not show all_taxa_bitmask (compared only where it is asked for, op `all`)"""
    ret, _, dump = out.partition(" # ")
    ret = ret.strip()
    if ret in _MODEL_ERRS:
        ret = "Error"
    if ignore_ret:
        ret = "-"
    return ret + " # " + _DUMP_MASK.sub(r"\1:", dump.strip())


def flush(ctx, pending):
    if not pending:
        return
    res = ctx.ask([p[0] for p in pending])
    for (line, ops, outs), m in zip(pending, res):
        if m is None:
            continue
        ctx.compared()
        mouts = m.split(" | ")
        if len(mouts) != len(outs):
            ctx.disagree("hist", {"ops": ops}, " | ".join(outs)[:300], m[:300])
            continue
        for k, (a, b) in enumerate(zip(outs, mouts)):
            ign = a.startswith("- # ")
            if a.strip() != canon_model(b, ign):
                ctx.disagree(ops[k][0], {"ops": ops[:k + 1], "at": k}, a, canon_model(b, ign))
                break
    del pending[:]


# ---------------------------------------------------------------- generators
def rand_label(rng):
    r = rng.random()
    if r < 0.7:
        return rng.choice(BASE_LABELS)
    return "".join(rng.choice(ALPHA) for _ in range(rng.randint(1, 5)))


def case_variant(rng, l):
    return "".join((c.upper() if rng.random() < 0.5 else c.lower()) if c not in "ß" else c for c in l)


def member_mask(rng, ns):
    members = list(ns)
    r = rng.random()
    if not members or r < 0.1:
        return rng.randrange(0, 1 << (safe_all(ns).bit_length() + 1))
    if r < 0.35:
        sub = [rng.choice(members)]
    elif r < 0.45:
        sub = members
    else:
        sub = [t for t in members if rng.random() < 0.5]
    m = 0
    for t in sub:
        m |= safe_bit(ns, t)
    return m


WIDE_ALPHA = "ΣσςΑαaA İIıi̇'.:­ͅǅǆЯя中ẞßΩωʰᴬ1 _"
WIDE_LABELS = ["ΑΣ'", "αΣ.α", "aΣ", "Σa", "A.Σ", "1Σ", "ΑΣͅ", "Σ", "σ", "ς", "ΑΣ", "ας", "İ", "i̇", "I", "ı", "ǅ", "ǆ", "Ω", "ω", "Я", "я", "中", "ẞ", "ß", "Éa", "éa",
               "Ω b", "ω_b"]


class RandomGen(object):
    def __init__(self, rng, max_ops, wide=False, nolabel=False):
        self.rng = rng
        self.nolabel = nolabel
        self.n_ops = rng.randint(3, max_ops)
        if wide:
            pool = [rng.choice(WIDE_LABELS) for _ in range(rng.randint(2, 6))] + [rand_label(rng)]
        else:
            pool = [rand_label(rng) for _ in range(rng.randint(2, 6))]
        self.wide = wide
        pool += [case_variant(rng, l) for l in pool if rng.random() < 0.6]
        if nolabel:
            pool += ["none", "None", "NONE"][:rng.randint(1, 3)]
        self.pool = pool
        self.burst = None
        self.follow = []

    def label(self):
        l = self.rng.choice(self.pool) if self.rng.random() < 0.9 else rand_label(self.rng)
        if self.wide and self.rng.random() < 0.3:
            l = self.rng.choice([l.upper(), l.lower(), l.swapcase()]) or l
        return l

    def cflag(self):
        return self.rng.choice([None, None, True, False])

    def some_taxon(self, w, ns, member_p=0.75):
        rng = self.rng
        members = list(ns)
        if members and rng.random() < member_p:
            return w.tid[id(rng.choice(members))]
        if w.taxa:
            return rng.randrange(len(w.taxa))
        return None

    def observer(self, w, n):
        rng, ns = self.rng, w.nss[n]
        members = list(ns)
        r = rng.random()
        if r < 0.08:
            return ["get", n, self.cflag(), self.label()]
        if r < 0.16:
            return ["find", n, self.cflag(), self.label()]
        if r < 0.22:
            return ["gets", n, self.cflag(), rng.random() < 0.4, [self.label() for _ in range(rng.randint(0, 3))]]
        if r < 0.26:
            return ["has", n, self.cflag(), self.label()]
        if r < 0.30:
            return ["hasall", n, self.cflag(), [self.label() for _ in range(rng.randint(0, 3))]]
        if r < 0.42:
            t = self.some_taxon(w, ns, 0.9)
            return ["bm", n, t] if t is not None else ["all", n]
        if r < 0.46:
            t = self.some_taxon(w, ns, 0.7)
            return ["acc", n, t] if t is not None else ["all", n]
        if r < 0.58:
            sub = [w.tid[id(t)] for t in members if rng.random() < 0.5]
            if rng.random() < 0.1 and w.taxa:
                sub.append(rng.randrange(len(w.taxa)))
            if rng.random() < 0.2 and sub:
                sub.append(rng.choice(sub))
            rng.shuffle(sub)
            return ["tbm", n, sub]
        if r < 0.64:
            return ["lbm", n, self.cflag(), [self.label() for _ in range(rng.randint(0, 3))]]
        if r < 0.67:
            return ["all", n]
        if r < 0.75:
            return ["btl", n, member_mask(rng, ns)]
        if r < 0.90:
            return [rng.choice(["nwk", "nwk", "snwk"]), n, member_mask(rng, ns), rng.random() < 0.3, rng.random() < 0.7]
        if r < 0.96:
            return ["bits", n, member_mask(rng, ns)]
        t = self.some_taxon(w, ns, 0.5)
        return ["in", n, t] if t is not None else ["all", n]

    def bulk(self, w, n):
        """add_taxa with the iterables a caller pools taxa with: Taxon objects that are not members yet mentioned more than once
        (the leaf taxa of two trees sharing taxa), members repeated, both mixed, as list / tuple / one-shot iterator / generator, or
        another namespace object itself"""
        rng, ns = self.rng, w.nss[n]
        mids = {id(t) for t in ns}
        non = [i for i, t in enumerate(w.taxa) if id(t) not in mids]
        mem = [i for i, t in enumerate(w.taxa) if id(t) in mids]
        style = rng.choice(["repeat-new", "repeat-new", "repeat-member", "mix", "mix", "plain", "other-ns"])
        if style == "other-ns" and len(w.nss) > 1:
            m = rng.choice([j for j in range(len(w.nss)) if j != n])
            return ["addtaxa", n, [w.tid[id(t)] for t in w.nss[m]], "ns:%d" % m]
        ts = []
        if style in ("repeat-new", "mix") and non:
            pick = rng.sample(non, min(len(non), rng.randint(1, 3)))
            ts += pick + [rng.choice(pick) for _ in range(rng.randint(1, 3))]
        if style in ("repeat-member", "mix") and mem:
            pick = rng.sample(mem, min(len(mem), rng.randint(1, 2)))
            ts += pick + [rng.choice(pick) for _ in range(rng.randint(0, 2))]
        if not ts and w.taxa:
            ts = [rng.randrange(len(w.taxa)) for _ in range(rng.randint(0, 3))]
        rng.shuffle(ts)
        return ["addtaxa", n, ts, rng.choice(["list", "list", "iter", "gen", "tuple"])]

    def mutator(self, w, n):
        rng, ns = self.rng, w.nss[n]
        members = list(ns)
        r = rng.random()
        if r < 0.14:
            return ["new", n, self.label()]
        if r < 0.24:
            return ["req", n, self.cflag(), self.label()]
        if r < 0.32:
            # add: a free / removed / foreign taxon, sometimes a member
            t = self.some_taxon(w, ns, 0.2)
            return ["add", n, t] if t is not None else ["mk", self.label()]
        if r < 0.34:
            return ["mk", self.label()]
        if r < 0.39:
            mids = {id(t) for t in members}
            if sum(1 for t in w.taxa if id(t) not in mids) < 2 and rng.random() < 0.6:
                # make two Taxon objects that are members of nothing yet, then pool them (repeated) into the namespace
                self.follow = [("again", n, ["mk", self.label()]), ("bulk", n, None)]
                return ["mk", self.label()]
            return self.bulk(w, n)
        if r < 0.41:
            ls = [self.label() for _ in range(rng.randint(0, 3))]
            if ls and rng.random() < 0.4:
                ls += [rng.choice(ls) for _ in range(rng.randint(1, 2))]      # the same label twice: two new taxa
            return ["newtaxa", n, ls, rng.choice(["list", "list", "iter", "gen", "tuple"])]
        if r < 0.53:
            t = self.some_taxon(w, ns, 0.92)
            return ["rm", n, t] if t is not None else ["clear", n]
        if r < 0.57:
            return ["del", n, rng.randrange(len(members) + 1) if rng.random() < 0.9 or not members else 0]
        if r < 0.61:
            return ["rml", n, self.cflag(), self.label()]
        if r < 0.66:
            return ["dl", n, self.cflag(), self.label()]
        if r < 0.67:
            return [rng.choice(["rmlf", "dlf"]), n, self.cflag(), self.label()]
        if r < 0.74:
            return ["sort", n, rng.random() < 0.4]
        if r < 0.80:
            return ["rev", n]
        if r < 0.82:
            return ["clear", n]
        if r < 0.88:
            if w.taxa:
                t = self.some_taxon(w, ns, 0.8)
                return ["relabel", t, self.label()]
            return ["new", n, self.label()]
        if r < 0.94 and len(w.nss) < 4:
            return [rng.choice(["copy", "shallow", "deep"]), n]
        if r < 0.97:
            return ["setmut", n, rng.random() < 0.5]
        return ["setcs", n, rng.random() < 0.5]

    def variant(self, w, op):
        """keyword forms, legacy aliases and further entry points of the same mechanisms (extension round)"""
        rng, k = self.rng, op[0]
        r = rng.random()
        if k == "add" and r < 0.15:
            return ["append", op[1], op[2]]
        if k == "rm" and r < 0.10:
            return ["remove", op[1], op[2]]
        if k == "bits" and r < 0.15:
            return ["sbits", op[1], op[2]]
        if k == "tbm":
            if r < 0.12:
                return ["gtbm", op[1], op[2]]
            if r < 0.35:      # taxa= wins over labels=; the other keywords are ignored
                return ["tbmkw", op[1], self.cflag(), rng.random() < 0.3, op[2],
                        [self.label() for _ in range(rng.randint(0, 2))] if rng.random() < 0.5 else None]
        if k == "lbm" and r < 0.45:
            return ["tbmkw", op[1], op[2], rng.random() < 0.5, None, op[3]]
        if k == "btl" and r < 0.4:
            sh = rng.randint(0, 3)
            return ["btli", op[1], op[2] >> sh, sh]
        if k == "sort" and r < 0.55:
            return ["sortk", op[1], rng.choice(sorted(SORT_KEYS)), op[2]]
        if k in ("copy", "shallow", "deep"):
            if r < 0.25:
                return ["copykw", op[1], self.cflag(), rng.choice([None, None, True, False])]
            if r < 0.40:
                return ["pickle", op[1]]
        if k in ("get", "find") and r < 0.25:
            return ["ltm", op[1], op[2], op[3]]
        if k == "all" and r < 0.3:
            return ["scoped", op[1]]
        if k == "has" and r < 0.1:
            return ["tbmkw", op[1], self.cflag(), False, None, None]
        if k == "mk" and 0.25 <= r < 0.5 and len(w.nss) < 4 and w.taxa:
            pick = [rng.randrange(len(w.taxa)) for _ in range(rng.randint(1, 3))]
            items = pick + [rng.choice(pick) for _ in range(rng.randint(1, 2))] + [self.label() for _ in range(rng.randint(0, 2))]
            if rng.random() < 0.3:
                items += [x for x in items if not isinstance(x, int)][:1]
            rng.shuffle(items)
            return ["mkns", rng.random() < 0.25, items, rng.choice(["list", "iter", "gen", "tuple"])]
        if k == "mk" and r < 0.25 and len(w.nss) < 4:
            items = [self.label() for _ in range(rng.choice([0, 0, 1, 2]))]
            if w.taxa and rng.random() < 0.3:
                items.append(rng.randrange(len(w.taxa)))
            return ["mknsimm", rng.random() < 0.5, items]
        return op

    def unlabel(self, w, op):
        """histories with `Taxon` objects that have no label (label None): creation, relabelling to and from None; queries stay
        strings ("none" among them: an unlabelled member must not match it).  Entry points that need a label of every member
        (custom sort keys reading it, label_taxon_map) are left out."""
        rng, k = self.rng, op[0]
        if k in ("mk", "new") and rng.random() < 0.35:
            return [k, None] if k == "mk" else [k, op[1], None]
        if k == "relabel" and rng.random() < 0.35:
            return [k, op[1], None]
        if k == "newtaxa" and rng.random() < 0.3:
            return [k, op[1], [None if rng.random() < 0.5 else l for l in op[2]]]
        if k == "mkns" and rng.random() < 0.5:
            return [k, op[1], [None if (not isinstance(x, int) and rng.random() < 0.3) else x for x in op[2]]]
        if k == "sortk" and op[2] not in ("label", "acc", "const"):
            return ["sort", op[1], op[3]]
        if k == "ltm":
            return ["find", op[1], op[2], op[3]]
        return op

    def make_burst(self, w):
        rng = self.rng
        ops = []
        for n, ns in enumerate(w.nss):
            members = list(ns)
            for t in members:
                ops.append(["bm", n, w.tid[id(t)]])
            for t in members[:6]:
                ops.append(["nwk", n, safe_bit(ns, t), False, True])
            for _ in range(2):
                ops.append(["tbm", n, [w.tid[id(t)] for t in members if rng.random() < 0.5]])
            ops.append(["bits", n, member_mask(rng, ns)])
            ops.append(["btl", n, member_mask(rng, ns)])
            ops.append(["all", n])
        return ops

    def __call__(self, w, k):
        op = self.next_op(w, k)
        return self.unlabel(w, op) if (self.nolabel and op is not None) else op

    def next_op(self, w, k):
        rng = self.rng
        if k == 0:
            items = [self.label() for _ in range(rng.choice([0, 1, 2, 3, 4, 4, 5, 6, 8]))]
            return ["mkns", rng.random() < 0.25, items]
        if k < self.n_ops:
            while self.follow:
                # observers right after a change of membership: the mask of a taxon that has just (re)joined (a stale
                # memo entry shows here); after a removal the bits of the remaining members through both index maps
                what, fn, ft = self.follow.pop(0)
                fns = w.nss[fn]
                members = list(fns)
                if what == "again":
                    return list(ft)
                if what == "bm":
                    if ft is None and members:
                        ft = w.tid[id(members[-1])]
                    if ft is not None:
                        return ["bm", fn, ft]
                elif what == "btl" and members:
                    m = 0
                    for t in members:
                        m |= safe_bit(fns, t)
                    return ["btl", fn, m]
                elif what == "bmany" and members:
                    return ["bm", fn, w.tid[id(rng.choice(members))]]
                elif what == "all":
                    return ["all", fn]
                elif what == "bulk":
                    self.follow = [("btl", fn, None), ("bmany", fn, None)] + self.follow
                    return self.bulk(w, fn)
                elif what == "dead":
                    # the bit of the taxon that has just left: bitmask_taxa_list must not find anybody there (index -> taxon map)
                    return ["btl", fn, ft] if rng.random() < 0.7 else ["btli", fn, 1, ft.bit_length() - 1]
            n = rng.randrange(len(w.nss))
            if rng.random() < 0.55:
                op = self.mutator(w, n)
                dead = None
                if op[0] == "rm" and any(t is w.taxa[op[2]] for t in w.nss[n]):
                    dead = safe_bit(w.nss[n], w.taxa[op[2]]) or None
                if op[0] == "req" and rng.random() < 0.3:
                    self.follow = [("again", n, list(op))]      # requiring the same label twice creates at most one taxon
                elif op[0] in ("add", "new", "req") and rng.random() < 0.6:
                    self.follow = [("bm", n, op[2] if op[0] == "add" else None)]
                elif op[0] in ("rm", "del", "rml", "dl", "clear") and rng.random() < 0.6:
                    self.follow = [("btl", n, None), ("bmany", n, None), ("all", n, None)][:rng.randint(1, 3)]
                    if dead is not None and rng.random() < 0.5:
                        self.follow.insert(0, ("dead", n, dead))
                return self.variant(w, op)
            return self.variant(w, self.observer(w, n))
        if self.burst is None:
            self.burst = self.make_burst(w)
        j = k - self.n_ops
        return self.burst[j] if j < len(self.burst) else None


# symbolic mutators of the exhaustive tier, resolved against the live namespace 0
def resolve(sym, w, removed):
    ns = w.nss[0]
    members = list(ns)
    k = sym[0]
    if k == "rm_pos":
        if not members:
            return None
        t = members[sym[1] % len(members)]
        removed.append(w.tid[id(t)])
        return ["rm", 0, w.tid[id(t)]]
    if k == "readd":
        cand = [t for t in removed if not any(x is w.taxa[t] for x in members)]
        return ["add", 0, cand[-1]] if cand else None
    if k == "readd2":
        cand = [t for t in removed if not any(x is w.taxa[t] for x in members)]
        return ["addtaxa", 0, [cand[-1], cand[-1]] + ([cand[0]] if len(cand) > 1 else []), "iter"] if cand else None
    if k == "relabel_pos":
        if not members:
            return None
        return ["relabel", w.tid[id(members[sym[1] % len(members)])], sym[2]]
    return list(sym)


SYMBOLS = [("new", 0, "a"), ("new", 0, "B"), ("req", 0, None, "A"), ("req", 0, True, "A"), ("req", 0, None, "c"),
           ("rm_pos", 0), ("rm_pos", 1), ("rm_pos", -1), ("readd",), ("rml", 0, None, "a"), ("dl", 0, True, "b"),
           ("sort", 0, False), ("sort", 0, True), ("rev", 0), ("clear", 0), ("relabel_pos", 0, "b"), ("relabel_pos", -1, "A"),
           ("copy", 0), ("deep", 0), ("setmut", 0, False), ("setcs", 0, True), ("del", 0, 1), ("dlf", 0, None, "a"),
           ("sortk", 0, "acc", True), ("copykw", 0, True, None), ("readd2",)]
BASES = [["b", "a", "A", "c"], ["x", "B", "b"]]


class SymbolicGen(object):
    def __init__(self, rng, base, seq):
        self.rng, self.base, self.seq = rng, base, seq
        self.removed = []
        self.queue = None
        self.i = 0
        self.burst = None

    def __call__(self, w, k):
        if k == 0:
            return ["mkns", False, list(self.base)]
        while self.i < len(self.seq):
            op = resolve(self.seq[self.i], w, self.removed)
            self.i += 1
            if op is not None:
                return op
        if self.burst is None:
            self.burst = []
            for n, ns in enumerate(w.nss):
                members = list(ns)
                for t in members:
                    self.burst.append(["bm", n, w.tid[id(t)]])
                    self.burst.append(["nwk", n, safe_bit(ns, t), False, True])
                self.burst.append(["tbm", n, [w.tid[id(t)] for t in members[::2]]])
                self.burst.append(["tbm", n, [w.tid[id(t)] for t in members]])
                self.burst.append(["find", n, None, "a"])
                self.burst.append(["get", n, True, "A"])
                self.burst.append(["gets", n, None, False, ["B", "a"]])
                self.burst.append(["lbm", n, None, ["a", "b"]])
                self.burst.append(["tbmkw", n, None, True, None, ["A", "b"]])
                self.burst.append(["ltm", n, None, "a"])
                if members:
                    self.burst.append(["bits", n, safe_bit(ns, members[-1])])
                    self.burst.append(["btl", n, safe_bit(ns, members[0])])
            self.bj = k
        j = k - self.bj
        return self.burst[j] if j < len(self.burst) else None


def string_functions(ctx, dendropy, rng, count):
    """the two pure string functions of the model against CPython / the implementation"""
    from dendropy.dataio import nexusprocessing
    labels = list(BASE_LABELS) + [case_variant(rng, l) for l in BASE_LABELS] + list(WIDE_LABELS)
    labels += ["".join(rng.choice(ALPHA) for _ in range(rng.randint(1, 6))) for _ in range(count)]
    labels += ["".join(rng.choice(WIDE_ALPHA) for _ in range(rng.randint(1, 6))) for _ in range(count)]
    labels += [chr(rng.choice([rng.randrange(0x20, 0x250), rng.randrange(0x370, 0x530), rng.randrange(0x1E00, 0x2000),
                                rng.randrange(0x10400, 0x10450), rng.randrange(0x20, 0x30000)])) for _ in range(count)]
    labels = [l for l in labels if in_scope(l)]
    lines, want = [], []
    for l in labels:
        lines.append("lower " + hex6(l))
        want.append(hex6(l.lower()))
        ps, qu = rng.random() < 0.5, rng.random() < 0.5
        lines.append("esc %s %s %s" % (b01(ps), b01(qu), hex6(l)))
        want.append(hex6(nexusprocessing.escape_nexus_token(l, preserve_spaces=ps, quote_underscores=qu)))
    res = ctx.ask(lines)
    for line, a, m in zip(lines, want, res):
        if m is None:
            continue
        ctx.compared()
        if a != m.strip():
            ctx.disagree(line.split()[0], {"line": line}, a, m)
    ctx.count("string_function_cases", len(lines))


# ---------------------------------------------------------------- tie A: the regenerated kernels against the implementation
def kernel_check(dendropy, line, answer):
    """is `answer` (the driver's evaluation of a kernel of Gen/C10Kernels.lean) what the implementation computes, through its
    public API, on a namespace without removals (accession index = position)?  returns (ok, what the implementation says)"""
    from common import unhex6
    ws = line.split()
    answer = answer.strip()
    if ws[0] == "kfmt":
        ns = dendropy.TaxonNamespace(["a", "b", "c"])
        flat, sides = ns.bitmask_as_newick_string(0), ns.bitmask_as_newick_string(3)
        parts = (unhex6(answer) or "").split("|")
        got = None
        if len(parts) == 7:
            got = (parts[0] + parts[1].join(["a", "b", "c"]) + parts[2], parts[3] + parts[4].join(["a", "b"]) + parts[5] + parts[4].join(["c"]) + parts[6])
        return got == (flat, sides), repr((flat, sides))
    if ws[0] == "kall":
        ns = dendropy.TaxonNamespace(["t%d" % i for i in range(int(ws[1]))])
        want = str(ns.all_taxa_bitmask())
    elif ws[0] == "ktb":
        i = int(ws[1])
        ns = dendropy.TaxonNamespace(["t%d" % j for j in range(i + 1)])
        want = str(ns.taxon_bitmask(ns[i]))
    elif ws[0] == "kbits":
        ns = dendropy.TaxonNamespace(["t%d" % i for i in range(int(ws[2]))])
        want = hex6(ns.bitmask_as_bitstring(int(ws[1])))
    elif ws[0] == "kbtlrun":
        m = int(ws[1])
        ns = dendropy.TaxonNamespace(["t%d" % i for i in range(m.bit_length())])
        want = ",".join(str(ns.accession_index(t)) for t in ns.bitmask_taxa_list(m))
    elif ws[0] == "knwk":
        split, allm, bm = int(ws[1]), int(ws[2]), int(ws[3])
        c, i = allm.bit_length(), bm.bit_length() - 1
        ns = dendropy.TaxonNamespace(["t%d" % j for j in range(c)])
        p = parse_newick_groups(ns.bitmask_as_newick_string(split))
        if p is None:
            return False, "unparsable rendering"
        if p[0] == "flat":
            return answer.startswith("true "), "true *"
        want = "false " + ("true" if ("b", "t%d" % i) in p[1] else "false")
    else:
        raise ValueError("unknown kernel line %r" % line)
    return answer == want, want


def optional_label_functions(ctx, dendropy, rng, count):
    """the comparison kernel of _lookup_label and the token of escape_nexus_token on optional labels (label None), against the
    implementation: a one-member namespace whose member has the label `tl`, asked has_taxon_label(q)"""
    from dendropy.dataio import nexusprocessing
    pool = [None, None, "none", "None", "NONE", "nOne", "non", "", "a", "A"] + list(WIDE_LABELS[:8]) + list(BASE_LABELS[:10])
    lines, want = [], []
    for _ in range(count):
        cs, q, tl = rng.random() < 0.5, rng.choice(pool), rng.choice(pool)
        ns = dendropy.TaxonNamespace(is_case_sensitive=cs)
        ns.add_taxon(dendropy.Taxon(label=tl))
        lines.append("matcho %s %s %s" % (b01(cs), hex6(q), hex6(tl)))
        want.append(str(bool(ns.has_taxon_label(q))))
        ps, qu = rng.random() < 0.5, rng.random() < 0.5
        lines.append("esco %s %s %s" % (b01(ps), b01(qu), hex6(tl)))
        want.append(hex6(nexusprocessing.escape_nexus_token(tl, preserve_spaces=ps, quote_underscores=qu)))
    res = ctx.ask(lines)
    for line, a, m in zip(lines, want, res):
        if m is None:
            continue
        ctx.compared()
        if a != m.strip():
            ctx.disagree(line.split()[0], {"line": line}, a, m)
    ctx.count("optional_label_kernel_cases (label None on either side)", len(lines))


def kernel_functions(ctx, dendropy, rng, count):
    lines = ["kfmt"]
    sizes = [0, 1, 2, 3, 5, 8, 31, 32, 33, 63, 64, 65] + [rng.randint(0, 90) for _ in range(count)]
    for c in sizes:
        lines.append("kall %d" % c)
        for _ in range(3):
            lines.append("kbits %d %d" % (rng.randrange(0, 1 << (c + rng.choice([0, 0, 1, 3]))), c))
        if c:
            lines.append("ktb %d" % rng.randrange(c))
            lines.append("ktb %d" % (c - 1))
            lines.append("kbtlrun %d" % rng.randrange(0, 1 << c))
        if 1 <= c <= 12:
            allm = (1 << c) - 1
            for split in {0, allm, rng.randrange(0, allm + 1), rng.randrange(0, allm + 1), 1 << rng.randrange(c)}:
                lines.append("knwk %d %d %d" % (split, allm, 1 << rng.randrange(c)))
    res = ctx.ask(lines)
    for line, m in zip(lines, res):
        if m is None:
            continue
        ctx.compared()
        try:
            ok, want = kernel_check(dendropy, line, m)
        except Exception as e:  # noqa
            if not is_library_exception(e):
                raise
            ok, want = False, "the implementation raised %s: %s" % (type(e).__name__, e)
        if not ok:
            ctx.disagree("kernel:" + line.split()[0], {"line": line}, want, m)
    ctx.count("kernel_cases (Gen/C10Kernels.lean against the implementation)", len(lines))


class BitsGen(object):
    """targeted search when an obligation broke (kernel no longer extractable, bridge theorem broken): namespaces with
    removals, re-additions and reorderings, then every bit-level observer on every member and on many masks"""

    def __init__(self, rng):
        self.rng = rng
        self.plan = None
        self.pre = rng.randint(2, 9)

    def __call__(self, w, k):
        rng = self.rng
        if k == 0:
            return ["mkns", rng.random() < 0.3, [rng.choice(BASE_LABELS) for _ in range(rng.randint(2, 9))]]
        ns = w.nss[0]
        members = list(ns)
        if k <= self.pre:
            r = rng.random()
            if members and r < 0.45:
                return ["rm", 0, w.tid[id(rng.choice(members))]]
            if r < 0.52 and w.taxa:
                return ["add", 0, rng.randrange(len(w.taxa))]
            if r < 0.6 and w.taxa:
                pick = [rng.randrange(len(w.taxa)) for _ in range(rng.randint(1, 3))]
                return ["addtaxa", 0, pick + [rng.choice(pick)], rng.choice(["list", "iter"])]
            if r < 0.75:
                return ["new", 0, rng.choice(BASE_LABELS)]
            if r < 0.85:
                return ["sortk", 0, rng.choice(sorted(SORT_KEYS)), rng.random() < 0.5]
            if r < 0.92:
                return ["rev", 0]
            return ["clear", 0] if r < 0.94 else ["del", 0, 0]
        if self.plan is None:
            plan = []
            for t in members:
                tid = w.tid[id(t)]
                m = safe_bit(ns, t)
                plan += [["bm", 0, tid], ["acc", 0, tid], ["nwk", 0, m, False, True], ["btl", 0, m], ["bits", 0, m], ["tbm", 0, [tid]]]
            for _ in range(6):
                m = member_mask(rng, ns)
                sh = rng.randint(0, 3)
                plan += [["nwk", 0, m, rng.random() < 0.5, rng.random() < 0.5], ["btli", 0, m >> sh, sh], ["bits", 0, m], ["snwk", 0, m, False, True],
                         ["tbm", 0, [w.tid[id(t)] for t in members if rng.random() < 0.5]]]
            plan += [["all", 0], ["copy", 0], ["deep", 0]]
            self.plan, self.at = plan, k
        j = k - self.at
        return self.plan[j] if j < len(self.plan) else None


def search(ctx, broken):
    """an obligation broke or the model disagreed: look for an input on which the real code contradicts the statement"""
    dendropy = __import__("dendropy")
    pending = []
    n = ctx.pick(600, 4000)
    for _ in range(n):
        if ctx.failures:
            break
        run_history(ctx, dendropy, BitsGen(ctx.rng), pending, kind="search", compare=False)
    ctx.count("targeted search histories after a broken obligation / disagreement", n)


def run(ctx):
    dendropy = __import__("dendropy")
    rng = ctx.rng
    ctx.set_budget(20, 600)
    pending = []
    string_functions(ctx, dendropy, rng, ctx.pick(300, 3000))
    kernel_functions(ctx, dendropy, rng, ctx.pick(20, 200))
    optional_label_functions(ctx, dendropy, rng, ctx.pick(300, 3000))
    n_hist = ctx.pick(5000, 40000)
    max_ops = ctx.pick(30, 45)
    if ctx.tier == "thorough":
        count = 0
        for base in BASES:
            for depth in range(0, 4):
                for seq in itertools.product(SYMBOLS, repeat=depth):
                    run_history(ctx, dendropy, SymbolicGen(rng, base, seq), pending, kind="exhaustive")
                    count += 1
                    if len(pending) >= 400:
                        flush(ctx, pending)
        flush(ctx, pending)
        ctx.extra["exhaustive_small_scope"] = ("all %d sequences of <= 3 of %d symbolic mutators from %d base namespaces, each followed by "
                                               "the full observation burst" % (count, len(SYMBOLS), len(BASES)))
    # taxa without a label (label None) are outside the model: implementation and oracle only
    for _ in range(ctx.pick(300, 3000)):
        run_history(ctx, dendropy, RandomGen(rng, 20, wide=rng.random() < 0.3, nolabel=True), pending, kind="unlabelled", compare=None)
    # labels beyond Latin-1 (final sigma, dotted I, titlecase digraphs, Cyrillic, CJK, combining marks): compared with the model too
    for _ in range(ctx.pick(400, 4000)):
        run_history(ctx, dendropy, RandomGen(rng, 20, wide=True), pending, kind="wide")
        if len(pending) >= 200:
            flush(ctx, pending)
    for _ in range(n_hist):
        if ctx.out_of_time():
            break
        run_history(ctx, dendropy, RandomGen(rng, max_ops if rng.random() < 0.85 else 8), pending)
        if len(pending) >= 200:
            flush(ctx, pending)
    flush(ctx, pending)


def replay(ctx, rec):
    dendropy = __import__("dendropy")
    c = rec["replay"]
    pending = []
    if "ops" in c:
        run_history(ctx, dendropy, None, pending, fixed_ops=c["ops"], kind="replay")
        flush(ctx, pending)
    elif "line" in c:
        # a recorded disagreement of one of the two string functions (lower / esc)
        from dendropy.dataio import nexusprocessing
        ws = c["line"].split()
        from common import unhex6
        if ws[0] in ("matcho", "esco"):
            if ws[0] == "matcho":
                ns = dendropy.TaxonNamespace(is_case_sensitive=ws[1] == "1")
                ns.add_taxon(dendropy.Taxon(label=unhex6(ws[3])))
                want = str(bool(ns.has_taxon_label(unhex6(ws[2]))))
            else:
                want = hex6(nexusprocessing.escape_nexus_token(unhex6(ws[3]), preserve_spaces=ws[1] == "1", quote_underscores=ws[2] == "1"))
            got = ctx.ask([c["line"]])[0]
            if got is not None:
                ctx.compared()
                if got.strip() != want:
                    ctx.disagree(ws[0], {"line": c["line"]}, want, got)
            return
        if ws[0].startswith("k"):
            got = ctx.ask([c["line"]])[0]
            if got is not None:
                ctx.compared()
                ok, want = kernel_check(dendropy, c["line"], got)
                if not ok:
                    ctx.disagree("kernel:" + ws[0], {"line": c["line"]}, want, got)
            return
        if ws[0] == "lower":
            want = hex6(unhex6(ws[1]).lower())
        else:
            want = hex6(nexusprocessing.escape_nexus_token(unhex6(ws[3]), preserve_spaces=ws[1] == "1", quote_underscores=ws[2] == "1"))
        got = ctx.ask([c["line"]])[0]
        if got is not None:
            ctx.compared()
            if got.strip() != want:
                ctx.disagree(ws[0], {"line": c["line"]}, want, got)
