"""C08 - pruning, retaining and extracting yield exactly the induced subtree."""
import itertools
import time
from fractions import Fraction

import treeutil as tu
from common import hex6

ID = "C08"
GEN_DEPENDS = ["PyBits", "C08Kernels"]     # C08Kernels: case rule + Latin-1 fold table, wrapper filters/flags, length merge, flag defaults; the update_bipartitions part of the model re-uses C01's `encode`, which calls the generated bit functions
RULE = ("random rose trees 1-12 leaves (30 in thorough; unary nodes/chains incl. unary seed, polytomies, fixed families, None/zero/dyadic "
        "lengths, namespaces with extra and removed members, shuffled taxon->bit map) x subset K of the leaf taxa (random, exactly one, "
        "all-but-one, all, one whole clade emptied / only one clade kept) x suppress_unifurcations x update_bipartitions x 11 taxon-driven "
        "API variants (prune_taxa, prune_taxa_with_labels, retain_taxa, retain_taxa_with_labels, filter_leaf_nodes, "
        "prune_leaves_without_taxa, extract_tree_with_taxa(_labels), extract_tree_without_taxa(_labels), extract_tree) run on the same "
        "input; plus filter_leaf_nodes / extract_tree with arbitrary node-id predicates (recursive on/off, leaf/internal filter flags), "
        "HISTORIES of 2-3 operations on live objects (extract from an extract, extract after an in-place prune, custom or no reference "
        "attribute: each new node must refer to its node in the tree it was extracted from, no earlier tree may change); "
        "the four by-label entry points on namespaces where several taxa match one label (equal labels on distinct Taxon objects, labels "
        "differing only in case, case-sensitive and case-insensitive namespaces, labels given in another case or absent); "
        "prune_subtree at every kind of node, Node.extract_subtree started at any node, prune_taxa with the leaf/internal flags on trees with "
        "internal taxa; the driver's measurement functions (clade masks, leaf-to-leaf path lengths) and both specifications (restrict, "
        "restrictA) are compared with from-scratch Python walks; sources carry tree/edge/node labels and a weight. thorough adds every "
        "subset of every ordered shape <= 5 leaves and of every unordered shape with 6 and 7 leaves. Non-trivial = 1 < |K| < n "
        "(taxon group) or a predicate that removes some but not all leaves. ext-3: by-label cases draw labels from three alphabets "
        "(ASCII; Latin-1 letters with/without case partner incl. sharp s, micro sign, multiplication sign; beyond code point 255, where the "
        "driver must answer out-of-range and only the oracle judges); calls that OMIT suppress_unifurcations/update_bipartitions/recursive "
        "(declared defaults); prune_leaves_without_taxa recursive and single-pass on trees whose leaves lost taxa; prune_taxa_with_labels "
        "with the two filter flags; extract_tree with node_filter_fn=None / tree_factory / node_factory (types of the new tree and nodes); "
        "prune_subtree(seed) -> TypeError and prune_subtree(None) -> ValueError with the tree untouched; every extract_tree case is also run on the "
        "model's object store (op extractheap: tree read back from the store + source cells unchanged)")
MODELLED_NOT_VERIFIED = [
    "C08: prune_taxa / prune_leaves_without_taxa / filter_leaf_nodes / retain_taxa / prune_subtree / Node.extract_subtree / "
    "TaxonNamespace.get_taxa (label lookup of the *_with_labels variants) / the update_bipartitions re-encoding (C01's encode) are "
    "hand-modelled (lean/DendroModel/Model/{C08,C08Upd}.lean: strike, dropLoop, T.sup, cut, exStep over the post-order sequence with a memo, "
    "lookupLabel/addNew/getTaxa, reencode) and tied to the code by the per-case comparison of the resulting trees (node identity, order, "
    "taxa, exact lengths), removed-node sets, exception kinds and (leafset, split) encodings",
    "C08: case folding of labels: the fold METHOD (str.lower on both the given and the stored label, cache reset on relabel) is read off the source "
    "and its table for code points 0..255 is taken from the running interpreter on every run (Gen/C08Kernels.lean; the model folds with that "
    "table; fold_table_is_latin1_lower proves it is the closed-form Latin-1 lower-casing); above 255 the model claims nothing (driver: "
    "out-of-range; oracle only). Source immutability is a theorem about the object-store model (extract_frame / extract_result_is_new, "
    "Model/C08Heap.lean); that the store model behaves like the code is the per-case comparison of op extractheap; the functional "
    "extractTree and the store model are proved equal for suppress_unifurcations=False (extract_store_eq_functional_nosup) and tied only "
    "through those comparisons for suppress_unifurcations=True (in-place length updates: needs 'memo entries are read once' and 'the stray "
    "nd1 write only hits clones that never reach the result'). Node "
    "labels/annotations are checked by the harness only; filter functions are represented by the set of node ids / "
    "taxa they accept; update_bipartitions=True is exercised on all three rooting states for prune_taxa(_with_labels on unique labels), "
    "retain_taxa, filter_leaf_nodes and prune_subtree (unrooted: the oracle expects the induced subtree with its basal bifurcation "
    "collapsed, checks path lengths, leafset and split bitmasks from scratch); the multi-match by-label cases and "
    "prune_leaves_without_taxa now too (bylabelupd / upd … filter hastaxon); prune_taxa with taxa on internal nodes is judged against an "
    "independent two-phase description for all four flag settings ((0,1): a node goes iff it carries a pruned taxon and one of its children stays)",
]
EXPLANATION = ("Theorems over all trees/predicates about the definitions drv_c08 runs. Mechanism = specification: prune_eq_restrict, "
               "prune_flags_eq_spec (only the loop half has a specification; the strike pass stands for itself) / prune_internal_flag_eq_restrict, filter_eq_restrict, filter_eq_restrictA / "
               "removed_spec_any / dropLoop_fuel / filter_once_spec (arbitrary filters, fuel, non-recursive), retain_eq_prune_compl, "
               "extract_eq_restrict / extract_flags_eq_spec / extract_error_kind (memo fold = spec for both filter flags, with the exception "
               "class), extract_node_eq_restrict / extract_node_flags_eq_spec (any start node), prune_subtree_eq_restrict, variants_agree; "
               "by label: get_taxa_spec, named_iff_label, labels_variants_eq_restrict, labels_prune_retain_agree; update_bipartitions: "
               "upd_eq_fresh_encoding (by the model's construction: in-place routine then C01 encode), upd_rooted_encoding, upd_rooted_leafsets, "
               "upd_subtree_rooted, upd_not_rooted / collapse_keeps_leafset_drops_one_clade / upd_leafsets_any_rooting (unrooted: basal collapse, "
               "leafset kept, listed leafsets are restrictions). Driver inputs: checked_input_ok (distinct ids enforced by the input guard, "
               "well-formed lengths derived). About the specification: exSpec_eq_restrict_of_accepting_inner, extract_wrapper_filter_internal_flag, "
               "restrict_sup_commutes, restrict_clades, restrict_none_clades, restrict_pathlen, restrict_rootlen, distF_denotes, "
               "restrict_pathlen_exec, restrict_pathlen_parsed (no side condition: parsed_lengths_wf, restrict_lengths_wf), alive_spec, "
               "nosuppress_nodes, nosuppress_edges, nosuppress_spec, suppress_no_unary, removed_spec, single_survivor, restrictA_eq_restrict, "
               "exSpec_without_internal_filter. Hypotheses where stated: taxa on leaves only, taxon-driven filters, distinct node ids. "
               "Last round: parseTree_ids_nodup / checked_guard_never_fires / extract_flags_parsed (distinct ids derived for driver inputs via "
               "the C15 analysis of buildTree), allIn_spec / strike_default_spec / strike_eq_strikeSpec / prune_flags_full_spec (independent "
               "description of prune_taxa's first pass on trees with internal taxa for three of the four flag settings), labels_upd_eq, "
               "plwt_upd_eq (by label and prune_leaves_without_taxa with update_bipartitions, any rooting). "
               "ext-3: upd_unrooted_encoding / upd_unrooted_calls / upd_subtree_unrooted (not rooted: result tree = induced subtree with the basal "
               "bifurcation collapsed and nothing else, full (leafset, split) list in closed form on naturals), upd_encoding_is_fresh (any rooting: "
               "re-encoding the result again changes neither tree nor list), collapse_basal_idempotent; extract_frame / extract_result_is_new "
               "(object-store model of Node.extract_subtree with every write of the loop incl. the stray nd1 write: old objects unchanged, no "
               "AttributeError, result made of new objects each with a source reference); tie A bridges to Gen/C08Kernels: "
               "fold_table_is_latin1_lower, fold_ascii_is_toLower, labelMatch_equiv, labelMatch_spec, merge_kernels_are_addLen, "
               "wrapper_kernels_are_taxonFilter, wrappers_regenerated_eq_restrict, defaults_as_modelled, defaults_cover. "
               "wave 2: strike_leaf_off_internal_on / prune_taxa_every_flag_setting (prune_taxa with leaf flag off + internal flag on: a node goes "
               "iff it carries a pruned taxon and one of its children stays; strikeSpec now covers all four flag settings and the harness judges "
               "the code against a from-scratch version of it), restrict_composes / prune_subtree_twice (a call with suppression declined followed "
               "by a default call = one restriction of the original tree; no unary node survives). "
               "Harness only: source immutability across histories of operations on live objects, node/edge labels, types produced by "
               "tree_factory/node_factory, labels beyond code point 255. wave 3: extract_store_eq_functional_nosup (any store that holds the source tree, any filter, both "
               "filter flags, suppress_unifurcations=False: the object-store loop extractHeap ends with the same exception as the functional "
               "extractTree or with a start address at which the store holds, object for object, the tree extractTree returns). With "
               "suppress_unifurcations=True the two models are tied by the per-case comparison of op extractheap only.")


ROOT = {True: "R", False: "U", None: "N"}
UNROOT = {"R": True, "U": False, "N": None}


# =================================================================== independent specification on the token arrays
class Src(object):
    """the input tree as plain arrays (never touches dendropy)"""

    def __init__(self, toks):
        n = int(toks[0])
        self.n = n
        self.par = [int(x) for x in toks[1:1 + n]]
        self.tax = [None if x == "-" else int(x) for x in toks[1 + n:1 + 2 * n]]
        self.len = [None if x == "N" else Fraction(x) for x in toks[1 + 2 * n:1 + 3 * n]]
        self.kids = [[] for _ in range(n)]
        self.root = None
        for i, p in enumerate(self.par):
            if p < 0:
                self.root = i
            else:
                self.kids[p].append(i)
        self.leaves = [i for i in range(n) if not self.kids[i]]

    def subtree(self, v):
        """the same arrays seen from node v as root"""
        import copy
        o = copy.copy(self)
        o.par = list(self.par)
        o.par[v] = -1
        o.root = v
        inside = set(self.below(v))
        o.leaves = [i for i in self.leaves if i in inside]
        return o

    def below(self, i):
        out, stack = [], [i]
        while stack:
            v = stack.pop()
            out.append(v)
            stack.extend(self.kids[v])
        return out

    def postorder(self):
        out, stack = [], [(self.root, False)]
        while stack:
            v, done = stack.pop()
            if done:
                out.append(v)
            else:
                stack.append((v, True))
                for c in reversed(self.kids[v]):
                    stack.append((c, False))
        return out


def addlen(child, parent):
    """`child.length += parent.length` with None meaning 'no length'"""
    if parent is None:
        return child
    if child is None:
        return parent
    return child + parent


def build_from_survivors(src, surv, sup):
    """nested (id, taxon, length, [children]) over the surviving node set (closed towards the root);
    with sup every node left with exactly one child is replaced by that child, which absorbs its length"""
    if src.root not in surv:
        return None
    res = {}
    for v in src.postorder():
        if v not in surv:
            continue
        kids = [res[c] for c in src.kids[v] if c in surv]
        if sup and len(kids) == 1:
            k = kids[0]
            res[v] = (k[0], k[1], addlen(k[2], src.len[v]), k[3])
        else:
            res[v] = (v, src.tax[v], src.len[v], kids)
    return res[src.root]


def survivors_induced(src, kept_leaves):
    """a node survives iff a kept leaf is at or below it"""
    surv = set()
    for lf in kept_leaves:
        v = lf
        while v >= 0 and v not in surv:
            surv.add(v)
            v = src.par[v]
    return surv


def survivors_filter_leaves(src, acc, recursive):
    """filter_leaf_nodes by its docstring: leaves failing the filter go; recursively, a node that became a leaf is asked too"""
    if not recursive:
        return set(range(src.n)) - {i for i in src.leaves if i not in acc}
    surv = set()
    for v in src.postorder():
        if not src.kids[v]:
            ok = v in acc
        else:
            ok = any(c in surv for c in src.kids[v]) or v in acc
        if ok:
            surv.add(v)
    return surv


def survivors_extract(src, acc, fl, fi):
    """extract_tree by its docstring: filtered nodes are excluded with everything below them; internal nodes left without children go.
    returns (survivor set, status)"""
    surv = set()
    status = "ok"
    for v in src.postorder():
        leaf = not src.kids[v]
        if (fl if leaf else fi) and v not in acc:
            if v == src.root:
                status = "ValueError"
            continue
        if leaf or any(c in surv for c in src.kids[v]):
            surv.add(v)
        elif v == src.root:
            status = "SeedNodeDeletion"
    # a survivor below an excluded internal node is cut off with it
    reach, stack = set(), [src.root] if src.root in surv else []
    while stack:
        v = stack.pop()
        reach.add(v)
        stack.extend(c for c in src.kids[v] if c in surv)
    return reach, status


def collapse_nest(t):
    """what re-encoding an UNROOTED tree does to a basal bifurcation (update_bipartitions / encode_bipartitions documented
    default): the seed's second child is dissolved if it is internal, else the first if it is internal; the dissolved node's
    children take its place and its edge length goes to the kept sibling"""
    if t is None or len(t[3]) != 2:
        return t
    a, b = t[3]
    if len(b[3]) >= 2:
        return (t[0], t[1], t[2], [(a[0], a[1], addlen(a[2], b[2]), a[3])] + list(b[3]))
    if len(a[3]) >= 2:
        return (t[0], t[1], t[2], list(a[3]) + [(b[0], b[1], addlen(b[2], a[2]), b[3])])
    return t


def sort_nest(t):
    if t is None:
        return None
    return (t[0], t[1], t[2], [sort_nest(c) for c in sorted(t[3], key=lambda c: (c[0] is None, c[0] or 0))])


def render_nest(t):
    if t is None:
        return "none"
    return "(%s %s %s%s)" % ("*" if t[0] is None else t[0], "-" if t[1] is None else t[1], tu.frac(t[2]),
                             "".join(" " + render_nest(c) for c in t[3]))


def nest_ids(t):
    out = [t[0]]
    for c in t[3]:
        out.extend(nest_ids(c))
    return out


# =================================================================== observation of real trees
def nest_of(seed, idfn, tns):
    """nested (id, taxon bit, Fraction length, [children]) of a real tree, by a plain walk over _child_nodes"""
    def go(nd, depth):
        if depth > 400:
            raise RuntimeError("cycle")
        ln = nd.edge.length
        return (idfn(nd), None if nd.taxon is None else tns.accession_index(nd.taxon),
                None if ln is None else Fraction(ln), [go(c, depth + 1) for c in nd._child_nodes])
    return go(seed, 0)


def fingerprint(tree):
    out = [id(tree.seed_node), tree.is_rooted, id(tree.taxon_namespace), tree.label, tree.weight]
    for nd in tu.walk(tree.seed_node):
        e = nd.edge
        out.append((id(nd), id(nd.parent_node), tuple(id(c) for c in nd.child_node_iter()), id(nd.taxon), e.length,
                    nd.label, id(e), id(e.head_node), id(e.tail_node), e.label, getattr(nd, "extraction_source", None)))
    out.append(tuple(id(t) for t in tree.taxon_namespace))
    return out


def make_tree(dendropy, case, toks=None):
    ns = case["ns"]
    tns = dendropy.TaxonNamespace(["t%d" % i for i in range(ns["count"])])
    keep = set(ns["bits"])
    for t in list(tns):
        if tns.accession_index(t) not in keep:
            tns.remove_taxon(t)
    order = {b: i for i, b in enumerate(ns["bits"])}
    tns._taxa.sort(key=lambda t: order[tns.accession_index(t)])
    tree, ids = tu.tree_from_tokens(dendropy, toks or case["tree"], rooted=UNROOT[case["rooted"]], tns=tns)
    tree.label = "src"
    tree.weight = 2.0
    tree.length_type = "x"
    for i in range(len(ids)):
        if i % 3 == 1:
            ids.node(i).edge.label = "e%d" % i
        if i % 4 == 2:
            ids.node(i).label = "n%d" % i
    return tree, ids


def exc_name(e):
    n = type(e).__name__
    return {"SeedNodeDeletionException": "SeedNodeDeletion"}.get(n, n)


# =================================================================== variants of the taxon group
TAXON_VARIANTS = ["prune_taxa", "prune_taxa_with_labels", "retain_taxa", "retain_taxa_with_labels", "filter_leaf_nodes",
                  "prune_leaves_without_taxa", "extract_tree_with_taxa", "extract_tree_with_taxa_labels",
                  "extract_tree_without_taxa", "extract_tree_without_taxa_labels", "extract_tree"]
INPLACE = set(TAXON_VARIANTS[:6])


def nums(xs):
    xs = list(xs)
    return "%d%s" % (len(xs), "".join(" %d" % x for x in xs))


def run_taxon_variant(dendropy, case, variant):
    """runs one API variant on a fresh copy of the input. returns dict(tree, idfn, removed, source, fp_before, line, toks)"""
    toks = case["tree"]
    src = Src(toks)
    K = set(case["K"])
    sup, upd = case["sup"], case["upd"]
    leafbits = [src.tax[i] for i in src.leaves]
    P = [b for b in leafbits if b not in K] + list(case.get("P_extra", []))
    Kx = sorted(K) + list(case.get("K_extra", []))
    if variant == "prune_leaves_without_taxa":
        # the same question asked through taxon-less leaves: leaves outside K lose their taxon first
        n = src.n
        toks = list(toks)
        for i in src.leaves:
            if src.tax[i] not in K:
                toks[1 + n + i] = "-"
    tree, ids = make_tree(dendropy, case, toks)
    tns = tree.taxon_namespace
    by_bit = {tns.accession_index(t): t for t in tns}
    out = {"removed": None, "source": None, "toks": toks}
    kw = dict(update_bipartitions=upd, suppress_unifurcations=sup)
    xkw = dict(suppress_unifurcations=sup)
    if case.get("omit_defaults") and sup and not upd:
        kw, xkw = {}, {}       # rely on the declared defaults (suppress on, update off, recursive on; bridged by defaults_as_modelled)
    ttoks = " ".join(toks)
    if variant == "prune_taxa":
        tree.prune_taxa([by_bit[b] for b in P], **kw)
        out["line"] = "prune %d 1 0 %s %s" % (sup, nums(P), ttoks)
    elif variant == "prune_taxa_with_labels":
        tree.prune_taxa_with_labels(["t%d" % b for b in P], **kw)
        out["line"] = "prune %d 1 0 %s %s" % (sup, nums(P), ttoks)
    elif variant == "retain_taxa":
        tree.retain_taxa([by_bit[b] for b in Kx], **kw)
        out["line"] = "retain %d %s %s %s" % (sup, nums(case["ns"]["bits"]), nums(Kx), ttoks)
    elif variant == "retain_taxa_with_labels":
        tree.retain_taxa_with_labels(["t%d" % b for b in Kx], **kw)
        out["line"] = "retain %d %s %s %s" % (sup, nums(case["ns"]["bits"]), nums(Kx), ttoks)
    elif variant == "filter_leaf_nodes":
        kt = set(by_bit[b] for b in Kx)
        out["removed"] = tree.filter_leaf_nodes(lambda nd: nd.taxon in kt, **(dict(kw, recursive=True) if kw else {}))
        out["line"] = "filter %d 1 keep %s %s" % (sup, nums(Kx), ttoks)
    elif variant == "prune_leaves_without_taxa":
        out["removed"] = tree.prune_leaves_without_taxa(**(dict(kw, recursive=True) if kw else {}))
        out["line"] = "plwt %d 1 %s" % (sup, ttoks)
    else:
        out["source"] = tree
        out["fp_before"] = fingerprint(tree)
        if variant == "extract_tree_with_taxa":
            res = tree.extract_tree_with_taxa([by_bit[b] for b in Kx], **xkw)
            out["line"] = "extract %d 1 0 taxa %s %s" % (sup, nums(Kx), ttoks)
        elif variant == "extract_tree_with_taxa_labels":
            res = tree.extract_tree_with_taxa_labels(["t%d" % b for b in Kx], **xkw)
            out["line"] = "extract %d 1 0 taxa %s %s" % (sup, nums(Kx), ttoks)
        elif variant == "extract_tree_without_taxa":
            res = tree.extract_tree_without_taxa([by_bit[b] for b in P], **xkw)
            out["line"] = "extract %d 1 0 nottaxa %s %s" % (sup, nums(P), ttoks)
        elif variant == "extract_tree_without_taxa_labels":
            res = tree.extract_tree_without_taxa_labels(["t%d" % b for b in P], **xkw)
            out["line"] = "extract %d 1 0 nottaxa %s %s" % (sup, nums(P), ttoks)
        else:
            kt = set(by_bit[b] for b in Kx)
            res = tree.extract_tree(node_filter_fn=lambda nd: nd.taxon is None or nd.taxon in kt, **xkw)
            out["line"] = "extract %d 1 0 taxa %s %s" % (sup, nums(Kx), ttoks)
        out["tree"] = res
        out["idfn"] = lambda nd: ids.of(getattr(nd, "extraction_source", None))
        out["ids"] = ids
        return out
    out["tree"] = tree
    out["idfn"] = ids.of
    out["ids"] = ids
    return out


# =================================================================== the oracle
def clause_checks(ctx, what, case, src, surv_leaves, res_tree, sup, fail):
    """clauses (a) and (c) evaluated directly on the real result by from-scratch walks"""
    tns = res_tree.taxon_namespace
    # (a) clades of the result = non-empty restrictions of the source clades
    Kmask = 0
    for i in surv_leaves:
        if src.tax[i] is not None:
            Kmask |= 1 << src.tax[i]
    smask = {}
    for v in reversed(range(src.n)):          # ids are pre-order numbers: children have larger ids
        smask[v] = (1 << src.tax[v]) if (not src.kids[v] and src.tax[v] is not None) else 0
        for c in src.kids[v]:
            smask[v] |= smask[c]
    want = set(m & Kmask for m in smask.values()) - {0}
    got = set(tu.leafset_masks(res_tree).values())
    if case.get("_collapsed"):
        # an unrooted tree re-encoded by update_bipartitions: the clade of the dissolved basal child (one clade) may be missing
        if not (got <= want and len(want - got) <= 1):
            return fail("clades", "%s: clades of the re-encoded unrooted result %s, non-empty restrictions of the source clades %s" % (
                what, sorted(got), sorted(want)))
    elif got != want:
        return fail("clades", "%s: clades of the result %s, non-empty restrictions of the source clades %s" % (what, sorted(got), sorted(want)))
    # (c) path lengths between surviving leaves unchanged (None counts as no length)
    depth = {}
    for v in range(src.n):
        p = src.par[v]
        depth[v] = (depth[p] if p >= 0 else Fraction(0)) + (src.len[v] if (src.len[v] is not None and p >= 0) else Fraction(0))
    anc = {}
    for v in surv_leaves:
        chain, w = [], v
        while w >= 0:
            chain.append(w)
            w = src.par[w]
        anc[v] = chain
    got_paths = tu.leaf_paths(res_tree)
    bit_leaf = {src.tax[i]: i for i in surv_leaves if src.tax[i] is not None}
    lab = lambda i: "t%d" % src.tax[i]
    sl = [i for i in surv_leaves if src.tax[i] is not None]
    for a, b in itertools.combinations(sl, 2):
        sa = set(anc[a])
        m = next(w for w in anc[b] if w in sa)
        d = depth[a] + depth[b] - 2 * depth[m]
        g = got_paths.get(frozenset((lab(a), lab(b))))
        if g is None or g[0] != d:
            return fail("pathlen", "%s: path length between t%d and t%d is %s in the result, %s in the source" % (
                what, src.tax[a], src.tax[b], None if g is None else g[0], d))
    return False


def judge(ctx, case, variant, src, surv, out, expect_removed=None):
    """evaluate the statement on one variant's output; returns True when a failure was reported"""
    failed = []

    def fail(kind, what):
        rep = dict(case, variant=variant)
        ctx.fail(kind, what, rep)
        failed.append(kind)
        return True
    sup = case["sup"]
    res = out["tree"]
    tns = res.taxon_namespace
    want = build_from_survivors(src, surv, sup)
    if case.get("upd") and out.get("source") is None and case.get("rooted") != "R":
        w2 = collapse_nest(want)
        if w2 != want:
            case = dict(case, _collapsed=True)
            ctx.count("update_bipartitions-collapsed-basal-bifurcation")
        want = w2
    got = nest_of(res.seed_node, out["idfn"], tns)
    out["nest"] = got
    if res.seed_node._parent_node is not None:
        return fail("structure", "%s: the seed node of the result has a parent" % variant)
    probs = tu.arborescence_problems(res)
    if probs:
        return fail("structure", "%s: result is not a well-formed tree: %s" % (variant, probs))
    if out.get("source") is not None:
        srcn = set(id(n) for n in tu.walk(out["source"].seed_node))
        a = out.get("attr", "extraction_source")
        for nd in tu.walk(res.seed_node):
            es = getattr(nd, a, None)
            if es is None or id(es) not in srcn:
                return fail("extraction-source", "%s: the %s reference of a new node is not a node of the tree it was extracted from" % (variant, a))
    if sort_nest(got) == sort_nest(want) and got != want:
        return fail("child-order", "%s: the children of a node come in another order than in the source: result %s, induced subtree %s" % (
            variant, render_nest(got), render_nest(want)))
    if sort_nest(got) != sort_nest(want):
        w, g = render_nest(sort_nest(want)), render_nest(sort_nest(got))
        kind = "induced-subtree"
        if len(surv) and sup and len([i for i in surv if not src.kids[i]]) == 1:
            kind = "single-survivor"
        elif not sup and sort_nest(got) == sort_nest(build_from_survivors(src, surv, True)):
            kind = "suppression-declined-by-extraction" if out.get("source") is not None else "suppression-declined"
        elif sup and sort_nest(got) == sort_nest(build_from_survivors(src, surv, False)):
            kind = "suppression-requested"
        return fail(kind, "%s(suppress_unifurcations=%s, update_bipartitions=%s): result %s, induced subtree (id taxon length children) is %s" % (
            variant, sup, case.get("upd"), g, w))
    surv_leaves = [i for i in surv if not any(c in surv for c in src.kids[i])]
    if case.get("clause_checks", True):
        if clause_checks(ctx, variant, case, src, surv_leaves, res, sup, fail):
            return True
    if out.get("source") is not None:
        s = out["source"]
        if fingerprint(s) != out["fp_before"]:
            return fail("source-mutated", "%s changed the source tree" % variant)
        if res is s or res.seed_node is s.seed_node:
            return fail("source-mutated", "%s returned the source tree itself" % variant)
        srcnodes = set(id(n) for n in tu.walk(s.seed_node))
        for nd in tu.walk(res.seed_node):
            es = getattr(nd, out.get("attr", "extraction_source"), None)
            if es is None or id(es) not in srcnodes:
                return fail("extraction-source", "%s: the %s reference of a new node is not a node of the tree it was extracted from" % (
                    variant, out.get("attr", "extraction_source")))
            if id(nd) in srcnodes:
                return fail("source-mutated", "%s: the extracted tree shares a node object with the source" % variant)
            if es.taxon is not nd.taxon or es.label != nd.label or es.edge.label != nd.edge.label:
                return fail("extraction-source", "%s: a new node differs from its extraction_source in taxon, label or edge label" % variant)
        if out.get("tree_level", True) and (res.taxon_namespace is not s.taxon_namespace or res.is_rooted != s.is_rooted
                                            or res.label != s.label or res.weight != s.weight or res.length_type != s.length_type):
            return fail("extraction-source", "%s: extracted tree differs from the source in namespace, rooting, label, weight or length_type" % variant)
    if out.get("removed") is not None:
        ids = out["ids"]
        rem = [ids.of(n) for n in out["removed"]]
        want_rem = sorted(set(range(src.n)) - surv) if expect_removed is None else sorted(expect_removed)
        if sorted(rem) != want_rem:
            return fail("removed-nodes", "%s reported removed nodes %s, the removed ones are %s" % (variant, sorted(rem), want_rem))
        out["removed_ids"] = sorted(rem)
    if case.get("upd") and out.get("source") is None:
        enc = res.bipartition_encoding
        masks = sorted(tu.leafset_masks(res).values())
        got_enc = None if enc is None else sorted(b.leafset_bitmask for b in enc)
        if got_enc != masks:
            return fail("bipartitions", "%s(update_bipartitions=True): encoding leafsets %s, clades of the resulting tree %s" % (variant, got_enc, masks))
        L = max(masks) if masks else 0
        low = L & -L
        for b in enc:
            m = b.leafset_bitmask
            ws = m if case.get("rooted") == "R" else ((L & ~m) if (m & low) else m)
            if L and b.split_bitmask != ws:
                return fail("bipartitions", "%s(update_bipartitions=True): split bitmask %s for leafset %d on tree leafset %d (rooting %s), expected %d" % (
                    variant, b.split_bitmask, m, L, case.get("rooted"), ws))
    return False


def upd_text(out):
    """tree | sorted leafset:split pairs of tree.bipartition_encoding (what update_bipartitions=True leaves behind)"""
    enc = out["tree"].bipartition_encoding or []
    pairs = sorted((b.leafset_bitmask, b.split_bitmask) for b in enc)
    return render_nest(out["nest"]) + " | " + " ".join("%d:%d" % p for p in pairs)


def impl_text(out):
    s = render_nest(out["nest"])
    if out.get("removed") is not None:
        s += " | " + " ".join(str(i) for i in out.get("removed_ids", []))
    return s


def taxon_group(ctx, dendropy, case, pending, variants=None):
    """one input (tree, K, flags) through every taxon-driven variant; all must equal the induced subtree (hence agree)"""
    src = Src(case["tree"])
    K = set(case["K"])
    kept = [i for i in src.leaves if src.tax[i] in K]
    surv = survivors_induced(src, kept)
    nontriv = 1 < len(kept) < len(src.leaves)
    for variant in (variants or TAXON_VARIANTS):
        if variant not in INPLACE and case["upd"]:
            continue  # extraction has no update_bipartitions argument
        ctx.case(["taxa", case["tree"], case["K"], case["sup"], case["upd"], variant], nontriv, kind=variant,
                 sample=dict(case, variant=variant))
        try:
            out = run_taxon_variant(dendropy, case, variant)
        except RecursionError:
            raise
        except Exception as e:
            ctx.fail("exception", "%s raised %s: %s" % (variant, type(e).__name__, str(e)[:200]), dict(case, variant=variant))
            continue
        try:
            bad = judge(ctx, case, variant, src, surv, out)
        except RuntimeError:
            ctx.fail("structure", "%s: result contains a cycle" % variant, dict(case, variant=variant))
            continue
        if not bad:
            inpl_upd = case["upd"] and out.get("source") is None
            if not (inpl_upd and case["rooted"] != "R"):
                pending.append((out["line"], dict(case, variant=variant), impl_text(out)))     # the plain op knows no re-encoding
            if variant in ("extract_tree_with_taxa", "extract_tree_without_taxa_labels"):
                pending.append(("extractheap" + out["line"][len("extract"):], dict(case, variant=variant + "-on-store"),
                                impl_text(out) + " | source-intact"))
            if inpl_upd and out["line"].split()[0] == "plwt":
                w = out["line"].split()
                pending.append(("upd %s %s filter hastaxon %s" % (case["rooted"], w[1], " ".join(w[3:])),
                                dict(case, variant=variant + "+update_bipartitions"), upd_text(out)))
            if inpl_upd and out["line"].split()[0] in ("prune", "retain", "filter"):
                w = out["line"].split()
                rest = w[4:] if w[0] == "prune" else (w[3:] if w[0] == "filter" else w[2:])
                pending.append(("upd %s %s %s %s" % (case["rooted"], w[1], w[0], " ".join(rest)),
                                dict(case, variant=variant + "+update_bipartitions"), upd_text(out)))
    if len(src.leaves) <= 14 and case.get("measure", True):
        measure_line(ctx, dendropy, case, src, pending)
    # the specification of the model itself against this oracle's induced subtree
    want = build_from_survivors(src, surv, case["sup"])
    pending.append(("restrict %d keep %s %s" % (case["sup"], nums(sorted(K)), " ".join(case["tree"])),
                    dict(case, variant="restrict-spec"), render_nest(want)))


def measure_line(ctx, dendropy, case, src, pending):
    """the measurement functions of the clause theorems (clade masks, leaf-to-leaf path lengths) as the driver computes them,
    against from-scratch walks over the real source tree"""
    tree, ids = make_tree(dendropy, case)
    masks = sorted(tu.leafset_masks(tree).values())
    paths = tu.leaf_paths(tree)
    leaves = [i for i in src.leaves if src.tax[i] is not None]
    parts = []
    if len(leaves) == len(src.leaves):
        for a in src.leaves:
            for b in src.leaves:
                if a < b:
                    d = paths[frozenset(("t%d" % src.tax[a], "t%d" % src.tax[b]))][0]
                    parts.append("%d:%d:%s" % (a, b, tu.frac(d)))
        pending.append(("measure " + " ".join(case["tree"]), dict(case, variant="measure"),
                        " ".join(map(str, masks)) + " | " + " ".join(parts)))


# =================================================================== predicate group: arbitrary filters, prune_subtree, flags
def filter_case(ctx, dendropy, case, pending):
    """filter_leaf_nodes with an arbitrary node-id predicate"""
    src = Src(case["tree"])
    acc = set(case["acc"])
    rec = case["recursive"]
    surv = survivors_filter_leaves(src, acc, rec)
    line = "filter %d %d ids %s %s" % (case["sup"], rec, nums(sorted(acc)), " ".join(case["tree"]))
    nleaf_rej = len([i for i in src.leaves if i not in acc])
    ctx.case(["filter", case["tree"], sorted(acc), rec, case["sup"], case["upd"], case.get("via")], 0 < nleaf_rej < len(src.leaves),
             kind=("prune_leaves_without_taxa-%s" % ("recursive" if rec else "single-pass")) if case.get("via") == "plwt" else "filter_leaf_nodes-ids",
             sample=case)
    tree, ids = make_tree(dendropy, case)
    expect_err = src.root not in surv
    plwt = case.get("via") == "plwt"
    if plwt:
        # prune_leaves_without_taxa(recursive on/off): the filter "has a taxon"; acc was generated as the nodes that carry one
        line = "plwt %d %d %s" % (case["sup"], rec, " ".join(case["tree"]))
    try:
        if plwt:
            removed = tree.prune_leaves_without_taxa(recursive=rec, update_bipartitions=case["upd"], suppress_unifurcations=case["sup"])
        else:
            removed = tree.filter_leaf_nodes(lambda nd: ids.of(nd) in acc, recursive=rec, update_bipartitions=case["upd"],
                                             suppress_unifurcations=case["sup"])
    except Exception as e:
        name = exc_name(e)
        if plwt and expect_err and name in ("AttributeError", "SeedNodeDeletion"):
            pending.append((line, case, "err"))     # nothing survives: outside the quantifier; crash or refusal both compared with "err"
        elif expect_err and name == "SeedNodeDeletion":
            pending.append((line, case, "err"))
        elif expect_err:
            ctx.fail("exception", "filter_leaf_nodes that would delete the seed raised %s instead of SeedNodeDeletionException" % name, case)
        else:
            ctx.fail("exception", "filter_leaf_nodes raised %s: %s" % (name, str(e)[:200]), case)
        return
    if expect_err:
        ctx.fail("induced-subtree", "filter_leaf_nodes removed every leaf (the seed included) without SeedNodeDeletionException", case)
        return
    out = {"tree": tree, "idfn": ids.of, "ids": ids, "removed": removed}
    # a node that became a leaf and passes the filter stays as a (taxon-less) leaf: clause checks on taxa only make sense when
    # the surviving leaves are original leaves
    c2 = dict(case, clause_checks=all(not src.kids[i] for i in surv if not any(c in surv for c in src.kids[i])))
    if not judge(ctx, c2, "prune_leaves_without_taxa" if plwt else "filter_leaf_nodes", src, surv, out):
        if not (case["upd"] and case["rooted"] != "R"):
            pending.append((line, case, impl_text(out)))
        if rec and case["upd"] and not plwt:
            pending.append(("upd %s %d filter ids %s %s" % (case["rooted"], case["sup"], nums(sorted(acc)), " ".join(case["tree"])),
                            dict(case, variant="filter_leaf_nodes+update_bipartitions"), upd_text(out)))
    if rec:
        # the model's generalised specification against this oracle's survivors
        pending.append(("restrictA %d ids %s %s" % (case["sup"], nums(sorted(acc)), " ".join(case["tree"])),
                        dict(case, variant="restrictA-spec"), render_nest(build_from_survivors(src, surv, case["sup"]))))


def extract_case(ctx, dendropy, case, pending):
    """extract_tree with an arbitrary node-id predicate and both filter flags"""
    src = Src(case["tree"])
    acc = set(case["acc"])
    fl, fi = case["fl"], case["fi"]
    surv, status = survivors_extract(src, acc, fl, fi)
    line = "extract %d %d %d ids %s %s" % (case["sup"], fl, fi, nums(sorted(acc)), " ".join(case["tree"]))
    ctx.case(["extract", case["tree"], sorted(acc), fl, fi, case["sup"]], 1 < len(surv) < src.n, kind="extract_tree-ids", sample=case)
    # the model's two-flag specification against this oracle's survivors
    pending.append(("exspec %d %d %d ids %s %s" % (case["sup"], fl, fi, nums(sorted(acc)), " ".join(case["tree"])),
                    dict(case, variant="exspec"),
                    render_nest(build_from_survivors(src, surv, case["sup"])) if status == "ok" else "none"))
    tree, ids = make_tree(dendropy, case)
    fp = fingerprint(tree)
    try:
        res = tree.extract_tree(node_filter_fn=lambda nd: ids.of(nd) in acc, suppress_unifurcations=case["sup"],
                                is_apply_filter_to_leaf_nodes=fl, is_apply_filter_to_internal_nodes=fi)
    except Exception as e:
        name = exc_name(e)
        if fingerprint(tree) != fp:
            ctx.fail("source-mutated", "extract_tree changed the source tree (and raised %s)" % name, case)
        elif status != "ok" and name in ("SeedNodeDeletion", "ValueError"):
            pending.append((line, case, name))
            pending.append(("extractheap" + line[len("extract"):], dict(case, variant="extract_tree-on-store"), name + " | source-intact"))
        else:
            ctx.fail("exception", "extract_tree raised %s: %s" % (name, str(e)[:200]), case)
        return
    if status != "ok":
        ctx.fail("induced-subtree", "extract_tree returned a tree although the filter leaves nothing of the seed", case)
        return
    out = {"tree": res, "idfn": lambda nd: ids.of(getattr(nd, "extraction_source", None)), "ids": ids, "source": tree, "fp_before": fp}
    if not judge(ctx, dict(case, upd=False), "extract_tree", src, surv, out):
        pending.append((line, case, impl_text(out)))
        # the same call on the model's object store: same tree read back, source objects untouched (judge checked the real source)
        pending.append(("extractheap" + line[len("extract"):], dict(case, variant="extract_tree-on-store"), impl_text(out) + " | source-intact"))
    if not fi:
        keep = sorted(acc) if fl else list(range(src.n))
        pending.append(("restrict %d ids %s %s" % (case["sup"], nums(keep), " ".join(case["tree"])),
                        dict(case, variant="restrict-spec"), render_nest(build_from_survivors(src, surv, case["sup"]))))


def extract_node_case(ctx, dendropy, case, pending):
    """Node.extract_subtree called on an arbitrary node (seed or not)"""
    full = Src(case["tree"])
    v = case["node"]
    src = full.subtree(v)
    acc = set(case["acc"])
    fl, fi = case["fl"], case["fi"]
    surv, status = survivors_extract(src, acc, fl, fi)
    line = "extractnode %d %d %d %d ids %s %s" % (case["sup"], fl, fi, v, nums(sorted(acc)), " ".join(case["tree"]))
    ctx.case(["extractnode", case["tree"], v, sorted(acc), fl, fi, case["sup"]], v != full.root and len(surv) > 1, kind="extract_subtree-node",
             sample=case)
    tree, ids = make_tree(dendropy, case)
    fp = fingerprint(tree)
    try:
        res_node = ids.node(v).extract_subtree(node_filter_fn=lambda nd: ids.of(nd) in acc, suppress_unifurcations=case["sup"],
                                               is_apply_filter_to_leaf_nodes=fl, is_apply_filter_to_internal_nodes=fi)
    except Exception as e:
        name = exc_name(e)
        if fingerprint(tree) != fp:
            ctx.fail("source-mutated", "Node.extract_subtree changed the source tree (and raised %s)" % name, case)
        elif status != "ok" and name in ("SeedNodeDeletion", "ValueError"):
            want = status if v == full.root else "ValueError"
            pending.append((line, case, name if name == want else "%s (expected %s)" % (name, want)))
        elif status == "ok":
            ctx.fail("induced-subtree", "Node.extract_subtree on node %d raised %s although the filter keeps %d leaves below it" % (
                v, name, len([i for i in surv if not src.kids[i]])), case)
        else:
            ctx.fail("exception", "Node.extract_subtree raised %s: %s" % (name, str(e)[:200]), case)
        return
    if status != "ok":
        ctx.fail("induced-subtree", "Node.extract_subtree returned a node although the filter leaves nothing of the start node", case)
        return
    holder = dendropy.Tree(taxon_namespace=tree.taxon_namespace, seed_node=res_node)
    out = {"tree": holder, "idfn": lambda nd: ids.of(getattr(nd, "extraction_source", None)), "ids": ids, "source": tree, "fp_before": fp,
           "tree_level": False}
    if not judge(ctx, dict(case, upd=False, clause_checks=False), "Node.extract_subtree", src, surv, out):
        pending.append((line, case, impl_text(out)))


def subtree_bad_case(ctx, dendropy, case, pending):
    """argument handling of prune_subtree: the seed (TypeError) and None (ValueError) are refused and the tree stays as it is"""
    src = Src(case["tree"])
    which = case["which"]
    ctx.case(["subtree_bad", case["tree"], which, case["sup"], case["upd"]], False, kind="prune_subtree-refusal", sample=case)
    tree, ids = make_tree(dendropy, case)
    fp = fingerprint(tree)
    try:
        tree.prune_subtree(ids.node(src.root) if which == "seed" else None, update_bipartitions=case["upd"], suppress_unifurcations=case["sup"])
    except (TypeError, ValueError) as e:
        want = "TypeError" if which == "seed" else "ValueError"
        if type(e).__name__ != want:
            ctx.fail("exception", "prune_subtree(%s) raised %s instead of %s" % (which, type(e).__name__, want), case)
        elif fingerprint(tree) != fp:
            ctx.fail("source-mutated", "prune_subtree(%s) refused the call but changed the tree" % which, case)
        elif which == "seed":
            pending.append(("subtree %d %d %s" % (case["sup"], src.root, " ".join(case["tree"])), case, "err"))
        return
    except Exception as e:
        ctx.fail("exception", "prune_subtree(%s) raised %s: %s" % (which, type(e).__name__, str(e)[:200]), case)
        return
    ctx.fail("induced-subtree", "prune_subtree(%s) did not refuse the call" % which, case)


def factory_case(ctx, dendropy, case, pending):
    """argument handling of Tree.extract_tree: node_filter_fn=None (whole structure), tree_factory, node_factory, reference attribute"""
    src = Src(case["tree"])
    sup = case["sup"]
    surv = set(range(src.n))
    line = "extract %d 1 0 all %s" % (sup, " ".join(case["tree"]))
    ctx.case(["factory", case["tree"], sup, case["tf"], case["nf"], case["flt"]], src.n > 1, kind="extract_tree-factories", sample=case)
    tree, ids = make_tree(dendropy, case)

    class MyNode(dendropy.Node):
        pass

    class OtherNode(dendropy.Node):
        pass

    class MyTree(dendropy.Tree):
        @classmethod
        def node_factory(cls, **kwargs):
            return MyNode(**kwargs)
    made = []

    def tf(taxon_namespace=None):
        t = MyTree(taxon_namespace=taxon_namespace)
        made.append(t)
        return t
    kw = dict(suppress_unifurcations=sup)
    if case["tf"]:
        kw["tree_factory"] = tf
    if case["nf"]:
        kw["node_factory"] = OtherNode
    if case["flt"] == "true":
        kw["node_filter_fn"] = lambda nd: True
    want_node = OtherNode if case["nf"] else (MyNode if case["tf"] else dendropy.Node)
    fp = fingerprint(tree)
    try:
        res = tree.extract_tree(**kw)
    except Exception as e:
        ctx.fail("exception", "extract_tree(%s) raised %s: %s" % (sorted(kw), type(e).__name__, str(e)[:200]), case)
        return
    if case["tf"] and (len(made) != 1 or res is not made[0]):
        ctx.fail("extraction-source", "extract_tree(tree_factory=…) did not return the tree the factory made", case)
        return
    if not case["tf"] and type(res) is not type(tree):
        ctx.fail("extraction-source", "extract_tree returned a %s for a %s" % (type(res).__name__, type(tree).__name__), case)
        return
    bad = [type(nd).__name__ for nd in tu.walk(res.seed_node) if type(nd) is not want_node]
    if bad:
        ctx.fail("extraction-source", "extract_tree(tree_factory=%s, node_factory=%s): new nodes of type %s, documented factory gives %s" % (
            case["tf"], case["nf"], sorted(set(bad)), want_node.__name__), case)
        return
    out = {"tree": res, "idfn": lambda nd: ids.of(getattr(nd, "extraction_source", None)), "ids": ids, "source": tree, "fp_before": fp}
    if not judge(ctx, dict(case, upd=False), "extract_tree(factories)", src, surv, out):
        pending.append((line, case, impl_text(out)))
        pending.append(("extractheap" + line[len("extract"):], dict(case, variant="extract_tree-on-store"), impl_text(out) + " | source-intact"))


def subtree_case(ctx, dendropy, case, pending):
    src = Src(case["tree"])
    v = case["node"]
    gone = set(src.below(v))
    kept = [i for i in src.leaves if i not in gone]
    surv = survivors_induced(src, kept)
    line = "subtree %d %d %s" % (case["sup"], v, " ".join(case["tree"]))
    unary_parent = len(src.kids[src.par[v]]) == 1
    case = dict(case, unary_parent=unary_parent)
    ctx.case(["subtree", case["tree"], v, case["sup"], case["upd"]], len(kept) > 1, kind="prune_subtree", sample=case)
    tree, ids = make_tree(dendropy, case)
    try:
        tree.prune_subtree(ids.node(v), update_bipartitions=case["upd"], suppress_unifurcations=case["sup"])
    except Exception as e:
        ctx.fail("exception", "prune_subtree raised %s: %s" % (type(e).__name__, str(e)[:200]), case)
        return
    if not kept:
        # no leaf survives (outside the quantifier of the statement): the bare seed must be left; compared with the model
        got = nest_of(tree.seed_node, ids.of, tree.taxon_namespace)
        if got[0] != src.root or got[3]:
            ctx.fail("induced-subtree", "prune_subtree of everything below the seed left %s instead of the bare seed" % render_nest(got), case)
        else:
            pending.append((line, case, render_nest(got)))
        return
    out = {"tree": tree, "idfn": ids.of, "ids": ids}
    if not judge(ctx, case, "prune_subtree", src, surv, out):
        if not (case["upd"] and case["rooted"] != "R"):
            pending.append((line, case, impl_text(out)))
        if case["upd"]:
            pending.append(("upd %s %d subtree %d %s" % (case["rooted"], case["sup"], v, " ".join(case["tree"])),
                            dict(case, variant="prune_subtree+update_bipartitions"), upd_text(out)))


LABEL_VARIANTS = ["prune_taxa_with_labels", "retain_taxa_with_labels", "extract_tree_with_taxa_labels",
                  "extract_tree_without_taxa_labels"]


def label_matches(case, have, given):
    """does the taxon label `have` match the requested label `given` under the namespace's rule"""
    if case["case_sensitive"]:
        return have == given
    return str(have).lower() == str(given).lower()


def labels_case(ctx, dendropy, case, pending, variants=None):
    """by-label entry points on namespaces where several taxa match one label (equal labels on distinct Taxon objects, labels that
    differ only in case): every leaf whose LABEL is named goes (prune / without) or stays (retain / with); all four agree with
    the induced subtree on the leaves whose labels survive, hence with each other on complementary label lists"""
    src = Src(case["tree"])
    lab = dict(zip(case["ns"]["bits"], case["labels"]))     # taxon bit -> label
    given = case["given"]
    named = [i for i in src.leaves if any(label_matches(case, lab[src.tax[i]], g) for g in given)]
    unnamed = [i for i in src.leaves if i not in named]
    ttoks = " ".join(case["tree"])
    sup, upd = case["sup"], case["upd"]
    # replay field for triage: some named leaf is named only through the namespace's case folding (no exact match)
    case = dict(case, only_case_folded_match=any(not any(lab[src.tax[i]] == g for g in given) for i in named))
    for variant in (variants or LABEL_VARIANTS):
        removing = variant in ("prune_taxa_with_labels", "extract_tree_without_taxa_labels")
        kept = unnamed if removing else named
        if not kept:
            continue          # the quantifier keeps at least one leaf
        inplace = variant in ("prune_taxa_with_labels", "retain_taxa_with_labels")
        if upd and not inplace:
            continue
        surv = survivors_induced(src, kept)
        ctx.case(["labels", case["tree"], case["labels"], given, case["case_sensitive"], sup, upd, variant], 1 < len(kept) < len(src.leaves),
                 kind=variant + "-multi", sample=dict(case, variant=variant))
        tree, ids = make_tree(dendropy, case)
        tns = tree.taxon_namespace
        tns.is_case_sensitive = case["case_sensitive"]
        for t in tns:
            t.label = lab[tns.accession_index(t)]         # relabelled after construction: several taxa may now share a label
        out = {"removed": None, "source": None, "ids": ids, "idfn": ids.of, "tree": tree}
        nstoks = "%d %s" % (len(case["ns"]["bits"]), " ".join("%d %s" % (b, hex6(l)) for b, l in zip(case["ns"]["bits"], case["labels"])))
        ltoks = "%d%s" % (len(given), "".join(" " + hex6(g) for g in given))
        byl = "bylabel %%s %d %d %s %s %s" % (sup, case["case_sensitive"], nstoks, ltoks, ttoks)
        try:
            if variant == "prune_taxa_with_labels":
                tree.prune_taxa_with_labels(list(given), update_bipartitions=upd, suppress_unifurcations=sup)
                out["line"] = byl % "prune"
            elif variant == "retain_taxa_with_labels":
                tree.retain_taxa_with_labels(list(given), update_bipartitions=upd, suppress_unifurcations=sup)
                out["line"] = byl % "retain"
            else:
                out["source"] = tree
                out["fp_before"] = fingerprint(tree)
                if variant == "extract_tree_with_taxa_labels":
                    out["tree"] = tree.extract_tree_with_taxa_labels(list(given), suppress_unifurcations=sup)
                    out["line"] = byl % "with"
                else:
                    out["tree"] = tree.extract_tree_without_taxa_labels(list(given), suppress_unifurcations=sup)
                    out["line"] = byl % "without"
                out["idfn"] = (lambda ids_: (lambda nd: ids_.of(getattr(nd, "extraction_source", None))))(ids)
        except RecursionError:
            raise
        except Exception as e:
            ctx.fail("exception", "%s(%r) raised %s: %s" % (variant, given, type(e).__name__, str(e)[:200]), dict(case, variant=variant))
            continue
        c2 = dict(case, clause_checks=False)     # leaf_paths keys leaves by label, which is not unique here
        n0 = len(ctx.failures)
        bad = judge(ctx, c2, variant, src, surv, out)
        if bad:
            # say what the statement means here
            f = ctx.failures[-1] if len(ctx.failures) > n0 else None
            if f is not None:
                f["what"] = ("labels %r named on a %s namespace whose labels are %r: the leaves whose labels %s must remain; %s" % (
                    given, "case-sensitive" if case["case_sensitive"] else "case-insensitive", case["labels"],
                    "are not named" if removing else "are named", f["what"]))[:900]
        else:
            in_range = case["case_sensitive"] or all(ord(ch) < 256 for l in list(case["labels"]) + list(given) for ch in l)
            ctx.count("labels-alphabet-" + ("ascii" if all(ord(ch) < 128 for l in list(case["labels"]) + list(given) for ch in l)
                                            else ("latin1" if in_range else "beyond-fold-table")))
            if not in_range:
                # the model's fold table ends at code point 255: the driver must say so instead of answering
                pending.append((out["line"], dict(case, variant=variant + "-out-of-range"), "out-of-range"))
            elif inplace and upd:
                w = out["line"].split()
                pending.append(("bylabelupd %s %s %s" % (w[1], case["rooted"], " ".join(w[2:])),
                                dict(case, variant=variant + "+update_bipartitions"), upd_text(out)))
            else:
                pending.append((out["line"], dict(case, variant=variant), impl_text(out)))


def gen_labels_case(dendropy, rng, max_leaves):
    case = gen_input(dendropy, rng, max(2, max_leaves))
    src = Src(case["tree"])
    bits = case["ns"]["bits"]
    nclasses = max(1, rng.randint(1, max(1, len(bits) - 1)))
    pool = ["A", "B", "C", "D", "sp e", "F_1", "g"][:max(1, min(7, nclasses))]
    alphabet = "ascii"
    ra = rng.random()
    if ra < 0.3:
        # Latin-1 letters with and without a case partner (\u00d7 multiplication sign, \u00df sharp s, \u00b5 micro, \u00ff have none below 256)
        pool = ["\u00c9a", "\u00d1an", "\u00c0\u00de", "\u00d8", "\u00d7x", "stra\u00dfe", "\u00b5m", "\u00ffz", "E", "\u00e6"][:max(2, min(10, nclasses + 1))]
        alphabet = "latin1"
    elif ra < 0.34:
        pool = ["\u03a3a", "\u0130", "\u00c9a", "B"]       # beyond the model's fold table: oracle only
        alphabet = "beyond-latin1"
    cs = rng.random() < 0.35
    labels = []
    for b in bits:
        base = rng.choice(pool)
        r = rng.random()
        if r < 0.3:
            base = base.lower()
        elif r < 0.45:
            base = base.upper()
        labels.append(base)
    if rng.random() < 0.25:
        labels = ["u%d" % b for b in bits]            # unique labels: the ordinary situation
        for _ in range(rng.randint(1, 2)):
            i, j = rng.randrange(len(bits)), rng.randrange(len(bits))
            labels[j] = labels[i].upper() if rng.random() < 0.5 else labels[i]
    have = sorted(set(labels))
    given = [l for l in have if rng.random() < rng.choice([0.3, 0.5])] or [rng.choice(have)]
    if rng.random() < 0.3:
        given = [g.swapcase() if rng.random() < 0.5 else g for g in given]
    if rng.random() < 0.15:
        given.append("absent")
    rng.shuffle(given)
    case.update(op="labels", labels=labels, given=given, case_sensitive=cs, sup=rng.random() < 0.6, upd=rng.random() < 0.25,
                alphabet=alphabet)
    if case["upd"] and rng.random() < 0.35:
        case["rooted"] = "R"
    return case


HISTORY_EXTRACT = ["extract_tree_with_taxa", "extract_tree_without_taxa", "extract_tree", "extract_tree_with_taxa_labels",
                   "extract_tree_without_taxa_labels", "Node.extract_subtree"]
HISTORY_INPLACE = ["prune_taxa", "retain_taxa", "filter_leaf_nodes"]


def history_case(ctx, dendropy, case, pending):
    """a HISTORY of operations on live objects: each step prunes in place or extracts from the tree the previous step left or
    returned (so sources may themselves be extracts carrying reference attributes, or trees pruned earlier).  After every step the
    result must be the subtree induced on the CURRENT source, each new node must refer to its node in the tree it was extracted
    from (not to anything earlier), and no earlier tree of the history may have changed."""
    tree, _ = make_tree(dendropy, case)
    earlier = []
    for k, step in enumerate(case["steps"]):
        toks, ids = tu.encode_tree(tree, with_labels=False)       # snapshot of the current source by a plain walk
        src = Src(toks)
        K = set(step["K"])
        kept = [i for i in src.leaves if src.tax[i] in K]
        if not kept:
            return
        surv = survivors_induced(src, kept)
        variant, sup, attr = step["variant"], step["sup"], step.get("attr", "extraction_source")
        tns = tree.taxon_namespace
        by_bit = {tns.accession_index(t): t for t in tns}
        leafbits = [src.tax[i] for i in src.leaves]
        P = [b for b in leafbits if b not in K]
        Kl = sorted(K)
        ttoks = " ".join(toks)
        scase = dict(case, sup=sup, upd=False, step=k, clause_checks=True)
        ctx.case(["history", case["tree"], case["steps"][:k + 1]], k >= 1 and 1 < len(kept), kind="history-%d-%s" % (k, variant), sample=case)
        out = {"removed": None, "source": None, "ids": ids, "idfn": ids.of, "tree": tree, "tree_level": variant != "Node.extract_subtree"}
        fp_all = [(t, fingerprint(t)) for t in earlier]
        try:
            if variant in HISTORY_INPLACE:
                if variant == "prune_taxa":
                    tree.prune_taxa([by_bit[b] for b in P], suppress_unifurcations=sup)
                    out["line"] = "prune %d 1 0 %s %s" % (sup, nums(P), ttoks)
                elif variant == "retain_taxa":
                    tree.retain_taxa([by_bit[b] for b in Kl], suppress_unifurcations=sup)
                    out["line"] = "retain %d %s %s %s" % (sup, nums(case["ns"]["bits"]), nums(Kl), ttoks)
                else:
                    kt = set(by_bit[b] for b in Kl)
                    out["removed"] = tree.filter_leaf_nodes(lambda nd: nd.taxon in kt, suppress_unifurcations=sup)
                    out["line"] = "filter %d 1 keep %s %s" % (sup, nums(Kl), ttoks)
                res = tree
            else:
                out["source"] = tree
                out["fp_before"] = fingerprint(tree)
                kw = dict(suppress_unifurcations=sup, extraction_source_reference_attr_name=attr)
                if variant == "extract_tree_with_taxa":
                    res = tree.extract_tree_with_taxa([by_bit[b] for b in Kl], **kw)
                    out["line"] = "extract %d 1 0 taxa %s %s" % (sup, nums(Kl), ttoks)
                elif variant == "extract_tree_without_taxa":
                    res = tree.extract_tree_without_taxa([by_bit[b] for b in P], **kw)
                    out["line"] = "extract %d 1 0 nottaxa %s %s" % (sup, nums(P), ttoks)
                elif variant == "extract_tree_with_taxa_labels":
                    res = tree.extract_tree_with_taxa_labels(["t%d" % b for b in Kl], **kw)
                    out["line"] = "extract %d 1 0 taxa %s %s" % (sup, nums(Kl), ttoks)
                elif variant == "extract_tree_without_taxa_labels":
                    res = tree.extract_tree_without_taxa_labels(["t%d" % b for b in P], **kw)
                    out["line"] = "extract %d 1 0 nottaxa %s %s" % (sup, nums(P), ttoks)
                else:
                    kt = set(by_bit[b] for b in Kl)
                    fn = lambda nd: nd.taxon is None or nd.taxon in kt
                    if variant == "extract_tree":
                        res = tree.extract_tree(node_filter_fn=fn, **kw)
                    else:
                        nd = tree.seed_node.extract_subtree(node_filter_fn=fn, **kw)
                        res = dendropy.Tree(taxon_namespace=tns, seed_node=nd)
                        res.is_rooted = tree.is_rooted
                    out["line"] = "extract %d 1 0 taxa %s %s" % (sup, nums(Kl), ttoks)
                out["tree"] = res
                out["attr"] = attr
                if attr is None:
                    out["source"] = None      # no reference requested: identity cannot be observed, structure only
                    out["idfn"] = lambda nd: None
                else:
                    out["idfn"] = (lambda ids_, a: (lambda nd: ids_.of(getattr(nd, a, None))))(ids, attr)
        except RecursionError:
            raise
        except Exception as e:
            ctx.fail("exception", "history step %d: %s raised %s: %s" % (k, variant, type(e).__name__, str(e)[:200]), dict(case, variant=variant))
            return
        for t, fp in fp_all:
            if fingerprint(t) != fp:
                ctx.fail("source-mutated", "history step %d (%s) changed a tree from an earlier step of the history" % (k, variant),
                         dict(case, variant=variant))
                return
        if variant not in HISTORY_INPLACE and attr is None:
            # structure without node identity
            want = build_from_survivors(src, surv, sup)
            strip = lambda t: (None, t[1], t[2], [strip(c) for c in t[3]])
            got = nest_of(res.seed_node, lambda nd: None, tns)
            if strip(want) != got:
                ctx.fail("induced-subtree", "history step %d: %s(reference attribute None): result %s, induced subtree %s" % (
                    k, variant, render_nest(got), render_nest(strip(want))), dict(case, variant=variant))
                return
            if fingerprint(tree) != out["fp_before"]:
                ctx.fail("source-mutated", "history step %d: %s changed its source tree" % (k, variant), dict(case, variant=variant))
                return
            for nd in tu.walk(res.seed_node):
                if hasattr(nd, "extraction_source"):
                    ctx.fail("extraction-source", "history step %d: %s set extraction_source although no reference was requested" % (k, variant),
                             dict(case, variant=variant))
                    return
        else:
            if judge(ctx, scase, "history step %d: %s" % (k, variant), src, surv, out):
                return
            pending.append((out["line"], dict(case, variant="history-%d" % k), impl_text(out)))
        if variant not in HISTORY_INPLACE:
            earlier.append(tree)
            tree = res


def gen_history_case(dendropy, rng, max_leaves):
    case = gen_input(dendropy, rng, max(3, max_leaves))
    src = Src(case["tree"])
    bits = [src.tax[i] for i in src.leaves]
    steps = []
    cur = list(bits)
    for k in range(rng.choice([2, 2, 3])):
        if len(cur) > 1 and rng.random() < 0.85:
            p = rng.choice([0.5, 0.7, 0.9])
            nxt = [b for b in cur if rng.random() < p] or [rng.choice(cur)]
        else:
            nxt = list(cur)
        r = rng.random()
        variant = rng.choice(HISTORY_EXTRACT) if r < 0.7 else rng.choice(HISTORY_INPLACE)
        a = rng.random()
        attr = "extraction_source" if a < 0.75 else ("other_ref" if a < 0.9 else None)
        steps.append({"variant": variant, "K": sorted(nxt), "sup": rng.random() < 0.65, "attr": attr})
        cur = nxt
    case.update(op="history", steps=steps, sup=True, upd=False)
    return case


def strike_survivors(src, P, fl, fi):
    """first pass of prune_taxa described without the pass: which nodes are still there.  None = no closed description"""
    P = set(P)
    inp = [src.tax[v] is not None and src.tax[v] in P for v in range(src.n)]
    if fl and fi:
        # every node that carries a pruned taxon goes, with everything below it
        gone = set()
        for v in range(src.n):              # pre-order numbering: parents first
            if inp[v] or (src.par[v] >= 0 and src.par[v] in gone):
                gone.add(v)
        return set(range(src.n)) - gone
    if fl and not fi:
        # a node goes exactly when all of its subtree, itself included, carries pruned taxa
        return set(v for v in range(src.n) if not all(inp[w] for w in src.below(v)))
    if not fl and not fi:
        return set(range(src.n))
    # leaf flag off, internal flag on: a node goes iff it carries a pruned taxon and one of its children stays (leaves never go);
    # decided bottom-up, then everything below a node that goes is gone with it
    goes = {}
    for v in src.postorder():
        goes[v] = bool(inp[v] and any(not goes[c] for c in src.kids[v]))
    gone = set()
    for v in range(src.n):                  # pre-order numbering: parents first
        if goes[v] or (src.par[v] >= 0 and src.par[v] in gone):
            gone.add(v)
    return set(range(src.n)) - gone


def drop_taxonless(src, s1):
    """second pass: taxon-less leaves go until none is left (a node all of whose children went is a leaf)"""
    surv = set()
    for v in src.postorder():
        if v not in s1:
            continue
        if any(c in surv for c in src.kids[v]) or src.tax[v] is not None:
            surv.add(v)
    return surv


def flags_case(ctx, dendropy, case, pending):
    """prune_taxa with is_apply_filter_to_leaf_nodes / _internal_nodes on trees that carry taxa on internal nodes.  For the
    four flag settings the result is judged against an independent description of the first pass followed by "taxon-less leaves go"."""
    P = case["P"]
    src = Src(case["tree"])
    fl, fi = case["fl"], case["fi"]
    line = "prune %d %d %d %s %s" % (case["sup"], fl, fi, nums(P), " ".join(case["tree"]))
    ctx.case(["flags", case["tree"], P, fl, fi, case["sup"]], True, kind="prune_taxa-flags")
    s1 = strike_survivors(src, P, fl, fi)
    want = None
    if s1 is not None:
        pending.append(("strikespec %d %d %s %s" % (fl, fi, nums(P), " ".join(case["tree"])), dict(case, variant="strikespec"),
                        render_nest(build_from_survivors(src, s1, False)) if src.root in s1 else "none"))
        s2 = drop_taxonless(src, s1) if src.root in s1 else set()
        want = build_from_survivors(src, s2, case["sup"]) if src.root in s2 else None
    tree, ids = make_tree(dendropy, case)
    tns = tree.taxon_namespace
    by_bit = {tns.accession_index(t): t for t in tns}
    try:
        if case.get("by_label"):
            tree.prune_taxa_with_labels(["t%d" % b for b in P], suppress_unifurcations=case["sup"], is_apply_filter_to_leaf_nodes=fl,
                                        is_apply_filter_to_internal_nodes=fi)
        else:
            tree.prune_taxa([by_bit[b] for b in P], suppress_unifurcations=case["sup"], is_apply_filter_to_leaf_nodes=fl,
                            is_apply_filter_to_internal_nodes=fi)
    except Exception as e:
        # the seed itself would have to go, i.e. nothing survives: outside the quantifier of the statement.  The code has no
        # deliberate refusal there today (AttributeError: 'NoneType' has no attribute 'remove_child'); that crash and a deliberate
        # library refusal are accepted and compared with the model's "err"; anything else is a crash on an in-domain input
        name = exc_name(e)
        if s1 is not None and want is not None:
            ctx.fail("prune-flags", "prune_taxa(leaf flag %s, internal flag %s) raised %s although %s survives" % (fl, fi, name, render_nest(want)), case)
        elif name in ("AttributeError", "SeedNodeDeletion", "ValueError"):
            pending.append((line, case, "err"))
        else:
            ctx.fail("exception", "prune_taxa(flags) raised %s: %s" % (name, str(e)[:200]), case)
        return
    probs = tu.arborescence_problems(tree)
    if probs:
        ctx.fail("structure", "prune_taxa: result is not a well-formed tree: %s" % probs, case)
        return
    got = nest_of(tree.seed_node, ids.of, tns)
    if s1 is not None and got != want:
        ctx.fail("prune-flags", "prune_taxa(leaf flag %s, internal flag %s, taxa on internal nodes): result %s; removing %s and then taxon-less "
                 "leaves gives %s" % (fl, fi, render_nest(got), "every node carrying a pruned taxon with its subtree" if (fl and fi) else
                                      ("the nodes whose whole subtree carries pruned taxa" if fl else
                                       ("every node that carries a pruned taxon and keeps a child" if fi else "nothing")), render_nest(want)), case)
        return
    pending.append((line, case, render_nest(got)))


# =================================================================== generators
def gen_shape(rng, n):
    r = rng.random()
    if r < 0.1:
        return rng.choice(tu.shape_families(n))
    shape = tu.rand_shape(rng, n, p_poly=rng.choice([0.0, 0.25, 0.5]), p_unary=rng.choice([0.0, 0.0, 0.1, 0.25]))
    if rng.random() < 0.08:
        shape = [shape]                     # unary seed
        if rng.random() < 0.3:
            shape = [shape]
    return shape


def gen_input(dendropy, rng, max_leaves, internal_taxa=False, shape=None):
    """returns the case skeleton {tree tokens, ns, rooted}"""
    if shape is None:
        n = rng.randint(1, max_leaves)
        shape = gen_shape(rng, n)
    n = tu.count_leaves(shape)
    n_int = 0
    if internal_taxa:
        def cnt(s):
            return (1 if s else 0) + sum(cnt(c) for c in s)
        n_int = cnt(shape)
    extra = rng.randint(0, 3)
    nholes = rng.randint(0, 2) if rng.random() < 0.3 else 0
    total = n + n_int + extra + nholes
    holes = sorted(rng.sample(range(total), nholes))
    if nholes and rng.random() < 0.5:
        holes = sorted(set([0] + holes[1:]))
    tns = tu.make_namespace(dendropy, 0, labels=["t%d" % i for i in range(total)], holes=holes)
    members = list(tns)
    taxa = rng.sample(members, n + n_int)
    if rng.random() < 0.15:
        rng.shuffle(tns._taxa)
    r = rng.random()
    if r < 0.15:
        lens = None
    elif r < 0.3:
        lens = lambda: float(rng.randint(1, 3))      # tie-rich
    else:
        nr = rng.choice([0.0, 0.0, 0.2, 0.5])
        lens = lambda: tu.dyadic(rng, none_rate=nr, zero_rate=0.08)
    rooted = rng.choice([True, False, None])
    tree = tu.build_tree(dendropy, shape, tns, taxa[:n], lens, rooted)
    if internal_taxa:
        spare = taxa[n:]
        for nd in tu.walk(tree.seed_node):
            if nd._child_nodes and spare and rng.random() < 0.5:
                nd.taxon = spare.pop()
    toks, _ = tu.encode_tree(tree, with_labels=False)
    return {"tree": toks, "rooted": ROOT[rooted],
            "ns": {"bits": [tns.accession_index(t) for t in tns], "count": tns._current_accession_count}}


def gen_K(rng, src):
    """subset of the leaf taxa that keeps at least one leaf; corner subsets on purpose"""
    bits = [src.tax[i] for i in src.leaves]
    n = len(bits)
    r = rng.random()
    if n == 1 or r < 0.08:
        return sorted(bits)
    if r < 0.2:
        return [rng.choice(bits)]
    if r < 0.3:
        drop = rng.choice(bits)
        return sorted(b for b in bits if b != drop)
    internal = [i for i in range(src.n) if src.kids[i] and i != src.root]
    if r < 0.5 and internal:
        v = rng.choice(internal)
        under = set(src.tax[i] for i in src.below(v) if not src.kids[i])
        if rng.random() < 0.5:
            out = [b for b in bits if b not in under]      # a whole clade emptied
            if rng.random() < 0.5 and len(out) > 1:
                out.remove(rng.choice(out))
        else:
            out = [b for b in bits if b in under]          # only one clade kept
        if out:
            return sorted(out)
    p = rng.choice([0.2, 0.5, 0.8])
    out = [b for b in bits if rng.random() < p]
    return sorted(out) if out else [rng.choice(bits)]


def extras(rng, case, src):
    on_tree = set(t for t in src.tax if t is not None)
    free = [b for b in case["ns"]["bits"] if b not in on_tree]
    pe = [b for b in free if rng.random() < 0.4]
    ke = [b for b in free if b not in pe and rng.random() < 0.4]
    return pe, ke


def gen_taxon_case(dendropy, rng, max_leaves):
    case = gen_input(dendropy, rng, max_leaves)
    src = Src(case["tree"])
    case["K"] = gen_K(rng, src)
    case["P_extra"], case["K_extra"] = extras(rng, case, src)
    case["sup"] = rng.random() < 0.6
    case["upd"] = rng.random() < 0.3
    if case["upd"] and rng.random() < 0.4:
        case["rooted"] = "R"       # the rest keeps its rooting state: unrooted / undefined trees get their basal bifurcation collapsed
    case["op"] = "taxa"
    if case["sup"] and not case["upd"] and rng.random() < 0.3:
        case["omit_defaults"] = True
    return case


def gen_pred_case(dendropy, rng, max_leaves):
    r = rng.random()
    if r < 0.15:
        case = gen_input(dendropy, rng, max_leaves, internal_taxa=True)
        src = Src(case["tree"])
        have = [t for t in src.tax if t is not None]
        case.update(op="flags", P=sorted(b for b in have if rng.random() < rng.choice([0.2, 0.5])), fl=rng.random() < 0.7, fi=rng.random() < 0.6,
                    sup=rng.random() < 0.6, upd=False, by_label=rng.random() < 0.3)
        return case
    case = gen_input(dendropy, rng, max_leaves)
    src = Src(case["tree"])
    case["sup"] = rng.random() < 0.6
    case["upd"] = False
    if r < 0.19:
        case.update(op="factory", tf=rng.random() < 0.5, nf=rng.random() < 0.5, flt=rng.choice(["none", "none", "true"]))
        return case
    if r < 0.21:
        case.update(op="subtree_bad", which=rng.choice(["seed", "none"]), upd=rng.random() < 0.3)
        return case
    if r < 0.27:
        # prune_leaves_without_taxa, recursive or not: some leaves (sometimes a whole clade) lose their taxon
        toks = list(case["tree"])
        p = rng.choice([0.2, 0.5, 0.8])
        for i in src.leaves:
            if rng.random() < p:
                toks[1 + src.n + i] = "-"
        case["tree"] = toks
        src = Src(toks)
        case.update(op="filter", via="plwt", acc=[i for i in range(src.n) if src.tax[i] is not None], recursive=rng.random() < 0.5,
                    upd=rng.random() < 0.2)
        if case["upd"] and rng.random() < 0.4:
            case["rooted"] = "R"
        return case
    if r < 0.45:
        p = rng.choice([0.3, 0.6, 0.9])
        pi = rng.choice([0.0, 0.0, 0.3, 1.0])
        acc = [i for i in range(src.n) if rng.random() < (pi if src.kids[i] else p)]
        case.update(op="filter", acc=acc, recursive=rng.random() < 0.65, upd=rng.random() < 0.25)
        if case["upd"] and rng.random() < 0.4:
            case["rooted"] = "R"
    elif r < 0.68:
        p = rng.choice([0.3, 0.6, 0.9])
        pi = rng.choice([0.5, 0.9, 1.0])
        acc = [i for i in range(src.n) if rng.random() < (pi if src.kids[i] else p)]
        case.update(op="extract", acc=acc, fl=rng.random() < 0.8, fi=rng.random() < 0.5)
    elif r < 0.8:
        p = rng.choice([0.3, 0.6, 0.9])
        pi = rng.choice([0.9, 1.0, 1.0])
        acc = [i for i in range(src.n) if rng.random() < (pi if src.kids[i] else p)]
        internal = [i for i in range(src.n) if src.kids[i]]
        node = rng.choice(internal) if (internal and rng.random() < 0.85) else rng.randrange(src.n)
        case.update(op="extract_node", acc=acc, node=node, fl=rng.random() < 0.85, fi=rng.random() < 0.3)
    else:
        if src.n < 2:
            return None
        case.update(op="subtree", node=rng.choice([i for i in range(src.n) if i != src.root]), upd=rng.random() < 0.25)
        if case["upd"] and rng.random() < 0.4:
            case["rooted"] = "R"
    return case


def run_case(ctx, dendropy, case, pending, variants=None):
    op = case["op"]
    if op == "taxa":
        taxon_group(ctx, dendropy, case, pending, variants)
    elif op == "filter":
        filter_case(ctx, dendropy, case, pending)
    elif op == "extract":
        extract_case(ctx, dendropy, case, pending)
    elif op == "subtree":
        subtree_case(ctx, dendropy, case, pending)
    elif op == "flags":
        flags_case(ctx, dendropy, case, pending)
    elif op == "extract_node":
        extract_node_case(ctx, dendropy, case, pending)
    elif op == "labels":
        labels_case(ctx, dendropy, case, pending, variants)
    elif op == "history":
        history_case(ctx, dendropy, case, pending)
    elif op == "factory":
        factory_case(ctx, dendropy, case, pending)
    elif op == "subtree_bad":
        subtree_bad_case(ctx, dendropy, case, pending)
    else:
        raise ValueError("unknown op in case: %r" % (op,))


def flush(ctx, pending):
    cache = {}
    lines = []
    for line, _, _ in pending:
        if line not in cache:
            cache[line] = len(lines)
            lines.append(line)
    outs = ctx.ask(lines)
    for line, case, got in pending:
        m = outs[cache[line]]
        if m is None:
            continue
        ctx.compared()
        if m.strip() != got.strip():
            ctx.disagree(line.split()[0] + ":" + str(case.get("variant", case.get("op"))), case, got[:600], m.strip()[:600])
    del pending[:]


# =================================================================== entry points
def run(ctx):
    dendropy = __import__("dendropy")
    rng = ctx.rng
    ctx.set_budget(30, 420)
    ctx.budget_s += time.time() - ctx.t0      # the budget counts from here: waiting for the build lock must not eat the cases
    pending = []
    n = ctx.pick(4000, 60000)
    max_leaves = ctx.pick(12, 30)
    for k in range(n):
        if ctx.out_of_time():
            break
        ml = max_leaves if rng.random() < 0.85 else 4
        r0 = rng.random()
        if r0 < 0.1:
            case = gen_history_case(dendropy, rng, ml)
        elif r0 < 0.2:
            case = gen_labels_case(dendropy, rng, ml)
        elif r0 < 0.6:
            case = gen_taxon_case(dendropy, rng, ml)
        else:
            case = gen_pred_case(dendropy, rng, ml)
        if case is None:
            continue
        run_case(ctx, dendropy, case, pending)
        if len(pending) >= 600:
            flush(ctx, pending)
    flush(ctx, pending)
    if ctx.tier == "thorough":
        exhaustive(ctx, dendropy, pending)


def unordered_shapes(n):
    seen, out = set(), []

    def key(s):
        return "(" + "".join(sorted(key(c) for c in s)) + ")"
    for s in tu.all_shapes(n):
        k = key(s)
        if k not in seen:
            seen.add(k)
            out.append(s)
    return out


def exhaustive(ctx, dendropy, pending):
    """every non-empty subset K of the leaves: all ordered shapes <= 5 leaves (all variants, both suppress settings),
    all unordered shapes with 6 and 7 leaves (suppress and variant subset rotating)"""
    rng = ctx.rng
    ctx.budget_s += 400
    count = 0
    light = ["prune_taxa", "retain_taxa", "filter_leaf_nodes", "extract_tree_with_taxa", "extract_tree_without_taxa_labels"]
    for n in range(1, 8):
        shapes = tu.all_shapes(n) if n <= 5 else unordered_shapes(n)
        for shape in shapes:
            base = gen_input(dendropy, rng, n, shape=shape)
            src = Src(base["tree"])
            bits = [src.tax[i] for i in src.leaves]
            for r in range(1, n + 1):
                for K in itertools.combinations(bits, r):
                    if ctx.out_of_time():
                        ctx.note("exhaustive enumeration stopped by the time budget at %d leaves" % n)
                        flush(ctx, pending)
                        ctx.extra["exhaustive_small_scope"] = "stopped early after %d (tree, subset, flag) groups" % count
                        return
                    for sup in ((True, False) if n <= 5 else (count % 3 != 0,)):
                        case = dict(base, K=sorted(K), P_extra=[], K_extra=[], sup=sup, upd=False, op="taxa")
                        if n <= 5:
                            taxon_group(ctx, dendropy, case, pending)
                        else:
                            vs = [light[count % len(light)], light[(count + 2) % len(light)]]
                            taxon_group(ctx, dendropy, case, pending, variants=vs)
                        count += 1
                    if len(pending) >= 3000:
                        flush(ctx, pending)
    flush(ctx, pending)
    ctx.extra["exhaustive"] = True
    ctx.extra["exhaustive_small_scope"] = ("%d (tree, subset K, suppress) groups: every non-empty subset of every ordered shape <= 5 leaves "
                                           "(11 variants) and of every unordered shape with 6-7 leaves (2 rotating variants)" % count)


def replay(ctx, rec):
    dendropy = __import__("dendropy")
    case = dict(rec["replay"])
    case.pop("only_case_folded_match", None)
    case.pop("_collapsed", None)
    case.pop("step", None)
    pending = []
    variant = case.pop("variant", None)
    case.pop("clause_checks", None)
    run_case(ctx, dendropy, case, pending, variants=[variant] if (variant and variant in TAXON_VARIANTS + LABEL_VARIANTS) else None)
    flush(ctx, pending)


def search(ctx, broken):
    """obligations or the correspondence broke (generation of Gen/C08Kernels refused the source, a bridge theorem no longer holds, …):
    look for a concrete failing input on the real code.  First the input classes the regenerated kernels are about — labels in several
    cases and alphabets through the four by-label entry points (case rule / fold table), calls that rely on the declared defaults,
    the wrappers, extraction with length-less merged nodes — then the exhaustive small scope on all variants"""
    dendropy = __import__("dendropy")
    pending = []
    rng = ctx.rng
    t_end = time.time() + 40
    for k in range(4000):
        if ctx.failures or time.time() > t_end:
            break
        r = rng.random()
        if r < 0.45:
            case = gen_labels_case(dendropy, rng, 6)
        elif r < 0.8:
            case = gen_taxon_case(dendropy, rng, 6)
            if case["sup"] and not case["upd"]:
                case["omit_defaults"] = True
        else:
            case = gen_pred_case(dendropy, rng, 6)
        if case is None:
            continue
        run_case(ctx, dendropy, case, pending)
        if len(pending) >= 400:
            flush(ctx, pending)
    flush(ctx, pending)
    if ctx.failures:
        return
    for n in range(1, 5):
        for shape in tu.all_shapes(n):
            for wrap in (False, True):
                base = gen_input(dendropy, rng, n, shape=[shape] if wrap else shape)
                src = Src(base["tree"])
                bits = [src.tax[i] for i in src.leaves]
                for r in range(1, n + 1):
                    for K in itertools.combinations(bits, r):
                        for sup in (True, False):
                            for upd in (False, True):
                                case = dict(base, K=sorted(K), P_extra=[], K_extra=[], sup=sup, upd=upd, op="taxa",
                                            rooted=base["rooted"])
                                taxon_group(ctx, dendropy, case, pending)
                        if ctx.failures:
                            flush(ctx, pending)
                            return
    flush(ctx, pending)
