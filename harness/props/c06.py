"""C06 - tree-sample summaries are independent of partitioning, order and scheduling.

Clauses (DESIGN 4/C06): (a) one-at-a-time accession in any order, (b) sub-collections (some empty) merged with
update/extend/+=/+ in any arrival order never fail when compatible and leave the four per-tree lists aligned,
(c) consensus / supports / MCC follow, (d) SumTrees serial = parallel under every schedule (file -> worker
assignment x arrival order, idle workers included).

Implementation side: real TreeArray objects driven through operation histories; the real
TreeProcessor.parallel_analyze_trees / TreeAnalysisWorker.run executed in-process under a chosen schedule (the
multiprocessing primitives inside the imported sumtrees module are replaced by deterministic fakes).
Oracle: brute-force recomputation of every observable from the *tree specifications* (parent arrays), never from
the library's own encodings; plus the relational clause "same summary as a serial, differently ordered run".
Model: lean/DendroModel/Model/C06.lean behind drv_c06."""
import itertools
import math
import os
import queue as pyqueue
import shutil
import subprocess
import sys
import tempfile
from fractions import Fraction

import treeutil as tu
from common import time_limit, REPO

ID = "C06"
GEN_DEPENDS = ["PyBits", "C06Kernels"]
RULE = ("operation histories (<= 14 ops) over 2-5 TreeArrays built from random trees (3-7 taxa, polytomies, basal "
        "bifurcations, None lengths, weights, ultrametric trees with node ages): add (add_tree / append / add_trees)/insert(any index)/update/extend/+=/+ "
        "incl. empties, self-merges; SETTINGS EQUAL BY VALUE BUT DISTINCT OBJECTS: in ~40% of the histories (and half of the partition cases) every collection gets its "
        "ultrametricity_precision as a fresh object of one value (parsed from text, computed, equal int / Fraction), node ages tracked (ultrametric dyadic trees) in "
        "~45%, and ~30% of the merge sources travel through a pickle round trip or a deep copy before merging; in the schedule simulator every worker result is pickled "
        "and unpickled as through the real results queue, node ages tracked in ~40% of the schedule cases with a per-case fresh precision; reading several sources in one call (paths, handles, one string) with a burn-in, both rootings, explicit and implicit rooting, matching and mismatching settings, with interim "
        "summaries (consensus / MCC / summarize_splits_on_tree / restore_tree / the per-split summary tables in either order / "
        "frequencies) between the additions, and the same trees built one at a time next to the merged master; at the end every "
        "array's per-split edge-length and node-age summaries (tables and target-tree annotations: mean, median, sd, range) are read "
        "before anything refreshes the frequencies and compared with brute force; "
        "SumTrees schedules = (file->worker assignment, arrival order) on the real collation/worker code, 0-4 files x 2-5 workers (more workers "
        "than files, no file at all, files entirely swallowed by the burn-in); the model receives the complete files and applies the burn-in in "
        "its own reading loop; thorough adds every "
        "schedule for <= 3 files x <= 4 workers, every partition/arrival order of <= 4 trees into <= 3 parts, and real "
        "multi-process CLI runs (-M, -m 2, -m 3, five times each, every other one pinned to one CPU; plus three configurations with "
        "--summarize-node-ages --ultrametricity-precision 0.0001, three times each); schedules with asynchronous "
        "delivery of the work items (interleavings of deliveries and worker queue operations on the real worker code, sampled in both tiers; "
        "about a third of them over sources of MIXED rooting (per-tree [&R]/[&U] tokens, inside one file or between files), where a read fails "
        "in a worker, the exception is posted and re-raised: files read by each worker, what each worker posts first, the parent's and the serial "
        "run's outcome are compared with the model; "
        "exhaustive for 1-2 files x 2 workers, 1 file x 3 workers, no file x 3 workers and 2 mixed-rooting files x 2 workers in thorough); "
        "non-trivial = at least two non-empty parts merged, or an empty part merged, or an idle worker")
MODELLED_NOT_VERIFIED = [
    "C06: the Lean TreeArray/SplitDistribution/SumTrees model is hand-written from TreeArray.add_tree/insert/update/extend/"
    "__iadd__/__add__, SplitDistribution.count_splits_on_tree/update/calc_freqs, calculate_log_product_of_split_supports and "
    "TreeProcessor.parallel_analyze_trees; tied to the code by per-history comparison of every stored list, the distribution, "
    "frequencies, credibility scores and the consensus split order - and, for their decision kernels (update's no-op / compatibility / "
    "adoption / concatenation sequence, validate_rooting, the weight and accession kernels of add_tree, the qualifying and first-strict-maximum "
    "tests of the credibility scores, the per-source burn-in loops of read_from_files and sumtrees._read_into_tree_array, the worker's blocking "
    "get / None marker / exception posting and the parent's marker count, worker count, awaited-result count and re-raise), by Gen/C06Kernels.lean, "
    "regenerated from the source on every run and proved equal to the model's definitions (update_bridge ... proto_bridge)",
    "C06: a tree enters the model as its record (rooting, weight, leaf set, (split, length, age) per edge) computed by the harness "
    "from the parent array; bipartition encoding itself is the subject of C01, node ages of C17",
    "C06: the OS scheduler, pickling of TreeArray across processes and queue blocking are not modelled: the model starts where "
    "worker results arrive; a worker dying without posting a result is out of scope",
    "C06: a worker whose read failed posts the exception and then, having left its loop, ALSO its partial array; the model keeps the first "
    "item only (the parent re-raises at the exception, which precedes the array on the queue, so the second item is never taken); the "
    "harness counts these cases and compares the first item",
    "C06: the list-interface methods that raise NotImplementedError (__delitem__, __getitem__, __setitem__, clear, index, pop, remove, reverse, "
    "sort, __reversed__) and the read-only queries __contains__/__iter__/__len__/topologies/bipartition_encoding_frequencies are not operations "
    "of the model (the harness calls the per-tree queries after every history)",
    "C06: settings are documented as bool / None / number; ints given for the boolean flags (0/1) are outside the generated domain: the unchanged code "
    "compares the flags with `is not`, so ignore_edge_lengths=0 and ignore_edge_lengths=False do not merge (observed by hand, not judged)",
    "C06: credibility scores are exact products in the model and float log-sums in the code (compared to 1e-9; the maximiser's "
    "topology is compared only when the exact maximiser is unique by a 1e-9 margin)",
]
EXPLANATION = ("Theorems (Props/C06.lean) about the definitions drv_c06 runs: aligned (four lists always in step, also after the one "
               "rejection that follows a mutation - add_tree's length assert; in step with the distribution's count while that assert "
               "never fired) + queries_defined, insert_any_index (same row, Python insert position, rows equal up to order), add_perm, "
               "merge_any_partition (sub-collections incl. empty ones, any arrival order: never fails, aligned, observable of the serial "
               "run), update_ok_iff (update/extend/+= is rejected exactly when both sides hold trees and differ in rooting or a setting), "
               "history_holds_its_trees (ghost semantics: after any compatible history over the whole op alphabet, nested merges and "
               "self-merges included, array i holds exactly the trees the history put there and equals their serial accession; nothing "
               "is rejected), histories_agree (two compatible histories leaving the same trees up to order in two arrays leave the same "
               "observable and rows), sumtrees_schedule_independent, freq_of_obs, scores_of_obs, mcc_scores_of_obs, mcc_topologies_of_obs. "
               "No theorem is _partial any more: consensus_candidates_spec (the candidate list holds exactly the counted splits reaching the threshold) and "
               "consensus_of_obs (+ _reachable): the sorted candidate list handed to the tree builder, order included, is a function of "
               "the observable (insertion sort over a total, transitive order antisymmetric on distinct masks). "
               "mcc_index_spec: mccIndex is a maximiser of the scores and the first one, for score fractions with positive denominators; "
               "scores_den_pos proves that hypothesis for every array reachable by any history whose tree weights have positive "
               "denominators; mcc_of_obs: two aligned collections with the same observable and rows up to order report, through "
               "their own mccIndex, trees of the same (rational) score, and of the same topology when the maximiser is unique. "
               "history_final_rooting_flags: final settings and rooting of every array. summaries_of_obs / summaries_of_histories: per-split "
               "multisets, sizes, mean edge length and mean node age are functions of the observable (means also compared with the code; the median "
               "is compared with brute force by the oracle only). "
               "The ghost semantics ghostRun is printed by the driver and compared with the harness's book-keeping of held trees. "
               "async_sentinel_every_file_once / sumtrees_async_schedule_independent: queue-level worker protocol with asynchronous "
               "put (Model/C06Proto.lean, driver op async): with blocking get and one end marker per worker every schedule of "
               "deliveries and worker moves ends with all workers stopped, every file read exactly once, and the serial observable. "
               "New in ext-3: burnin_per_source (the reading loop with its running offset, reset when the source changes, keeps all but the first "
               "`burnin` trees of every source, in one call over all sources as in one call per source); async_failures_never_hang (the protocol in "
               "which a failing read makes the worker post the exception and stop WITHOUT taking its marker still ends, under every schedule and for "
               "every pattern of failures, with every worker stopped); async_no_failing_read_same_run; collation_reraises_first_exception and "
               "sumtrees_failing_read_reported (any posted exception makes the parallel run end in an error: no hang, no summary); "
               "sumtrees_burnin_schedule_independent (the whole pipeline - per-file burn-in in the workers, failing-read protocol, re-raising collation, "
               ">= 1 workers incl. more workers than files and no file: returns, never fails, serial observable, for sources of one rooting state). "
               "Tie A bridges to Gen/C06Kernels.lean (regenerated from treecollectionmodel.py and sumtrees.py on every run): update_bridge, validate_bridge, "
               "weight_bridge, accession_bridge, qualifies_bridge, argmax_bridge, readStep_bridge, readLoop_cons, proto_bridge, runsSerial_bridge. "
               "search() (run when tie A is unavailable, an obligation broke or the correspondence disagreed) starts with 96 histories of collections whose "
               "settings are equal by value but distinct objects (every merge op, direct / pickled / deep-copied source, node ages tracked), then the merge decision "
               "table, burn-in reads, small exhaustive schedules incl. node ages, and one genuine multi-process CLI run with --summarize-node-ages. "
               "Wave 2: spread_of_obs (the sample variance - sd squared - of the edge lengths and node ages collected per split, computed exactly, is a function of "
               "the observable), range_of_obs (so are minimum and maximum, as rationals), both also dumped by the driver and compared with the code's var / range; "
               "collation_count_bridge (the number of results the parent waits for is a regenerated kernel - temporaries, min/max and len(tree_sources) inlined - and equals "
               "one per worker) and fewer_results_lose_a_file (any smaller count, e.g. min(workers, files), returns an empty summary under a witness schedule where the serial "
               "run counts a tree); serial_ok_every_schedule_ok (from the serial outcome alone: if the serial run over sources with definite rooting states succeeds, every "
               "schedule of the parallel run succeeds with the same observable - so a parallel failure implies a serial failure). "
               "Not proved: the median of the per-split summaries (oracle only); that a parallel run over sources of mixed rooting fails under EVERY schedule whenever the serial run fails (correspondence only).")

ASYNC_IN_QUICK = True           # asynchronous-delivery schedules are explored in both tiers
THETA = Fraction(3, 5)          # majority-rule threshold of the brute-force consensus oracle (all candidates compatible)
MODEL_THETA = Fraction(1, 4)    # threshold of the model comparison: greedy consensus, the order of the candidates matters


def laminar(a, b):
    return (a & b) == 0 or (a & b) == a or (a & b) == b


def greedy_consensus(order, full, rooted):
    """non-trivial splits a greedy consensus keeps when the candidates are tried in `order`"""
    acc = []
    for s0 in order:
        m = s0 & full
        if m == full or popcount(m) <= 1:
            continue        # rooted: a clade of all but one taxon is a real clade and blocks conflicting ones
        if not rooted:
            if m & 1:
                m = (~m) & full
            if popcount(m) <= 1:
                continue
        if m not in acc and all(laminar(m, t) for t in acc):
            acc.append(m)
    return sorted(x for x in acc if nontrivial(x, full))
ERR = {"MixedRootingError": "MixedRooting", "IncompatibleRootingTreeArrayUpdate": "IncRooting",
       "IncompatibleEdgeLengthsTreeArrayUpdate": "IncLens", "IncompatibleNodeAgesTreeArrayUpdate": "IncAges",
       "IncompatibleTreeWeightsTreeArrayUpdate": "IncWeights", "AssertionError": "Assertion"}
CLEAN = {"MixedRooting", "IncRooting", "IncLens", "IncAges", "IncWeights"}   # raised before anything is mutated


# ======================================================================================= tree specifications
def R(x):
    return "N" if x is None else ("T" if x else "F")


def unR(s):
    return {"N": None, "T": True, "F": False}[s]


def gen_spec(rng, bits, rooted, ultrametric=False, none_rate=0.0, weight=None, p_poly=0.25, basal2=None):
    """a tree over the taxa with accession bits `bits`: protocol tokens + rooting + weight (all JSON-able)"""
    k = len(bits)
    shape = tu.rand_shape(rng, k, p_poly=p_poly, p_unary=0.0)
    if basal2 is True and k >= 3 and len(shape) != 2:
        cut = rng.randint(1, len(shape) - 1)
        left, right = shape[:cut], shape[cut:]
        shape = [left[0] if len(left) == 1 else left, right[0] if len(right) == 1 else right]
    par, kids = [], []

    def number(sh, p):
        i = len(par)
        par.append(p)
        kids.append([])
        for c in sh:
            kids[i].append(number(c, i))
        return i
    number(shape, -1)
    n = len(par)
    order = list(bits)
    rng.shuffle(order)
    it = iter(order)
    tax = ["-"] * n
    for i in range(n):
        if not kids[i]:
            tax[i] = str(next(it))
    lens = [None] * n
    if ultrametric:
        h = [Fraction(0)] * n
        for i in reversed(range(n)):
            if kids[i]:
                h[i] = max(h[c] for c in kids[i]) + Fraction(rng.randint(1, 6), 4)
        for i in range(1, n):
            lens[i] = h[par[i]] - h[i]
        lens[0] = None if rng.random() < 0.5 else Fraction(rng.randint(0, 4), 4)
    else:
        for i in range(n):
            d = tu.dyadic(rng, none_rate=none_rate)
            lens[i] = None if d is None else Fraction(d)
    if len(kids[0]) == 2 and any(lens[c] is None for c in kids[0]):
        # how a basal bifurcation with exactly one undefined length collapses is C14's business, not ours
        for c in kids[0]:
            lens[c] = None
    toks = [str(n)] + [str(p) for p in par] + tax + [tu.frac(x) for x in lens] + ["-"] * n
    return {"toks": toks, "rooted": rooted, "weight": None if weight is None else tu.frac(weight)}


def parse_spec(spec):
    toks = spec["toks"]
    n = int(toks[0])
    par = [int(x) for x in toks[1:1 + n]]
    tax = [None if x == "-" else int(x) for x in toks[1 + n:1 + 2 * n]]
    lens = [None if x == "N" else Fraction(x) for x in toks[1 + 2 * n:1 + 3 * n]]
    return n, par, tax, lens


def record(spec, want_ages):
    """independent of the library: what add_tree must see of this tree.
    {rooted, weight, leafset, entries=[(split, len|None, age|None)] in post-order}"""
    n, par, tax, lens = parse_spec(spec)
    lens = list(lens)
    kids = [[] for _ in range(n)]
    root = None
    for i, p in enumerate(par):
        if p < 0:
            root = i
        else:
            kids[p].append(i)
    for i in range(n):
        assert len(kids[i]) != 1, "generator produces no unary nodes"
    ages = [None] * n
    if want_ages:
        def age(i):
            if ages[i] is None:
                ages[i] = Fraction(0) if not kids[i] else age(kids[i][0]) + lens[kids[i][0]]
            return ages[i]
        for i in range(n):
            age(i)
    rooted = spec["rooted"]
    if not rooted and len(kids[root]) == 2:
        # unrooted trees lose a basal bifurcation: the second child if it is internal, else the first if it is
        c0, c1 = kids[root]
        dele = keep = None
        if len(kids[c1]) >= 2:
            keep, dele = c0, c1
        elif len(kids[c0]) >= 2:
            dele, keep = c0, c1
        if dele is not None:
            if lens[keep] is not None and lens[dele] is not None:
                lens[keep] = lens[keep] + lens[dele]
            pos = kids[root].index(dele)
            kids[root][pos:pos + 1] = kids[dele]
            kids[dele] = None
    mask = [0] * n
    post = []

    def walk(i):
        if not kids[i]:
            mask[i] = 1 << tax[i]
        for c in kids[i]:
            walk(c)
            mask[i] |= mask[c]
        post.append(i)
    walk(root)
    full = mask[root]
    low = full & (-full)
    entries = []
    for i in post:
        m = mask[i]
        if not rooted:
            m = ((~m) & full) if (m & low) else (m & full)
        entries.append((m, lens[i], ages[i] if want_ages else None))
    return {"rooted": rooted, "weight": None if spec["weight"] is None else Fraction(spec["weight"]),
            "leafset": full, "entries": entries}


def trec_tokens(rec):
    out = [R(rec["rooted"]), tu.frac(rec["weight"]), str(rec["leafset"]), str(len(rec["entries"]))]
    for s, l, a in rec["entries"]:
        out += [str(s), tu.frac(l), tu.frac(a)]
    return out


def build_tree(dendropy, tns, spec):
    tree, _ = tu.tree_from_tokens(dendropy, spec["toks"], rooted=spec["rooted"], tns=tns)
    if spec["weight"] is not None:
        tree.weight = float(Fraction(spec["weight"]))
    return tree


def newick(spec, token=None):
    n, par, tax, lens = parse_spec(spec)
    kids = [[] for _ in range(n)]
    for i, p in enumerate(par):
        if p >= 0:
            kids[p].append(i)

    def go(i):
        s = ("(" + ",".join(go(c) for c in kids[i]) + ")") if kids[i] else "t%d" % tax[i]
        if lens[i] is not None:
            s += ":" + repr(float(lens[i]))
        return s
    pre = ""
    if token:
        pre += "[&%s] " % token
    if spec["weight"] is not None:
        pre += "[&W %s] " % spec["weight"]
    return pre + go(par.index(-1)) + ";"


# ======================================================================================= canonical forms
def popcount(x):
    return bin(x).count("1")


def nontrivial(s, full):
    s &= full
    return popcount(s) > 1 and popcount(full & ~s) > 1


def frs(x):
    return tu.frac(x)


def canon_lists(rooting, flags, splits, elens, leafsets, weights):
    c = {"rooting": rooting, "flags": list(flags),
         "n4": [len(splits), len(elens), len(leafsets), len(weights)],
         "rows": [sorted([str(s), l] for s, l in zip(sp, el)) for sp, el in zip(splits, elens)],
         "rowlens": [[len(sp), len(el)] for sp, el in zip(splits, elens)],
         "leafsets": [str(x) for x in leafsets], "weights": list(weights)}
    return c


def canon_impl(ta, theta_float, full):
    """everything the statement mentions, read off a real TreeArray; floats rendered exactly"""
    sd = ta._split_distribution
    c = canon_lists(R(ta._is_rooted_trees), [int(bool(ta.ignore_edge_lengths)), int(bool(ta.ignore_node_ages)), int(bool(ta.use_tree_weights))],
                    ta._tree_split_bitmasks, [[frs(x) for x in el] for el in ta._tree_edge_lengths],
                    ta._tree_leafset_bitmasks, [frs(w) for w in ta._tree_weights])
    c["sd"] = {"total": sd.total_trees_counted, "sumW": frs(sd.sum_of_tree_weights),
               "sawR": int(True in sd.tree_rooting_types_counted), "sawU": int(False in sd.tree_rooting_types_counted),
               "counts": sorted([str(k), frs(v)] for k, v in sd.split_counts.items()),
               "lens": sorted([str(k), sorted(frs(x) for x in v)] for k, v in sd.split_edge_lengths.items() if v),
               "ages": sorted([str(k), sorted(frs(x) for x in v)] for k, v in sd.split_node_ages.items() if v)}
    c["freq"] = sorted([str(k), repr(float(v))] for k, v in sd.split_frequencies.items())
    lens, ages = sd.split_edge_length_summaries, sd.split_node_age_summaries
    c["means"] = sorted([str(k), lens[k]["mean"] if k in lens else None, ages[k]["mean"] if k in ages else None] for k in sd.split_counts)

    def var_of(t, k):
        if k not in t:
            return None
        v = t[k].get("var")
        if v is None and t[k].get("sd") is not None:
            v = t[k]["sd"] ** 2
        return None if (v is None or v == float("inf")) else v

    def rng_of(t, k, j):
        r = t[k].get("range") if k in t else None
        return None if r is None else r[j]
    # sample variance (sd squared) and range of the values collected per split: exact rationals in the model
    c["spread"] = sorted([str(k), var_of(lens, k), var_of(ages, k), rng_of(lens, k, 0), rng_of(lens, k, 1), rng_of(ages, k, 0), rng_of(ages, k, 1)]
                         for k in sd.split_counts)
    return c


class Parser(object):
    def __init__(self, toks):
        self.t = toks
        self.i = 0

    def tok(self):
        x = self.t[self.i]
        self.i += 1
        return x

    def nat(self):
        return int(self.tok())

    def lst(self, f):
        return [f() for _ in range(self.nat())]


def parse_dump(p):
    """one `dumpTA` of the driver -> (canonical dict, scores, sums, consensus order)"""
    assert p.tok() == "A"
    rooting = p.tok()
    flags = [int(p.tok()), int(p.tok()), int(p.tok())]
    splits = p.lst(lambda: p.lst(p.nat))
    elens = p.lst(lambda: p.lst(p.tok))
    leafsets = p.lst(p.nat)
    weights = p.lst(p.tok)
    c = canon_lists(rooting, flags, splits, elens, leafsets, weights)
    total = p.nat()
    sumw = p.tok()
    sawr, sawu = int(p.tok()), int(p.tok())
    counts = p.lst(lambda: [p.tok(), p.tok()])
    lens = p.lst(lambda: [p.tok(), sorted(p.lst(p.tok), key=lambda x: x)])
    ages = p.lst(lambda: [p.tok(), sorted(p.lst(p.tok), key=lambda x: x)])
    c["sd"] = {"total": total, "sumW": sumw, "sawR": sawr, "sawU": sawu, "counts": sorted(counts),
               "lens": sorted(x for x in lens if x[1]), "ages": sorted(x for x in ages if x[1])}
    freq = p.lst(lambda: [p.tok(), p.tok()])
    c["freq"] = sorted([k, repr(float(Fraction(v)))] for k, v in freq)
    means = p.lst(lambda: [p.tok(), p.tok(), p.tok()])
    c["means"] = sorted([k, None if a == "N" else float(Fraction(a)), None if b == "N" else float(Fraction(b))] for k, a, b in means)
    spread = p.lst(lambda: [p.tok() for _ in range(7)])
    c["spread"] = sorted([x[0]] + [None if v == "N" else float(Fraction(v)) for v in x[1:]] for x in spread)

    def qs():
        n = int(p.tok())
        return None if n < 0 else [Fraction(p.tok()) for _ in range(n)]
    scores = qs()
    sums = qs()
    c["mccidx"] = int(p.tok())
    cons = p.lst(p.nat)
    return c, scores, sums, cons


def means_differ(a, b):
    """[[split, mean length | None, mean age | None]] equal to 1e-9"""
    if len(a) != len(b):
        return True
    for x, y in zip(a, b):
        if x[0] != y[0]:
            return True
        for u, v in zip(x[1:], y[1:]):
            if (u is None) != (v is None) or (u is not None and not close(float(u), float(v))):
                return True
    return False


def freq_differs(a, b):
    """frequency tables [[split, repr(float)]]: same splits, values equal to 1e-12 (not bit-exact: the code is free to
    compute count/norm in any reasonable way)"""
    if [x[0] for x in a] != [x[0] for x in b]:
        return True
    return any(not close(float(x[1]), float(y[1]), 1e-12) for x, y in zip(a, b))


def expected_canon(trees, flags):
    """brute force over the tree records: the statement's observables of a collection holding exactly `trees` (in this order)"""
    il, ia, uw = flags
    splits, elens, leafsets, weights = [], [], [], []
    counts, lens, ages = {}, {}, {}
    total, sumw, sawr, sawu = 0, Fraction(0), 0, 0
    for rec in trees:
        w = rec["weight"] if (rec["weight"] is not None and uw) else Fraction(1)
        total += 1
        sumw += w
        if rec["rooted"]:
            sawr = 1
        else:
            sawu = 1
        splits.append([e[0] for e in rec["entries"]])
        elens.append(["N" if il else frs(0 if e[1] is None else e[1]) for e in rec["entries"]])
        leafsets.append(rec["leafset"])
        weights.append(frs(w))
        for s, l, a in rec["entries"]:
            counts[s] = counts.get(s, Fraction(0)) + w
            if not il:
                lens.setdefault(s, []).append(frs(0 if l is None else l))
            if not ia:
                ages.setdefault(s, []).append(frs(a))
    c = canon_lists(None, flags, splits, elens, leafsets, weights)
    c["sd"] = {"total": total, "sumW": frs(sumw), "sawR": sawr, "sawU": sawu,
               "counts": sorted([str(k), frs(v)] for k, v in counts.items()),
               "lens": sorted([str(k), sorted(v)] for k, v in lens.items()),
               "ages": sorted([str(k), sorted(v)] for k, v in ages.items())}
    norm = sumw if sumw != 0 else Fraction(total)
    fr = {k: (v / norm if total else Fraction(1)) for k, v in counts.items()}
    # the code divides two exactly represented floats: the correctly rounded quotient
    c["freq"] = sorted([str(k), repr(float(v / norm) if total else 1.0)] for k, v in counts.items())
    return c, fr


def qualifies(s, leafset):
    if s == leafset:
        return True
    # Bipartition.is_trivial_bitmask(s, leafset), from its definition: empty, full, one taxon in, or one taxon out
    if s == 0:
        return False
    m = s & leafset
    return not (popcount(m) <= 1 or popcount(leafset & ~s) <= 1)


def expected_scores(trees, fr):
    out = []
    for rec in trees:
        p = Fraction(1)
        for s, _, _ in rec["entries"]:
            if qualifies(s, rec["leafset"]):
                f = fr.get(s, Fraction(0))
                if f:
                    p *= f
        out.append(p)
    return out


def close(a, b, tol=1e-9):
    if a == b or (a != a and b != b):
        return True
    return abs(a - b) <= tol * max(1.0, abs(a), abs(b))


# ======================================================================================= queries on a real array
def summary_of(tree):
    """child-order independent description of a summary tree: split -> rounded annotations + length"""
    out = {}
    tree.encode_bipartitions()
    for nd in tree.postorder_node_iter():
        d = {}
        for k, v in nd.annotations.values_as_dict().items():
            d[k] = v
        out[nd.edge.bipartition.split_bitmask] = (nd.edge.length, d)
    return out


def num_eq(a, b):
    if isinstance(a, (tuple, list)) and isinstance(b, (tuple, list)):
        return len(a) == len(b) and all(num_eq(x, y) for x, y in zip(a, b))
    if isinstance(a, (int, float)) and isinstance(b, (int, float)):
        return close(float(a), float(b))
    return a == b


def summaries_differ(s1, s2):
    if set(s1) != set(s2):
        return "split sets differ: %s vs %s" % (sorted(set(s1) - set(s2)), sorted(set(s2) - set(s1)))
    for k in s1:
        l1, d1 = s1[k]
        l2, d2 = s2[k]
        if not num_eq(l1, l2):
            return "edge length of split %d: %r vs %r" % (k, l1, l2)
        if set(d1) != set(d2):
            return "annotation names of split %d differ" % k
        for a in d1:
            if not num_eq(d1[a], d2[a]):
                return "annotation %s of split %d: %r vs %r" % (a, k, d1[a], d2[a])
    return None


def run_queries(ta, exp_trees):
    """every per-tree / summary query of the statement; returns (result dict, error string or None)"""
    res = {}
    try:
        with time_limit(30):
            n = len(ta)
            res["logprod"] = ta.calculate_log_product_of_split_supports()
            res["sums"] = ta.calculate_sum_of_split_supports()
            res["sbsf"] = ta.split_bitmask_set_frequencies()
            res["tuples"] = [ta.get_split_bitmask_and_edge_tuple(i) for i in range(n)]
            res["iter"] = list(ta)
            res["restored"] = []
            for i in range(n):
                t = ta.restore_tree(i)
                t.encode_bipartitions()
                res["restored"].append(sorted(b.split_bitmask for b in t.bipartition_encoding))
            if n:
                m = ta.maximum_product_of_split_support_tree()
                res["mcc_score"] = m.log_product_of_split_support
                res["mcc"] = summary_of(m)
                ms = ta.maximum_sum_of_split_support_tree()
                res["msum"] = sorted(summary_of(ms))
                res["cons"] = summary_of(ta.consensus_tree(min_freq=float(THETA)))
                res["cons50"] = summary_of(ta.consensus_tree())
                res["conshalf"] = summary_of(ta.consensus_tree(min_freq=0.5))      # ties between conflicting splits possible
                res["conslow"] = summary_of(ta.consensus_tree(min_freq=0.25))     # greedy: the order of candidates matters
                res["topo"] = len(ta.topologies())
    except Exception as e:   # noqa
        return res, "%s: %s" % (type(e).__name__, str(e)[:120])
    return res, None


# ======================================================================================= per-split summaries
def interim_query(dendropy, tns, ta, o, kind):
    """one of the summaries a user may ask for between two additions; results are discarded, exceptions ignored here
    (the final queries report them)"""
    try:
        with time_limit(20):
            sd = ta._split_distribution
            if kind == "cons":
                ta.consensus_tree()
            elif kind == "mcc":
                if len(ta):
                    ta.maximum_product_of_split_support_tree()
            elif kind == "summarize":
                if o.trees:
                    ta.summarize_splits_on_tree(build_tree(dendropy, tns, o.trees[0][0]))
            elif kind == "props_ea":
                sd.split_edge_length_summaries
                sd.split_node_age_summaries
            elif kind == "props_ae":
                sd.split_node_age_summaries
                sd.split_edge_length_summaries
            elif kind == "freq":
                sd.split_frequencies
            elif kind == "restore":
                if len(ta):
                    ta.restore_tree(0, summarize_splits_on_tree=True)
    except Exception as e:   # noqa
        if len(ta) and o.interim_error is None:
            o.interim_error = "%s query between additions raised %s: %s" % (kind, type(e).__name__, str(e)[:100])


SUMMARY_FIELDS = ("mean", "median", "sd", "range")


def late_summaries(dendropy, tns, ta, o, i):
    """what the next caller sees, read *before* anything recomputes the frequencies: the two per-split summary tables (in
    either order) and the edge-length / node-age annotations `summarize_splits_on_tree` puts on a target tree"""
    out = {}
    try:
        with time_limit(30):
            sd = ta._split_distribution
            target = None
            if o.trees and i % 3 != 2:
                target = build_tree(dendropy, tns, o.trees[-1][0])
                if i % 3 == 0:
                    ta.summarize_splits_on_tree(target)
            if i % 2 == 0:
                ages, lens = sd.split_node_age_summaries, sd.split_edge_length_summaries
            else:
                lens, ages = sd.split_edge_length_summaries, sd.split_node_age_summaries
            out["lens"] = {int(k): {f: v.get(f) for f in SUMMARY_FIELDS} for k, v in lens.items()}
            out["ages"] = {int(k): {f: v.get(f) for f in SUMMARY_FIELDS} for k, v in ages.items()}
            if target is not None:
                if i % 3 == 1:
                    ta.summarize_splits_on_tree(target)
                tgt = {}
                for nd in target.postorder_node_iter():
                    ann = dict(nd.annotations.values_as_dict())          # node ages are annotated on the node,
                    ann.update(nd.edge.annotations.values_as_dict())     # edge lengths on its edge
                    tgt[int(nd.edge.bipartition.split_bitmask)] = {k: v for k, v in ann.items()
                                                                   if k.split("_")[0] in ("length", "age") and k.split("_", 1)[1] in SUMMARY_FIELDS}
                out["target"] = tgt
    except Exception as e:   # noqa
        out["error"] = "%s: %s" % (type(e).__name__, str(e)[:120])
    return out


def brute_summary(vals):
    """mean / median / sample sd / range of a list of Fractions, as floats"""
    n = len(vals)
    mean = sum(vals, Fraction(0)) / n
    sv = sorted(vals)
    med = sv[n // 2] if n % 2 else (sv[n // 2 - 1] + sv[n // 2]) / 2
    sd = float("inf") if n == 1 else math.sqrt(float(sum(((x - mean) ** 2 for x in vals), Fraction(0)) / (n - 1)))
    return {"mean": float(mean), "median": float(med), "sd": sd, "range": (float(sv[0]), float(sv[-1]))}


def summaries_wrong(late, exp):
    """clause 'same per-split collections of edge lengths and node ages' as the user reads them: the summary statistics of
    every split equal those of the multiset the trees held give (recomputed here from the tree specifications)"""
    if not late:
        return None
    if "error" in late:
        return "reading the per-split summaries raised %s" % late["error"]
    for table, label in (("lens", "length"), ("ages", "age")):
        want = {int(k): brute_summary([Fraction(x) for x in v]) for k, v in exp["sd"][table] if "N" not in v}
        got = late.get(table, {})
        for s_, w in want.items():
            if s_ not in got:
                return "split %d has no %s summary although the trees held give the values %s" % (s_, label, dict(exp["sd"][table]).get(str(s_)))
            for f in SUMMARY_FIELDS:
                if got[s_][f] is None or not num_eq(got[s_][f], w[f]):
                    return "%s %s of split %d is %r, the trees held give %r" % (label, f, s_, got[s_][f], w[f])
        for s_ in got:
            if s_ not in want and not any(str(s_) == k for k, _ in exp["sd"][table]):
                return "split %d has a %s summary but occurs in no tree held" % (s_, label)
        for s_, ann in late.get("target", {}).items():
            if s_ in want:
                for f in SUMMARY_FIELDS:
                    key = "%s_%s" % (label, f)
                    if key in ann and (ann[key] is None or not num_eq(ann[key], want[s_][f])):
                        return "target tree: %s of split %d is %r, the trees held give %r" % (key, s_, ann[key], want[s_][f])
    return None



# ======================================================================================= settings equal by value, distinct objects
PRECISION_CLASSES = {            # value class -> ways to come by an object of that value (every call makes a NEW object)
    "1e-05": ["parse:1e-05", "parse:0.00001", "mul:1e-05"],
    "0.0001": ["parse:0.0001", "mul:0.0001", "parse:1e-4"],
    "1/4": ["parse:0.25", "frac:1/4", "mul:0.25"],
    "1": ["int:1", "parse:1.0", "frac:1", "mul:1.0"],
}


def fresh_precision(form):
    """an `ultrametricity_precision` given per collection: parsed from text, computed, or an equal int / Fraction"""
    kind, v = form.split(":")
    if kind == "parse":
        return float(v)
    if kind == "mul":
        return float(v) * float("1.0")
    if kind == "int":
        return int(v)
    return Fraction(v)


def transport(ta, tns, via):
    """what happens to a collection between being built and being merged: nothing, a pickle round trip (as through the
    results queue of the worker protocol; the namespace object stays shared) or a deep copy"""
    if via == "pickle":
        import io
        import pickle
        buf = io.BytesIO()

        class P(pickle.Pickler):
            def persistent_id(self, obj):
                return "tns" if obj is tns else None

        class U(pickle.Unpickler):
            def persistent_load(self, pid):
                return tns
        P(buf, pickle.HIGHEST_PROTOCOL).dump(ta)
        buf.seek(0)
        return U(buf).load()
    if via == "deepcopy":
        import copy
        return copy.deepcopy(ta, {id(tns): tns})
    return ta


# ======================================================================================= samples with differing leaf sets
def spec_of(shape, rooted, weight=None):
    """a tree given as nested lists of taxon numbers -> specification (all edge lengths 1, root length undefined)"""
    par, tax = [], []

    def number(sh, p):
        i = len(par)
        par.append(p)
        tax.append("-" if isinstance(sh, list) else str(sh))
        if isinstance(sh, list):
            for c in sh:
                number(c, i)
        return i
    number(shape, -1)
    n = len(par)
    toks = [str(n)] + [str(x) for x in par] + tax + ["N"] + ["1"] * (n - 1) + ["-"] * n
    return {"toks": toks, "rooted": rooted, "weight": None if weight is None else tu.frac(weight)}


def leafset_grid_cases():
    """run first on every run: samples in which one tree lacks a taxon, so that a split is trivial (or the root) in one tree and an
    ordinary internal split in another; the same sample built by every route - add orders, insert, sub-collections (one empty)
    merged with update / extend / += / + in either arrival order.  Per-tree product and sum scores, the maximisers and the MCC
    topology of every array are judged by brute force relative to each tree's OWN leaf set."""
    out = []
    for rooted in (True, False):
        six_a = spec_of([[[[0, 1], [2, 3]], 4], 5], rooted)          # {0123} internal, {01234} trivial
        six_b = spec_of([[[[0, 2], [1, 3]], 4], 5], rooted)
        six_c = spec_of([[[0, 1], [2, 3]], [4, 5]], rooted, Fraction(3, 2))
        five = spec_of([[[0, 1], [2, 3]], 4], rooted)                # {0123} trivial, {01234} its root
        five_b = spec_of([[[0, 2], [1, 3]], 4], rooted)
        tail = spec_of([[1, 2], [[3, 4], 5]], rooted)                # lacks taxon 0
        samples = [[six_a, five, six_b], [five, six_a, six_a, six_b], [six_a, six_c, five, five_b, six_b], [tail, six_c, six_a, five]]
        for sample in samples:
            n = len(sample)
            orders = [list(range(n)), list(reversed(range(n))), list(range(1, n)) + [0]]
            for order in orders:
                out.append({"mode": "hist", "ntaxa": 6, "ops": [["new", None, 1, 1, 1]] + [["add", 0, "add_tree", sample[j]] for j in order]})
            # insert at the front / before the last: the stored order is not the order of the calls
            out.append({"mode": "hist", "ntaxa": 6, "ops": [["new", None, 1, 1, 1]] + [["ins", 0, 0, sample[j]] for j in range(n)]})
            out.append({"mode": "hist", "ntaxa": 6, "ops": [["new", rooted, 1, 1, 1]] + [["ins", 0, -1, sample[j]] for j in range(n)]})
            # two sub-collections and an empty one, merged in either arrival order by every operation
            cut = n // 2
            parts = [list(range(cut)), list(range(cut, n)), []]
            for k, op in enumerate(("upd", "ext", "iadd")):
                for arrival in ([0, 1, 2], [2, 1, 0], [1, 2, 0]):
                    out.append({"mode": "hist", "ntaxa": 6,
                                "ops": partition_history(sample, [1, 1, 1], None, parts, arrival, op, None, None,
                                                         [None, "pickle", None] if k == 0 else None)})
            ops = [["new", None, 1, 1, 1], ["new", None, 1, 1, 1], ["new", None, 1, 1, 1]]
            ops += [["add", 0, "add_tree", sample[j]] for j in parts[0]] + [["add", 1, "append", sample[j]] for j in parts[1]]
            ops += [["plus", 0, 1], ["plus", 1, 0], ["plus", 2, 3], ["plus", 4, 2]]
            out.append({"mode": "hist", "ntaxa": 6, "ops": ops})
    return out


def zero_weight_grid_cases():
    """run first on every run: weighted samples with weight-0 trees - a single one, several, a whole sub-collection, a whole
    file of one worker - merged by every operation in every arrival order (the denominator of every frequency is the sum of the
    weights unless that sum is 0)"""
    out = []
    for rooted in (True, False):
        a = spec_of([[[0, 1], [2, 3]], 4], rooted, Fraction(3, 2))
        b = spec_of([[[0, 2], [1, 3]], 4], rooted, Fraction(1))
        c = spec_of([[0, 1], [[2, 3], 4]], rooted)
        z1 = dict(spec_of([[[0, 3], [1, 2]], 4], rooted), weight="0")
        z2 = dict(a, weight="0")
        for sample, parts in (([a, z1, b], [[0, 2], [1], []]), ([z1, z2, a, b, c], [[2, 3, 4], [0, 1], []]),
                              ([z1, a, z2, b], [[0, 1], [2, 3], []]), ([z1, z2], [[0], [1], []])):
            for op in ("upd", "ext", "iadd"):
                for arrival in ([0, 1, 2], [1, 0, 2], [2, 1, 0]):
                    out.append({"mode": "hist", "ntaxa": 5, "ops": partition_history(sample, [1, 1, 1], None, parts, arrival, op, None)})
            ops = [["new", None, 1, 1, 1], ["new", None, 1, 1, 1]]
            ops += [["add", 0, "add_tree", sample[j]] for j in parts[0]] + [["add", 1, "append", sample[j]] for j in parts[1]]
            ops += [["plus", 0, 1], ["plus", 1, 0]]
            out.append({"mode": "hist", "ntaxa": 5, "ops": ops})
            out.append({"mode": "hist", "ntaxa": 5, "ops": [["new", None, 1, 1, 1]] + [["add", 0, "add_tree", t] for t in reversed(sample)]})
        ua, ub, uz = dict(a, rooted=None), dict(b, rooted=None), dict(z1, rooted=None)
        for files, nw, assignment, arrival in (([[ua, ub], [uz, dict(uz)]], 3, [0, 1], [0, 1, 2]), ([[uz], [ua], [uz, ub]], 3, [2, 0, 1], [2, 1, 0]),
                                               ([[uz, uz], [ub]], 2, [0, 1], [1, 0])):
            out.append({"mode": "sched", "ntaxa": 5, "files": files, "rooted": rooted, "token": None, "flags": [1, 1, 1], "nworkers": nw,
                        "assignment": assignment, "arrival": arrival})
    return out

# ======================================================================================= histories
def err_name(e):
    n = type(e).__name__
    return ERR.get(n, "Internal(%s)" % n)


class Reg(object):
    """oracle-side knowledge of one array: declared rooting, settings (own and of its distribution), the trees it must hold"""

    def __init__(self, decl, flags):
        self.decl = decl
        self.flags = list(flags)
        self.sdflags = list(flags)
        self.trees = []       # list of (spec, record)
        self.tainted = False  # holds data counted under settings other than its own (adoption of foreign settings)
        self.interim_error = None
        self.asserted = False  # an add_tree assert fired on it: the distribution counted a tree the lists do not hold

    def off_domain(self):
        return self.tainted or self.flags != self.sdflags

    def rooting_values(self):
        return {r["rooted"] for _, r in self.trees}


def homogeneous(*tree_lists):
    vals = set()
    for tl in tree_lists:
        for _, r in tl:
            vals.add(r["rooted"])
    return len(vals) <= 1, (next(iter(vals)) if len(vals) == 1 else None)


def merge_must_succeed(dst, src):
    """the statement's 'compatible in rooting and settings' for dst <- src"""
    if not src.trees:
        return True
    if dst.asserted or src.asserted:
        return False      # a failed add_tree assert has already adopted a rooting state the lists do not show
    hom, r = homogeneous(dst.trees, src.trees)
    if not hom:
        return False
    if not dst.trees and dst.decl is not None and dst.decl != r:
        return False
    if dst.trees and dst.flags != src.flags:
        return False
    if not dst.trees and dst.flags != src.flags:
        return False      # adoption of foreign settings: allowed by the code, not demanded by the statement
    return True


def exec_history(ctx, dendropy, case):
    """run one history on the implementation, evaluate the oracle, return (protocol line, impl results, impl canon list)"""
    ntaxa, ops = case["ntaxa"], case["ops"]
    tns = dendropy.TaxonNamespace(["t%d" % i for i in range(ntaxa)])
    full = (1 << ntaxa) - 1
    TA = dendropy.TreeArray
    regs, oracle = [], []
    results = []
    line = ["hist", tu.frac(MODEL_THETA), str(len(ops))]
    failed = False
    merged_nonempty = 0
    merged_empty = 0
    tmpdir = [None]

    def fail(kind, what):
        ctx.fail(kind, what, case)

    nops = 0
    for k, op in enumerate(ops):
        name = op[0]
        res = "ok"
        must = None
        if name == "q":
            # an interim summary between additions: observes, must not change what later summaries say (the model has no
            # caches, so this is not an operation of the model's history)
            if op[1] < len(regs):
                interim_query(dendropy, tns, regs[op[1]], oracle[op[1]], op[2])
            continue
        if name == "read":
            # trees read from one or several sources in ONE call, with a burn-in (tree_offset) that applies to every source:
            # for the model this is the one-at-a-time accession of the trees kept
            if op[1] >= len(regs):
                continue
            d, offset, files, how, r = op[1], op[2], op[3], op[4], op[5]
            o = oracle[d]
            ta = regs[d]
            if how == "data":
                kept = [sp for f in files for sp in f][offset:]
            else:
                kept = [sp for f in files for sp in f[offset:]]
            kept = [dict(sp, rooted=r) for sp in kept]
            recs = [record(sp, want_ages=not o.sdflags[1]) for sp in kept]
            hom, r0 = homogeneous(o.trees, list(zip(kept, recs)))
            must = hom and (bool(o.trees) or o.decl is None or o.decl == r or not kept) and o.flags == o.sdflags
            before = len(ta)
            exc = None
            kw = dict(schema="newick", tree_offset=offset, store_tree_weights=True,
                      rooting={True: "force-rooted", False: "force-unrooted", None: None}[r])
            try:
                with time_limit(30):
                    if how == "data":
                        ta.read(data="\n".join(newick(sp) for f in files for sp in f) + "\n", **kw)
                    else:
                        if tmpdir[0] is None:
                            tmpdir[0] = tempfile.mkdtemp(prefix="c06-")
                        paths = []
                        for fi, f in enumerate(files):
                            pth = os.path.join(tmpdir[0], "r%d-%d.tre" % (k, fi))
                            with open(pth, "w") as fh:
                                fh.write("".join(newick(sp) + "\n" for sp in f))
                            paths.append(pth)
                        if how == "files":
                            ta.read_from_files(files=paths, **kw)
                        else:
                            handles = [open(pth) for pth in paths]
                            try:
                                ta.read_from_files(files=handles, **kw)
                            finally:
                                for h in handles:
                                    h.close()
            except Exception as e:   # noqa
                exc = e
            j = max(0, min(len(ta) - before, len(kept)))
            sent = j + (1 if exc is not None and j < len(kept) else 0)
            for sp, rec in list(zip(kept, recs))[:sent]:
                line += ["add", str(d)] + trec_tokens(rec)
            nops += sent
            results.extend(["ok"] * j)
            o.trees = o.trees + list(zip(kept, recs))[:j]
            if exc is not None:
                res = err_name(exc)
                results.append(res) if sent > j else None
                if must and not failed:
                    failed = True
                    fail("add-rejected", "op %d: reading %d source(s) (burn-in %d, %d trees kept) into a compatible collection raised %s: %s" % (
                        k, len(files), offset, len(kept), type(exc).__name__, str(exc)[:160]))
                if res == "Assertion":
                    o.asserted = True
                elif res not in CLEAN or sent == j:
                    if sent == j:
                        results.append(res)      # an exception although every kept tree is in: not an accession error
                        line[2] = str(nops)
                    break
            elif (len(ta) - before) != len(kept) and not failed:
                failed = True
                fail("per-tree", "op %d: reading %d source(s) with burn-in %d must keep %d trees (every source loses its first %d), the collection grew by %d" % (
                    k, len(files), offset, len(kept), offset, len(ta) - before))
            continue
        if name != "new" and any(x >= len(regs) for x in ((op[1],) if name in ("add", "ins") else (op[1], op[2]))):
            continue      # refers to the result of a `+` that was rejected: not part of the history
        nops += 1
        try:
            with time_limit(20):
                if name == "new":
                    r, il, ia, uw = op[1:5]
                    line += ["new", R(r), str(il), str(ia), str(uw)]
                    kw = {}
                    if len(op) > 5 and op[5]:
                        kw["ultrametricity_precision"] = fresh_precision(op[5])     # equal by value across the history, a new object each
                        ctx.count("new: ultrametricity_precision as a fresh object (%s)" % op[5].split(":")[0])
                    regs.append(TA(taxon_namespace=tns, is_rooted_trees=r, ignore_edge_lengths=bool(il),
                                   ignore_node_ages=bool(ia), use_tree_weights=bool(uw), **kw))
                    oracle.append(Reg(r, [il, ia, uw]))
                elif name in ("add", "ins"):
                    d = op[1]
                    spec = op[-1]
                    o = oracle[d]
                    rec = record(spec, want_ages=not o.sdflags[1])
                    if name == "add":
                        line += ["add", str(d)] + trec_tokens(rec)
                    else:
                        line += ["ins", str(d), str(op[2])] + trec_tokens(rec)
                    hom, r = homogeneous(o.trees, [(spec, rec)])
                    must = hom and (bool(o.trees) or o.decl is None or o.decl == r) and o.flags == o.sdflags
                    tree = build_tree(dendropy, tns, spec)
                    if name == "add":
                        if op[2] == "append":
                            regs[d].append(tree)
                        elif op[2] == "add_trees":
                            regs[d].add_trees(iter([tree]))
                        else:
                            regs[d].add_tree(tree)
                        o_after = o.trees + [(spec, rec)]
                    else:
                        regs[d].insert(op[2], tree)
                        o_after = list(o.trees)
                        o_after.insert(op[2], (spec, rec))
                    o.trees = o_after
                elif name in ("upd", "ext", "iadd"):
                    d, s = op[1], op[2]
                    via = op[3] if len(op) > 3 else None
                    line += [name, str(d), str(s)]
                    must = merge_must_succeed(oracle[d], oracle[s])
                    src = transport(regs[s], tns, via)
                    if via:
                        ctx.count("merge source sent through %s%s" % (via, " (node ages tracked)" if not oracle[s].flags[1] else ""))
                    if name == "upd":
                        regs[d].update(src)
                    elif name == "ext":
                        regs[d].extend(src)
                    else:
                        x = regs[d]
                        x += src
                        regs[d] = x
                    od, os_ = oracle[d], oracle[s]
                    if os_.trees:
                        merged_nonempty += 1 if od.trees else 0
                        if not od.trees:
                            od.flags = list(os_.flags)
                        od.trees = od.trees + os_.trees
                        od.tainted = od.tainted or os_.off_domain()
                        od.asserted = od.asserted or os_.asserted
                    else:
                        merged_empty += 1
                elif name == "plus":
                    a, b = op[1], op[2]
                    line += ["plus", str(a), str(b)]
                    oa, ob = oracle[a], oracle[b]
                    hom, r = homogeneous(oa.trees)
                    decl = r if oa.trees else oa.decl
                    tmp = Reg(decl, oa.flags)
                    tmp.trees = list(oa.trees)
                    must = homogeneous(oa.trees)[0] and not oa.asserted and merge_must_succeed(tmp, ob)
                    via = op[3] if len(op) > 3 else None
                    c = regs[a] + transport(regs[b], tns, via)
                    regs.append(c)
                    if ob.trees and not tmp.trees:
                        tmp.flags = list(ob.flags)
                    tmp.trees = tmp.trees + ob.trees
                    tmp.tainted = (bool(oa.trees) and oa.off_domain()) or (bool(ob.trees) and ob.off_domain())
                    tmp.asserted = oa.asserted or ob.asserted
                    if ob.trees and oa.trees:
                        merged_nonempty += 1
                    if not ob.trees or not oa.trees:
                        merged_empty += 1
                    oracle.append(tmp)
                else:
                    raise ValueError(name)
        except Exception as e:   # noqa
            res = err_name(e)
            if must and not failed:
                failed = True
                fail("merge-rejected" if name not in ("add", "ins") else "add-rejected",
                     "op %d %s on compatible collections raised %s: %s" % (k, op[:3] if name != "new" else op, type(e).__name__, str(e)[:160]))
        results.append(res)
        if res == "Assertion" and name in ("add", "ins"):
            # the one rejection after a mutation: add_tree's length assert fires when the distribution has already counted
            # the tree (the model mirrors that half-update, so the history goes on and the states are still compared)
            oracle[op[1]].asserted = True
        elif res != "ok" and res not in CLEAN:
            break     # unexpected exception: state unknown, the history ends here
    line[2] = str(nops)
    canons = []
    nontrivial_case = merged_nonempty >= 1 or merged_empty >= 1
    theta_float = float(THETA)
    for i, (ta, o) in enumerate(zip(regs, oracle)):
        # first of all, before anything refreshes the frequencies: the per-split summaries as the next caller would see them
        late = late_summaries(dendropy, tns, ta, o, i)
        try:
            ci = canon_impl(ta, theta_float, full)
        except Exception as e:   # noqa
            ci = {"error": "%s: %s" % (type(e).__name__, str(e)[:100])}
        if "error" not in ci:
            ci["late"] = late
            ci["ghost"] = [[e[0] for e in rec["entries"]] for _, rec in o.trees]
        qres, qerr = run_queries(ta, o.trees)
        canons.append((ci, qres, qerr))
        if failed or any(r.startswith("Internal") for r in results):
            continue
        if o.off_domain() or o.asserted:
            # array adopted foreign settings: outside 'compatible in settings'; what must still hold is that the four
            # per-tree lists stay aligned and hold as many trees as were accepted
            if "error" not in ci and (len(set(ci["n4"])) != 1 or ci["n4"][0] != len(o.trees) or
                                      (not o.asserted and ci["sd"]["total"] != len(o.trees))):
                fail("alignment", "array %d (settings adopted from another collection) must hold %d trees; list lengths %s, "
                     "total_trees_counted = %s" % (i, len(o.trees), ci["n4"], ci["sd"]["total"]))
                failed = True
            continue
        if not homogeneous(o.trees)[0]:
            continue
        # ---- oracle on this array
        exp, fr = expected_canon([r for _, r in o.trees], o.flags)
        if "error" in ci:
            fail("query", "array %d: reading the collection raised %s" % (i, ci["error"]))
            failed = True
            continue
        if len(set(ci["n4"])) != 1 or ci["n4"][0] != len(o.trees) or ci["sd"]["total"] != len(o.trees):
            fail("alignment", "array %d must hold %d trees; lengths of (_tree_split_bitmasks, _tree_edge_lengths, _tree_leafset_bitmasks, "
                 "_tree_weights) = %s, total_trees_counted = %s" % (i, len(o.trees), ci["n4"], ci["sd"]["total"]))
            failed = True
            continue
        if qerr:
            fail("query", "array %d (%d trees): a per-tree/summary query raised %s" % (i, len(o.trees), qerr))
            failed = True
            continue
        for key in ("rows", "leafsets", "weights"):
            if ci[key] != exp[key]:
                fail("per-tree", "array %d: stored %s differ from the trees added, in order: %s vs %s" % (i, key, ci[key], exp[key]))
                failed = True
                break
        if failed:
            continue
        for key in ("total", "sumW", "counts", "lens", "ages", "sawR", "sawU"):
            if ci["sd"][key] != exp["sd"][key]:
                fail("counts", "array %d: split distribution field %s is %s, the trees held give %s" % (i, key, ci["sd"][key], exp["sd"][key]))
                failed = True
                break
        if failed:
            continue
        if freq_differs(ci["freq"], exp["freq"]):
            fail("freq", "array %d: split frequencies %s, weighted fractions are %s" % (i, ci["freq"], exp["freq"]))
            failed = True
            continue
        if o.interim_error:
            fail("query", "array %d: %s" % (i, o.interim_error))
            failed = True
            continue
        d = summaries_wrong(ci.get("late"), exp)
        if d:
            fail("summaries", "array %d (%d trees): %s" % (i, len(o.trees), d))
            failed = True
            continue
        if check_queries(fail, i, o, qres, fr, full):
            failed = True
            continue
        if o.trees and (merged_nonempty or merged_empty) and serial_differs(ctx, dendropy, tns, fail, i, o, qres):
            failed = True
    if tmpdir[0] is not None:
        shutil.rmtree(tmpdir[0], ignore_errors=True)
    return " ".join(line), results, canons, nontrivial_case


def check_queries(fail, i, o, qres, fr, full):
    """clause (c) by brute force + 'per-tree queries still work' with the right answers"""
    trees = [r for _, r in o.trees]
    n = len(trees)
    want_sets = [sorted(e[0] for e in r["entries"]) for r in trees]
    for j in range(n):
        sp, el = qres["tuples"][j]
        if sorted(sp) != want_sets[j] or qres["iter"][j][0] != sp:
            fail("per-tree", "array %d: tree %d reads back splits %s, added %s" % (i, j, sorted(sp), want_sets[j]))
            return True
        # restore_tree gives the topology back (non-trivial splits; the restored tree spans the whole namespace)
        got = {s for s in qres["restored"][j] if nontrivial(s, trees[j]["leafset"])}
        want = {s for s in want_sets[j] if nontrivial(s, trees[j]["leafset"])}
        if trees[j]["leafset"] == full and got != want:
            fail("per-tree", "array %d: restore_tree(%d) has non-trivial splits %s, the tree added has %s" % (i, j, sorted(got), sorted(want)))
            return True
    if not n:
        return False
    exact = expected_scores(trees, fr)
    scores, idx = qres["logprod"]
    for j in range(n):
        if not close(scores[j], math.log(exact[j])):
            fail("mcc", "array %d: credibility score of tree %d is %r, product of supports gives log %r" % (i, j, scores[j], math.log(exact[j])))
            return True
    best = max(exact)
    if not close(qres["mcc_score"], math.log(best)):
        fail("mcc", "array %d: maximum credibility score %r, brute force %r" % (i, qres["mcc_score"], math.log(best)))
        return True
    others = [x for x in exact if x != best]
    safe = all(float(x) < float(best) * (1 - 1e-9) for x in others)
    at = [j for j in range(n) if exact[j] == best]
    if safe and idx not in at:
        fail("mcc", "array %d: calculate_log_product_of_split_supports reports tree %s as the maximiser; by brute force the maximum is attained by tree(s) %s" % (i, idx, at))
        return True
    tops = {(trees[j]["leafset"], tuple(want_sets[j])) for j in at}
    same_leafsets = all(r["leafset"] == full for r in trees)
    if len(tops) == 1 and safe and (same_leafsets or all(r["rooted"] for r in trees)):
        # the maximum-credibility topology, read relative to the maximiser's own leaf set (a restored tree spans the whole namespace)
        ls, top = next(iter(tops))
        got = sorted(s for s in qres["mcc"] if (s & ~ls) == 0 and nontrivial(s, ls))
        want = sorted(s for s in top if nontrivial(s, ls))
        if got != want:
            fail("mcc", "array %d: maximum-credibility topology %s, unique maximiser is %s" % (i, got, want))
            return True
    # sum of supports
    ssum, sidx = qres["sums"]
    wsum = []
    for j in range(n):
        want = sum((fr.get(e[0], Fraction(0)) for e in trees[j]["entries"] if qualifies(e[0], trees[j]["leafset"])), Fraction(0))
        wsum.append(want)
        if not close(ssum[j], float(want)):
            fail("mcc", "array %d: sum of supports of tree %d is %r, brute force %r" % (i, j, ssum[j], float(want)))
            return True
    sbest = max(wsum)
    if all(float(x) < float(sbest) - 1e-9 for x in wsum if x != sbest) and wsum[sidx] != sbest:
        fail("mcc", "array %d: calculate_sum_of_split_supports reports tree %s as the maximiser; by brute force the maximum is attained by tree(s) %s" % (
            i, sidx, [j for j in range(n) if wsum[j] == sbest]))
        return True
    # majority-rule consensus: exactly the non-trivial splits with frequency >= theta; support annotation = frequency
    if all(r["leafset"] == full for r in trees):
        from dendropy.utility import constants
        default = Fraction(constants.GREATER_THAN_HALF)     # the library's own default threshold (C05 judges its value)
        for key, th in (("cons", THETA), ("cons50", None)):
            # above one half all candidates are compatible: exactly the splits reaching the threshold.  At the default
            # threshold: every split in more than half of the weight, and nothing below the library's default value
            must = sorted(s for s, f in fr.items() if (f > Fraction(1, 2) if th is None else f >= th) and nontrivial(s, full))
            may = must if th is not None else sorted(s for s, f in fr.items() if f >= default and nontrivial(s, full))
            got = sorted(s for s in qres[key] if nontrivial(s, full))
            if not (set(must) <= set(got) <= set(may)):
                fail("consensus", "array %d: consensus(min_freq=%s) has non-trivial splits %s; splits with frequency %s are %s" % (
                    i, "default" if th is None else th, got, "> 1/2" if th is None else ">= threshold", must))
                return True
            for s in got:
                sup = qres[key][s][1].get("support")
                if sup is None or not close(float(sup), float(fr[s])):
                    fail("consensus", "array %d: support of split %d is %r, frequency is %r" % (i, s, sup, float(fr[s])))
                    return True
    return False


def serial_differs(ctx, dendropy, tns, fail, i, o, qres):
    """relational form of the statement: the merged collection summarises like a serial run over the same trees
    added one at a time in a different (sorted) order"""
    order = sorted(range(len(o.trees)), key=lambda j: (o.trees[j][0]["toks"], str(o.trees[j][0]["weight"])))
    ser = dendropy.TreeArray(taxon_namespace=tns, is_rooted_trees=None, ignore_edge_lengths=bool(o.flags[0]),
                             ignore_node_ages=bool(o.flags[1]), use_tree_weights=bool(o.flags[2]))
    try:
        for j in order:
            ser.add_tree(build_tree(dendropy, tns, o.trees[j][0]))
        sres, serr = run_queries(ser, None)
    except Exception as e:   # noqa
        fail("serial-vs-merged", "array %d: adding its %d trees one at a time to a fresh collection raised %s: %s" % (
            i, len(o.trees), type(e).__name__, str(e)[:120]))
        return True
    if serr:
        fail("serial-vs-merged", "array %d: a query on the one-at-a-time collection over the same trees raised %s" % (i, serr))
        return True
    for key in ("cons", "cons50", "conshalf", "conslow"):
        d = summaries_differ(qres[key], sres[key])
        if d:
            fail("serial-vs-merged", "array %d: %s tree differs from the one-at-a-time run over the same trees: %s" % (i, key, d))
            return True
    if not close(qres["mcc_score"], sres["mcc_score"]):
        fail("serial-vs-merged", "array %d: maximum credibility score %r, one-at-a-time run gives %r" % (i, qres["mcc_score"], sres["mcc_score"]))
        return True
    return False


def compare_ghost(ctx, case, results, canons, p):
    """the model's ghost semantics (`ghostRun`, the subject of history_holds_its_trees) against the harness's own book-keeping
    of which trees every array must hold; the two agree by construction only while no operation is rejected"""
    if any(r != "ok" for r in results) or p.i >= len(p.t) or p.tok() != "G":
        return
    mg = p.lst(lambda: p.lst(lambda: p.lst(p.nat)))
    ctx.count("ghost semantics compared")
    hg = [ci.get("ghost") for ci, _, _ in canons]
    if None not in hg and mg != hg:
        ctx.disagree("hist ghost semantics", case, hg, mg)


def mcc_index_differs(impl_idx, model_idx, scores, tuples=None):
    """the code takes the first strict maximum of float log-sums, the model of exact products: the indices must agree
    whenever the exact maximum is attained once and beats the rest by a safe margin"""
    if not scores:
        return None if (impl_idx is None and model_idx == -1) else "model index %s" % model_idx
    best = max(scores)
    at = [j for j, x in enumerate(scores) if x == best]
    safe = all(float(x) < float(best) * (1 - 1e-9) for x in scores if x != best)
    if not safe:
        return None
    if model_idx != at[0]:
        return "model index %s, first exact maximum at %s" % (model_idx, at[0])
    if len(at) == 1 and impl_idx != at[0]:
        return "model index %s" % model_idx
    if tuples is not None and len({tuple(tuples[j][0]) for j in at}) == 1 and impl_idx != at[0]:
        # the tied trees store the same splits in the same order: their float scores are bit-identical, the first one wins
        return "model index %s (first of the identical maximisers %s)" % (model_idx, at)
    if impl_idx not in at:
        return "exact maximisers %s" % at
    return None


def compare_model(ctx, case, line, results, canons, out):
    """model line -> same canonical forms; any difference is a correspondence disagreement"""
    ctx.compared()
    if out is None:
        return
    if out.strip() == "bad-op":
        ctx.disagree("hist", case, "results %s" % results, "bad-op")
        return
    p = Parser(out.split())
    mres = p.lst(p.tok)
    if mres != results:
        ctx.disagree("hist results", case, results, mres)
        return
    if results and results[-1].startswith("Internal"):
        return     # unexpected exception: the state on the implementation side is unknown
    nregs = p.nat()
    if nregs != len(canons):
        ctx.disagree("hist registers", case, len(canons), nregs)
        return
    for i, (ci, qres, qerr) in enumerate(canons):
        cm, scores, sums, cons = parse_dump(p)
        if "error" in ci:
            ctx.disagree("hist array %d" % i, case, ci["error"], "model dumps the array")
            return
        for key in ("rooting", "flags", "n4", "rows", "rowlens", "leafsets", "weights", "sd"):
            if ci[key] != cm[key]:
                ctx.disagree("hist array %d %s" % (i, key), case, ci[key], cm[key])
                return
        if freq_differs(ci["freq"], cm["freq"]):
            ctx.disagree("hist array %d freq" % i, case, ci["freq"], cm["freq"])
            return
        if means_differ(ci["means"], cm["means"]):
            ctx.disagree("hist array %d mean edge length / node age per split" % i, case, ci["means"], cm["means"])
            return
        if means_differ(ci["spread"], cm["spread"]):
            ctx.disagree("hist array %d variance / range of the edge lengths and node ages per split" % i, case, ci["spread"], cm["spread"])
            return
        if (scores is None) != (qerr is not None and "AssertionError" in qerr):
            if qerr is None or scores is None:
                ctx.disagree("hist array %d queries" % i, case, qerr or "queries ok", "scores %s" % ("assert" if scores is None else "ok"))
                return
        if qerr is None and scores is not None:
            isc, _ = qres["logprod"]
            if len(isc) != len(scores) or any(not close(a, math.log(b)) for a, b in zip(isc, scores)):
                ctx.disagree("hist array %d scores" % i, case, isc, [math.log(b) for b in scores])
                return
            iss, _ = qres["sums"]
            if len(iss) != len(sums) or any(not close(a, float(b)) for a, b in zip(iss, sums)):
                ctx.disagree("hist array %d sums" % i, case, iss, [float(b) for b in sums])
                return
            if scores and ci["n4"][0] and "conslow" in qres:
                full = (1 << case["ntaxa"]) - 1
                lf = ci["leafsets"]
                if all(int(x) == full for x in lf) and len({ci["sd"]["sawR"], 1 - ci["sd"]["sawU"]}) == 1:
                    got = sorted(s for s in qres["conslow"] if nontrivial(s, full))
                    want = greedy_consensus(cons, full, bool(ci["sd"]["sawR"]))
                    if got != want:
                        ctx.disagree("hist array %d greedy consensus (min_freq 1/4)" % i, case, got, want)
                        return
            if scores:
                d = mcc_index_differs(qres["logprod"][1], cm["mccidx"], scores, qres.get("tuples"))
                if d:
                    ctx.disagree("hist array %d mcc index" % i, case, qres["logprod"][1], d)
                    return
    compare_ghost(ctx, case, results, canons, p)


# ---------------------------------------------------------------------------------------- history generators
def gen_history(rng, max_taxa=7, max_ops=14):
    ntaxa = rng.randint(3, max_taxa)
    bits_all = list(range(ntaxa))
    mode = rng.random()
    # rooting plan of the trees
    if mode < 0.42:
        rootings = [True]
    elif mode < 0.84:
        rootings = [False]
    elif mode < 0.90:
        rootings = [None]
    else:
        rootings = rng.choice([[True, False], [None, True], [None, False], [True, False, None]])
    prec_class = rng.choice(sorted(PRECISION_CLASSES)) if rng.random() < 0.4 else None
    ages_mode = rng.random() < (0.7 if prec_class else 0.3)
    weights_mode = rng.random() < 0.4
    mismatch = rng.random() < 0.22

    def prec():
        return [rng.choice(PRECISION_CLASSES[prec_class])] if prec_class else []

    def via():
        return [rng.choice(["pickle", "pickle", "deepcopy"])] if rng.random() < 0.3 else []
    base = [0 if ages_mode or rng.random() < 0.8 else 1, 0 if ages_mode else 1, 1 if weights_mode or rng.random() < 0.7 else 0]
    subsets = rng.random() < 0.2
    tie_mode = rng.random() < 0.15      # two topologies per rooting state, repeated: exact frequency ties
    pool = []

    reg_root = []

    zero_regs = set()        # collections that receive weight-0 trees only: their own weight sum stays 0

    def new_tree(d):
        t = new_tree0(d)
        if weights_mode and d in zero_regs:
            t = dict(t, weight="0")
        return t

    def new_tree0(d):
        # with several rooting states around, each array is mostly filled with trees of "its" state, so that
        # merges of two non-empty arrays of different rooting (to be rejected) are actually reached
        r = reg_root[d] if rng.random() < 0.85 else rng.choice(rootings)
        same = [x for x in pool if x["rooted"] == r]
        if same and (rng.random() < 0.35 or (tie_mode and len(same) >= 2)):
            return rng.choice(same)       # repeated topologies / identical trees
        bits = bits_all
        if subsets and ntaxa > 3 and rng.random() < 0.5:
            bits = rng.sample(bits_all, rng.randint(3, ntaxa))
        w = None
        if weights_mode and rng.random() < 0.7:
            w = Fraction(rng.randint(1, 8), rng.choice([1, 2, 4])) if rng.random() < 0.8 else Fraction(0)
        s = gen_spec(rng, bits, r, ultrametric=ages_mode or rng.random() < 0.1, none_rate=rng.choice([0.0, 0.0, 0.3, 1.0]),
                     weight=w, p_poly=rng.choice([0.0, 0.25, 0.6]), basal2=rng.random() < 0.4)
        pool.append(s)
        return s

    def flags():
        f = list(base)
        if mismatch and rng.random() < 0.5:
            j = rng.randrange(3)
            if not (j == 1 and f[1] == 1):       # ages can only be switched off (trees may not be ultrametric)
                if not (j == 2 and weights_mode):    # keep weights out of the C05 territory (use_tree_weights=False with weighted trees)
                    f[j] = 1 - f[j]
        return f

    def decl():
        x = rng.random()
        if x < 0.55:
            return None
        if len(rootings) == 1 and rootings[0] is not None and x < 0.93:
            return rootings[0]
        return rng.choice([True, False])

    nreg = rng.randint(2, 4)
    if weights_mode and rng.random() < 0.35:
        zero_regs.add(rng.randrange(nreg))
    ops = [["new", decl(), *flags(), *prec()] for _ in range(nreg)]
    reg_root.extend(rng.choice(rootings) for _ in range(nreg))
    nops = rng.randint(3, max_ops)
    count = nreg
    sizes = [0] * nreg
    for _ in range(nops):
        x = rng.random()
        if x < 0.45:
            d = rng.randrange(count)
            if rng.random() < 0.3:
                ops.append(["ins", d, rng.randint(-sizes[d] - 2, sizes[d] + 2), new_tree(d)])
            else:
                ops.append(["add", d, rng.choice(["append", "add_tree", "add_tree", "add_trees"]), new_tree(d)])
            sizes[d] += 1
        elif x < 0.85:
            d = rng.randrange(count)
            s = rng.randrange(count) if rng.random() < 0.92 else d
            ops.append([rng.choice(["upd", "upd", "ext", "iadd"]), d, s, *via()])
            sizes[d] += sizes[s]
        elif x < 0.89:
            # several sources read in one call, with a burn-in that every source loses
            d = rng.randrange(count)
            r = reg_root[d] if rng.random() < 0.85 else rng.choice(rootings)
            nf = rng.randint(1, 3)
            files = [[dict(new_tree(d), rooted=r) for _ in range(rng.randint(1, 3))] for _ in range(nf)]   # (an empty source is a reader error: C20)
            offset = rng.choice([0, 0, 1, 1, 2])
            how = rng.choice(["files", "files", "handles", "data"])
            ops.append(["read", d, offset, files, how, r])
            sizes[d] += sum(len(f) for f in files)
        elif x < 0.93:
            ops.append(["q", rng.randrange(count), rng.choice(["cons", "mcc", "summarize", "props_ea", "props_ae", "freq", "restore"])])
        elif x < 0.97 and count < 6:
            a, b = rng.randrange(count), rng.randrange(count)
            ops.append(["plus", a, b, *via()])
            sizes.append(sizes[a] + sizes[b])
            reg_root.append(reg_root[a])
            count += 1
        elif count < 6:
            ops.append(["new", decl(), *flags(), *prec()])
            sizes.append(0)
            reg_root.append(rng.choice(rootings))
            count += 1
    return {"mode": "hist", "ntaxa": ntaxa, "ops": ops}


def partition_history(specs, flags, decl, parts, arrival, merge_op, master_decl, precs=None, vias=None):
    """build sub-collections `parts` (lists of tree indices, possibly empty), merge them in `arrival` order into a master;
    `precs`: one ultrametricity-precision form per collection (master first), `vias`: how each part travels to the master"""
    ops = [["new", master_decl, *flags] + ([precs[0]] if precs else [])]
    for k, _ in enumerate(parts):
        ops.append(["new", decl, *flags] + ([precs[k + 1]] if precs else []))
    for k, part in enumerate(parts):
        for j in part:
            ops.append(["add", k + 1, "add_tree", specs[j]])
    for k in arrival:
        ops.append([merge_op, 0, k + 1] + ([vias[k]] if vias and vias[k] else []))
    return ops


def run_hist_case(ctx, dendropy, case, pending, kind):
    line, results, canons, nontriv = exec_history(ctx, dendropy, case)
    key = [case["ntaxa"], [[o if not isinstance(o, dict) else [o["toks"], o["rooted"], o["weight"]] for o in op] for op in case["ops"]]]
    ctx.case(key, nontriv, sample={"mode": "hist", "ntaxa": case["ntaxa"], "ops": [[("<tree %s nodes>" % o["toks"][0]) if isinstance(o, dict) else (("<files of %s trees>" % [len(f) for f in o]) if isinstance(o, list) else o)
                                                                                 for o in op] for op in case["ops"]]}, kind=kind)
    for op in case["ops"]:
        ctx.count("op:" + op[0])
    for r in results:
        if r != "ok":
            ctx.count("err:" + r)
    pending.append((line, case, results, canons))


def flush(ctx, pending):
    outs = ctx.ask([p[0] for p in pending])
    for (line, case, results, canons), out in zip(pending, outs):
        if case.get("mode") == "sched" and case.get("choices") is not None:
            compare_async(ctx, case, results, canons, out)
        elif case.get("mode") == "sched":
            compare_sched(ctx, case, results, canons, out)
        else:
            compare_model(ctx, case, line, results, canons, out)
    del pending[:]


# ======================================================================================= SumTrees schedules
class FakeQueue(object):
    """stand-in for multiprocessing.Queue with its *asynchronous* put: an item put by the parent is "in flight" (still in
    the feeder thread) until a schedule step delivers it; `get_nowait` on an empty-but-in-flight queue raises Empty,
    a blocking `get` waits for a delivery.  Roles are recognised by use, not by creation order or attribute names: the
    queue on which the parent blocks is the results queue; queues read by workers are work queues."""

    def __init__(self, sim):
        self.sim = sim
        self.inflight = []
        self.delivered = []
        self.results = []        # (worker index, object) put by workers
        self.items = []          # what the parent will read (filled in arrival order when the simulation is over)
        sim.queues.append(self)

    def put(self, x, *a, **k):
        w = self.sim.current_worker()
        if w is None:
            self.inflight.append(x)
        else:
            # what a worker posts reaches the parent pickled and unpickled (multiprocessing.Queue): equal settings arrive as new objects
            try:
                import pickle
                x = pickle.loads(pickle.dumps(x, pickle.HIGHEST_PROTOCOL))
            except Exception:   # noqa
                self.sim.unpicklable += 1
            self.results.append((w, x))

    put_nowait = put

    def close(self):
        pass

    def join_thread(self):
        pass

    def cancel_join_thread(self):
        pass

    def task_done(self):
        pass

    def join(self):
        pass

    def empty(self):
        return not self.delivered

    def qsize(self):
        return len(self.delivered) + len(self.inflight)

    def get_nowait(self):
        w = self.sim.current_worker()
        if w is None:
            if not self.items:
                raise pyqueue.Empty
            return self.items.pop(0)
        self.sim.sync(w, "nowait", self)
        if not self.delivered:
            raise pyqueue.Empty
        return self.sim.take(w, self)

    def get(self, block=True, timeout=None):
        if not block:
            return self.get_nowait()
        w = self.sim.current_worker()
        if w is None:
            # the parent blocks: this is the collation loop waiting for results
            if not self.sim.ran:
                self.sim.run(self)
            if not self.items:
                raise RuntimeError("collation loop would block: fewer results than workers")
            return self.items.pop(0)
        self.sim.used_block = True
        self.sim.sync(w, "block", self)
        return self.sim.take(w, self)


class FakeLock(object):
    def acquire(self, *a, **k):
        return True

    def release(self):
        pass

    def __enter__(self):
        return self

    def __exit__(self, *a):
        return False


class Sim(object):
    """deterministic stand-in for the OS scheduler.  Every worker's `run()` executes in its own thread, but only one thread
    runs at a time: at each queue operation a worker hands control back, and the `policy` picks the next enabled action:
    ("deliver", q) moves the oldest in-flight item of queue q into the pipe; ("step", i) lets worker i perform its
    pending queue operation and run on to its next one.  A worker blocked in `get` on an empty pipe is not enabled.
    `arrival` = order in which the workers' results reach the parent."""

    def __init__(self, policy, arrival):
        import threading
        self.threading = threading
        self.policy = policy
        self.arrival = arrival
        self.queues = []
        self.started = []
        self.ran = False
        self.back = threading.Semaphore(0)
        self.st = []
        self.by_thread = {}
        self.taken = []          # (item, worker) in the order taken
        self.files = []          # the tree sources handed to parallel_analyze_trees (anything else in a queue is a marker)
        self.used_block = False  # some worker waited in a blocking get(): the end-marker protocol
        self.trace = []          # (chosen index, number of enabled actions)
        self.deadlock = False
        self.unpicklable = 0     # results that could not be pickled (handed over as they are)

    def current_worker(self):
        return self.by_thread.get(self.threading.get_ident())

    def sync(self, w, kind, q):
        st = self.st[w]
        st["pending"] = (kind, q)
        self.back.release()
        st["sem"].acquire()
        st["pending"] = None

    def take(self, w, q):
        x = q.delivered.pop(0)
        self.taken.append((x, w))
        return x

    def _body(self, i, worker):
        self.by_thread[self.threading.get_ident()] = i
        st = self.st[i]
        st["sem"].acquire()
        try:
            worker.run()
        except BaseException as e:   # noqa
            st["exc"] = e
        st["done"] = True
        self.back.release()

    def run(self, results):
        self.ran = True
        for i, w in enumerate(self.started):
            st = {"sem": self.threading.Semaphore(0), "pending": ("start", None), "done": False, "exc": None}
            self.st.append(st)
            t = self.threading.Thread(target=self._body, args=(i, w), daemon=True)
            st["thread"] = t
            t.start()
        while True:
            enabled = []
            for qi, q in enumerate(self.queues):
                if q.inflight:
                    enabled.append(("deliver", qi))
            for i, st in enumerate(self.st):
                if st["done"] or st["pending"] is None:
                    continue
                kind, q = st["pending"]
                if kind in ("start", "nowait") or q.delivered:
                    enabled.append(("step", i))
            if all(st["done"] for st in self.st):
                break
            if not any(a[0] == "step" for a in enabled) and not enabled:
                self.deadlock = True
                break
            k = self.policy(enabled, self) % len(enabled)
            self.trace.append((k, len(enabled)))
            act = enabled[k]
            if act[0] == "deliver":
                q = self.queues[act[1]]
                q.delivered.append(q.inflight.pop(0))
            else:
                self.st[act[1]]["sem"].release()
                self.back.acquire()
        for st in self.st:
            if st["exc"] is not None and not isinstance(st["exc"], Exception):
                raise st["exc"]
        if self.deadlock:
            raise RuntimeError("deadlock: every unfinished worker blocks on an empty work queue")
        for st in self.st:
            if st["exc"] is not None:
                raise st["exc"]
        per = {}
        for w, x in results.results:
            per.setdefault(w, []).append(x)
        results.items = [x for i in self.arrival for x in per.get(i, [])]


def assignment_policy(assignment):
    """the schedules of the first delivery: everything is delivered before any worker asks; file k goes to worker
    assignment[k]; then the remaining workers find the queue empty (or their end-of-work marker)"""
    def policy(enabled, sim):
        for k, a in enumerate(enabled):
            if a[0] == "deliver":
                return k
        nfile = len([1 for x, _ in sim.taken if x in sim.files])
        want = assignment[nfile] if nfile < len(assignment) else None
        steps = [(k, a[1]) for k, a in enumerate(enabled) if a[0] == "step"]
        for k, i in steps:
            if i == want:
                return k
        return steps[0][0] if steps else 0
    return policy


def choice_policy(choices):
    """explicit schedule: the k-th decision takes enabled action number choices[k] (mod the number enabled; 0 afterwards)"""
    def policy(enabled, sim):
        k = len(sim.trace)
        return choices[k] if k < len(choices) else 0
    return policy


def run_parallel(dendropy, sumtrees, files, nworkers, assignment, arrival, rooted, tns, use_weights=True, flags=(0, 1, 1),
                 choices=None, sim_out=None, burnin=0, logfreq=0, prec="parse:0.0001"):
    sim = Sim(choice_policy(choices) if choices is not None else assignment_policy(assignment), arrival)
    if sim_out is not None:
        sim_out.append(sim)
    import multiprocessing as real_mp
    sim.files = list(files)
    make_q = lambda *a, **k: FakeQueue(sim)
    saved = []

    def patch(obj, name, val):
        saved.append((obj, name, obj.__dict__.get(name, None), name in obj.__dict__))
        setattr(obj, name, val)
    # the primitives are replaced in the multiprocessing module itself, in any alias of it and in any name imported from it
    # that the sumtrees module holds, and on the Process base class: no dependence on how sumtrees refers to them
    for name, val in (("Queue", make_q), ("SimpleQueue", make_q), ("JoinableQueue", make_q), ("Lock", FakeLock), ("RLock", FakeLock)):
        orig = getattr(real_mp, name, None)
        patch(real_mp, name, val)
        for attr, cur in list(vars(sumtrees).items()):
            if orig is not None and cur is orig:
                patch(sumtrees, attr, val)       # `from multiprocessing import Queue [as X]`
    patch(real_mp.Process, "start", lambda self: sim.started.append(self))
    patch(real_mp.Process, "terminate", lambda self: None)
    patch(real_mp.Process, "join", lambda self, *a, **k: None)
    patch(real_mp.Process, "is_alive", lambda self: False)
    try:
        tp = sumtrees.TreeProcessor(is_source_trees_rooted=rooted, ignore_edge_lengths=bool(flags[0]), ignore_node_ages=bool(flags[1]),
                                    use_tree_weights=use_weights, ultrametricity_precision=fresh_precision(prec), taxon_label_age_map=None,
                                    num_processes=nworkers, log_frequency=logfreq, messenger=None, debug_mode=True)
        return tp.parallel_analyze_trees(tree_sources=files, schema="newick", taxon_namespace=tns, tree_offset=burnin)
    finally:
        for obj, name, old, had in reversed(saved):
            if had:
                setattr(obj, name, old)
            else:
                try:
                    delattr(obj, name)
                except AttributeError:
                    pass


def run_serial(dendropy, sumtrees, files, rooted, tns, use_weights=True, flags=(0, 1, 1), burnin=0, logfreq=0, prec="parse:0.0001"):
    tp = sumtrees.TreeProcessor(is_source_trees_rooted=rooted, ignore_edge_lengths=bool(flags[0]), ignore_node_ages=bool(flags[1]),
                                use_tree_weights=use_weights, ultrametricity_precision=fresh_precision(prec), taxon_label_age_map=None,
                                num_processes=1, log_frequency=logfreq, messenger=None, debug_mode=True)
    return tp.serial_analyze_trees(files, "newick", taxon_namespace=tns, tree_offset=burnin)


def effective_rooting(src_rooted, token):
    if src_rooted is not None:
        return src_rooted
    return token == "R"


def tree_token(case, fi, ti):
    """the rooting token written in front of tree `ti` of file `fi` (per-tree tokens: files mixing rooting states)"""
    ft = case.get("ftokens")
    return ft[fi][ti] if ft else case["token"]


ROOTING_ERRORS = ("MixedRooting", "IncRooting")


class SchedFiles(object):
    """writes the tree files of a schedule case once; reused across schedules"""

    def __init__(self, case):
        self.dir = tempfile.mkdtemp(prefix="c06-")
        self.paths = []
        for i, f in enumerate(case["files"]):
            p = os.path.join(self.dir, "f%d.tre" % i)
            with open(p, "w") as fh:
                for ti, spec in enumerate(f):
                    fh.write(newick(spec, tree_token(case, i, ti)) + "\n")
            self.paths.append(p)

    def close(self):
        shutil.rmtree(self.dir, ignore_errors=True)


def exec_sched(ctx, dendropy, case, sf=None, serial_cache=None):
    """one schedule on the real collation/worker code + oracle; returns (line, results, canons)"""
    from dendropy.application import sumtrees
    own = sf is None
    sf = sf or SchedFiles(case)
    try:
        ntaxa = case["ntaxa"]
        full = (1 << ntaxa) - 1
        labels = ["t%d" % i for i in range(ntaxa)]
        src = case["rooted"]
        flags = list(case.get("flags", [0, 1, 1]))
        uw = flags[2]
        # without --weighted-trees the reader does not even store the weights
        burnin, logfreq = case.get("burnin", 0), case.get("logfreq", 0)
        recs_all = [[record(dict(s, rooted=effective_rooting(src, tree_token(case, fi, ti)), weight=s["weight"] if uw else None), not flags[1])
                     for ti, s in enumerate(f)] for fi, f in enumerate(case["files"])]
        # the burn-in is lost by EVERY source, whoever reads it and in whichever call (the oracle's own slicing; the model gets the
        # complete files and applies the burn-in in its reading loop)
        recs = [f[burnin:] for f in recs_all]
        mixed = len({r["rooted"] for f in recs for r in f}) > 1
        nw = case["nworkers"]
        par = ser = None
        perr = serr = None
        sims = []
        try:
            with time_limit(60):
                par = run_parallel(dendropy, sumtrees, sf.paths, nw, case.get("assignment"), case["arrival"], src,
                                   dendropy.TaxonNamespace(labels), bool(uw), flags, choices=case.get("choices"), sim_out=sims,
                                   burnin=burnin, logfreq=logfreq, prec=case.get("prec", "parse:0.0001"))
        except Exception as e:   # noqa
            perr = e
        # which worker actually read which file (nw = nobody: the file was dropped)
        took = {x: w for x, w in (sims[0].taken if sims else []) if x in sims[0].files}
        realised = [took.get(pth, nw) for pth in sf.paths]
        dropped = [k for k, a in enumerate(realised) if a == nw]
        if case.get("choices") is not None:
            case = dict(case, trace=[list(x) for x in (sims[0].trace if sims else [])])
            ctx.extra["_last_trace"] = list(sims[0].trace) if sims else []
        taken_by = None
        posted = None
        model_files = recs
        if case.get("choices") is not None:
            # the queue-level protocol model: same schedule, same protocol (end-of-work markers seen <=> blocking get)
            sim = sims[0]
            blocking = 1 if sim.used_block else 0
            index = {pth: k for k, pth in enumerate(sf.paths)}
            taken_by = [[index[x] for x, w in sim.taken if w == i and x in index] for i in range(nw)]
            per = {}
            for q in sim.queues:
                for w, x in q.results:
                    per.setdefault(w, []).append("ok" if not isinstance(x, BaseException) else err_name(x))
            # the result that counts is the first one a worker posts.  (A worker whose read failed posts the exception and then,
            # having left its loop, also its partial array; the parent has re-raised by then and never takes the second item.)
            posted = [per.get(i, ["none"])[0] for i in range(nw)]
            if any(len(v) > 1 for v in per.values()):
                ctx.count("sched-async a failing worker also posts its partial array behind the exception")
            if blocking:
                # end-marker protocol: the model with failing reads, the burn-in applied by its own reading loop, re-raising collation
                model_files = recs_all
                line = ["asyncf", tu.frac(MODEL_THETA), str(burnin), R(src), str(flags[0]), str(flags[1]), str(uw), str(nw),
                        str(len(case["choices"]))] + [str(x) for x in case["choices"]] + [str(nw)] + [str(x) for x in case["arrival"]]
            else:
                line = ["async", tu.frac(MODEL_THETA), R(src), str(flags[0]), str(flags[1]), str(uw), str(blocking), str(nw),
                        str(len(case["choices"]))] + [str(x) for x in case["choices"]] + [str(nw)] + [str(x) for x in case["arrival"]]
            line += [str(len(recs))]
        else:
            model_files = recs_all
            line = ["schedb", tu.frac(MODEL_THETA), str(burnin), R(src), str(flags[0]), str(flags[1]), str(uw), str(nw)] + [str(x) for x in case["arrival"]]
            line += [str(len(recs))] + [str(x) for x in realised]
        for f in model_files:
            line.append(str(len(f)))
            for r in f:
                line += trec_tokens(r)
        if serial_cache is not None and "ser" in serial_cache:
            ser, serr = serial_cache["ser"]
        else:
            try:
                with time_limit(60):
                    ser = run_serial(dendropy, sumtrees, sf.paths, src, dendropy.TaxonNamespace(labels), bool(uw), flags, burnin, logfreq,
                                     prec=case.get("prec", "parse:0.0001"))
            except Exception as e:   # noqa
                serr = e
            if serial_cache is not None:
                serial_cache["ser"] = (ser, serr)
        flat = [r for f in recs for r in f]
        results = [("ok" if perr is None else err_name(perr)), ("ok" if serr is None else err_name(serr))]
        if taken_by is not None:
            results.append(taken_by)
            results.append(posted)
        canons = []
        bad = None
        if mixed:
            # the trees kept are not compatible in rooting: the statement promises no summary; serial and parallel run must agree
            # in refusing the input (which of the two rooting errors surfaces depends on who read what and is the model's business)
            ctx.count("sched mixed-rooting input")
            hang = isinstance(perr, RuntimeError)
            if hang:
                bad = ("sched-hang", "sources of mixed rooting: the serial run %s, the parallel run with %d workers never returns (%s); files->workers %s, queue schedule %s" % (
                    "raises %s" % type(serr).__name__ if serr is not None else "succeeds", nw, str(perr)[:80], realised, case.get("choices")))
            elif (serr is None) != (perr is None):
                bad = ("sched-serial", "sources of mixed rooting: the serial run %s but the parallel run with %d workers %s; files->workers %s, arrival order %s" % (
                    "succeeds" if serr is None else "raises %s" % type(serr).__name__, nw,
                    "succeeds" if perr is None else "raises %s" % type(perr).__name__, realised, case["arrival"]))
        elif serr is not None and perr is not None and type(serr) is type(perr):
            # both runs refuse the input in the same way: nothing to compare (whether the input should be refused is not C06's business)
            ctx.note("sched: serial and parallel run both raised %s" % type(serr).__name__)
            ctx.count("sched both-raise")
        elif serr is not None:
            bad = ("sched-serial", "serial SumTrees run raised %s: %s, the parallel run %s" % (
                type(serr).__name__, str(serr)[:160], "succeeded" if perr is None else "raised %s" % type(perr).__name__))
        elif perr is not None:
            bad = ("sched-rejected", "parallel collation with %d workers, files->workers %s, arrival order %s raised %s: %s; the serial run succeeds" % (
                nw, realised, case["arrival"], type(perr).__name__, str(perr)[:160]))
        elif dropped:
            bad = ("sched-dropped", "parallel run with %d workers finished without error but file(s) %s were read by no worker (a worker "
                   "that finds the work queue empty while items are still in flight quits); files->workers %s, queue schedule %s" % (
                       nw, dropped, realised, case.get("choices")))
        if bad is None and not (mixed and (perr is not None or serr is not None)):
            cp, cs = canon_impl(par, float(THETA), full), canon_impl(ser, float(THETA), full)
            qp, qperr = run_queries(par, None)
            qs, qserr = run_queries(ser, None)
            canons = [(cp, qp, qperr), (cs, qs, qserr)]
            exp, fr = expected_canon(flat, flags)
            if len(set(cp["n4"])) != 1 or cp["n4"][0] != len(flat) or cp["sd"]["total"] != len(flat):
                bad = ("alignment", "master array must hold %d trees; list lengths %s, total_trees_counted %s" % (len(flat), cp["n4"], cp["sd"]["total"]))
            elif qperr or qserr:
                bad = ("query", "query on the %s result raised %s" % ("parallel" if qperr else "serial", qperr or qserr))
            else:
                for key in ("total", "sumW", "counts", "lens", "ages", "sawR", "sawU"):
                    if cp["sd"][key] != exp["sd"][key] or cs["sd"][key] != exp["sd"][key]:
                        bad = ("sched-counts", "split distribution field %s: parallel %s, serial %s, the input trees give %s" % (
                            key, cp["sd"][key], cs["sd"][key], exp["sd"][key]))
                        break
                if bad is None and (freq_differs(cp["freq"], exp["freq"]) or freq_differs(cs["freq"], cp["freq"])):
                    bad = ("sched-counts", "split frequencies: parallel %s, serial %s, expected %s" % (cp["freq"], cs["freq"], exp["freq"]))
                if bad is None and sorted(map(str, cp["rows"])) != sorted(map(str, exp["rows"])):
                    bad = ("sched-counts", "the master array does not hold the input trees (as a multiset)")
                if bad is None and flat:
                    for key in ("cons", "cons50", "conshalf", "conslow"):
                        d = summaries_differ(qp[key], qs[key])
                        if d:
                            bad = ("sched-summary", "%s tree of the parallel run differs from the serial run: %s" % (key, d))
                            break
                    if bad is None and not close(qp["mcc_score"], qs["mcc_score"]):
                        bad = ("sched-summary", "maximum credibility score: parallel %r, serial %r" % (qp["mcc_score"], qs["mcc_score"]))
                    if bad is None:
                        exact = expected_scores(flat, fr)
                        if not close(qp["mcc_score"], math.log(max(exact))):
                            bad = ("sched-summary", "maximum credibility score %r, brute force %r" % (qp["mcc_score"], math.log(max(exact))))
                        best = max(exact)
                        tops = {tuple(sorted(e[0] for e in r["entries"])) for r, x in zip(flat, exact) if x == best}
                        if bad is None and len(tops) == 1 and all(float(x) < float(best) * (1 - 1e-9) for x in exact if x != best):
                            if sorted(qp["mcc"]) != sorted(qs["mcc"]):
                                bad = ("sched-summary", "maximum credibility topology differs between parallel and serial run")
        if bad:
            ctx.fail(bad[0], bad[1], case)
        idle = nw - len(set(a for a in realised if a < nw))
        is_async = case.get("choices") is not None
        ctx.case([case["ntaxa"], case["rooted"], case["token"], case.get("ftokens"), burnin, nw, case.get("assignment"), case.get("trace"), case["arrival"],
                  [[s["toks"] for s in f] for f in case["files"]]], idle > 0 or len(set(realised)) > 1,
                 sample=dict(case, files="<%s trees>" % [len(f) for f in case["files"]]), kind="sched-async" if is_async else "sched")
        ctx.count("sched%s idle=%d" % ("-async" if is_async else "", idle))
        if not flags[1]:
            ctx.count("sched node ages tracked, results pickled through the queue, >= 2 non-empty results" if len(set(a for a in realised if a < nw)) > 1
                      else "sched node ages tracked")
        if sims and sims[0].unpicklable:
            ctx.count("sched a posted result could not be pickled")
        ctx.count("sched files=%d%s" % (len(case["files"]), " (more workers than files)" if nw > len(case["files"]) else ""))
        if burnin and any(len(f) <= burnin for f in case["files"]):
            ctx.count("sched a file entirely burnt in")
        return " ".join(line), results, canons
    finally:
        if own:
            sf.close()


def compare_sched(ctx, case, results, canons, out):
    ctx.compared()
    if out is None:
        return
    toks = out.split()
    if toks == ["bad-op"]:
        ctx.disagree("sched", case, results, "bad-op")
        return
    p = Parser(toks)
    got = []
    for k in range(2):
        r = p.tok()
        if r == "ok":
            cm, scores, sums, cons = parse_dump(p)
            got.append((r, cm, scores))
        else:
            got.append((r, None, None))
    if [g[0] for g in got] != results:
        ctx.disagree("sched results", case, results, [g[0] for g in got])
        return
    for k, (ci, qres, qerr) in enumerate(canons):
        cm = got[k][1]
        if cm is None:
            continue
        for key in ("rooting", "n4", "rows", "leafsets", "weights", "sd"):
            if ci[key] != cm[key]:
                ctx.disagree("sched %s %s" % ("parallel" if k == 0 else "serial", key), case, ci[key], cm[key])
                return
        if freq_differs(ci["freq"], cm["freq"]):
            ctx.disagree("sched %s freq" % ("parallel" if k == 0 else "serial"), case, ci["freq"], cm["freq"])
            return
        if qerr is None and got[k][2] is not None:
            isc, _ = qres["logprod"]
            if len(isc) != len(got[k][2]) or any(not close(a, math.log(b)) for a, b in zip(isc, got[k][2])):
                ctx.disagree("sched scores", case, isc, [math.log(b) for b in got[k][2]])
                return


def compare_async(ctx, case, results, canons, out):
    """queue-level protocol model vs the simulated run of the real worker code: who read which file, and the master array"""
    ctx.compared()
    if out is None:
        return
    toks = out.split()
    if toks == ["bad-op"]:
        ctx.disagree("async", case, results, "bad-op")
        return
    p = Parser(toks)
    mtaken = p.lst(lambda: p.lst(p.nat))
    if mtaken != results[2]:
        ctx.disagree("async files read by each worker", case, results[2], mtaken)
        return
    withf = len(results) > 3 and results[3] is not None and ("S" in toks)
    if withf:
        mposted = p.lst(p.tok)
        if results[0] != "Internal(RuntimeError)" and mposted != results[3]:
            ctx.disagree("async result posted by each worker (array or exception)", case, results[3], mposted)
            return
    r = p.tok()
    impl = "hang" if results[0] == "Internal(RuntimeError)" else results[0]
    if r != impl:
        ctx.disagree("async result", case, impl, r)
        return
    if r == "ok" and canons:
        cm, scores, sums, cons = parse_dump(p)
        ci = canons[0][0]
        for key in ("rooting", "n4", "rows", "leafsets", "weights", "sd"):
            if ci[key] != cm[key]:
                ctx.disagree("async master %s" % key, case, ci[key], cm[key])
                return
    elif r == "ok":
        parse_dump(p)
    if withf:
        if p.tok() != "S":
            ctx.disagree("async output format", case, "S", "?")
            return
        mser = p.tok()
        if mser != results[1]:
            ctx.disagree("async: outcome of the serial run over the same sources", case, results[1], mser)


def gen_sched_files(rng, nfiles, max_taxa=6, max_trees=3, allow_empty_file=False, force_ages=None, allow_subsets=True):
    ntaxa = rng.randint(4, max_taxa)
    weights = rng.random() < 0.4
    ages = rng.random() < 0.4
    if force_ages is not None:
        ages = force_ages
    ties = rng.random() < 0.3          # few distinct topologies, each repeated: exact frequency ties between conflicting splits
    subsets = rng.random() < 0.15      # some trees lack a taxon
    if not allow_subsets:
        subsets = False       # (the command-line program takes its taxa from the first tree of the first source)
    flags = [0 if ages or rng.random() < 0.75 else 1, 0 if ages else 1, 1 if weights or rng.random() < 0.6 else 0]
    files = []
    pool = []
    for _ in range(nfiles):
        k = rng.randint(0 if (allow_empty_file and rng.random() < 0.15) else 1, max_trees)
        f = []
        for _ in range(k):
            if pool and (rng.random() < 0.4 or (ties and len(pool) >= 2)):
                f.append(rng.choice(pool))
                continue
            w = Fraction(rng.randint(1, 6), rng.choice([1, 2, 4])) if weights and not ties and rng.random() < 0.7 else None
            bits = list(range(ntaxa))
            if subsets and rng.random() < 0.4:
                bits = sorted(rng.sample(range(ntaxa), ntaxa - 1))
            s = gen_spec(rng, bits, None, ultrametric=ages, none_rate=0.0 if ages else rng.choice([0.0, 0.3]), weight=w,
                         p_poly=0.0 if ties else rng.choice([0.0, 0.3]), basal2=rng.random() < 0.5)
            pool.append(s)
            f.append(s)
        files.append(f)
    if weights and files and rng.random() < 0.4:
        if rng.random() < 0.6:
            k = rng.randrange(len(files))
            files[k] = [dict(sp, weight="0") for sp in files[k]]       # the worker reading only this file posts a weight sum of 0
        else:
            files = [[dict(sp, weight="0") if rng.random() < 0.3 else sp for sp in f] for f in files]
    mode = rng.random()
    if mode < 0.5:
        rooted, token = None, None
    elif mode < 0.6:
        rooted, token = None, "R"
    elif mode < 0.7:
        rooted, token = None, "U"
    elif mode < 0.85:
        rooted, token = True, rng.choice([None, "R", "U"])
    else:
        rooted, token = False, rng.choice([None, "R", "U"])
    # burn-in (every source loses its first trees) and the two reading loops of the serial run (quiet / with progress logging)
    burnin = rng.choice([0, 0, 1, 1, 2])
    return {"mode": "sched", "ntaxa": ntaxa, "files": files, "rooted": rooted, "token": token, "flags": flags,
            "burnin": burnin, "logfreq": rng.choice([0, 0, 1, 3]),
            "prec": rng.choice(PRECISION_CLASSES[rng.choice(["1e-05", "0.0001", "1/4"])])}


def next_choices(trace):
    """depth-first successor of a finished run: bump the last decision that still has an untried alternative"""
    for j in range(len(trace) - 1, -1, -1):
        k, n = trace[j]
        if k + 1 < n:
            return [t[0] for t in trace[:j]] + [k + 1]
    return None


def explore_async(ctx, dendropy, pending, base, nw, arrival, limit, deadline):
    """every interleaving of item deliveries and worker queue operations (depth-first over the simulator's decisions)"""
    sf = SchedFiles(base)
    cache = {}
    n = 0
    complete = False
    try:
        choices = []
        while choices is not None and n < limit and ctx.time_left() > deadline:
            case = dict(base, nworkers=nw, choices=choices, arrival=arrival)
            line, results, canons = exec_sched(ctx, dendropy, case, sf, cache)
            pending.append((line, case, results, canons))
            n += 1
            trace = ctx.extra.pop("_last_trace", [])
            choices = next_choices(trace)
            if len(pending) >= 100:
                flush(ctx, pending)
        complete = choices is None
    finally:
        sf.close()
    return n, complete


def mix_rootings(rng, base):
    """sources of mixed rooting (the failing-read path): per-tree tokens, the rooting left to the tokens"""
    style = rng.random()
    ft = []
    for fi, f in enumerate(base["files"]):
        if style < 0.5 and len(base["files"]) >= 2:
            t = ["R", "U"][fi % 2] if fi < 2 else rng.choice(["R", "U", None])   # every file homogeneous, the files differ
            ft.append([t] * len(f))
        else:
            ft.append([rng.choice(["R", "U", "U", None]) for _ in f])   # files mixed inside
            if len(f) >= 2 and fi == 0:
                ft[-1][-1], ft[-1][-2] = "R", "U"
    base.update(rooted=None, token=None, ftokens=ft)
    return base


def sample_async(ctx, dendropy, pending, rng, count, deadline):
    k = 0
    while k < count and ctx.time_left() > deadline:
        nfiles = rng.choice([0, 1, 1, 2, 2, 3, 3])
        base = gen_sched_files(rng, nfiles, max_taxa=5, max_trees=rng.choice([2, 2, 3]))
        if nfiles and rng.random() < 0.3:
            base = mix_rootings(rng, base)
        sf = SchedFiles(base)
        cache = {}
        try:
            for _ in range(4):
                nw = rng.randint(2, 4)
                case = dict(base, nworkers=nw, choices=[rng.randrange(4) for _ in range(rng.randint(0, 24))],
                            arrival=rng.sample(range(nw), nw))
                line, results, canons = exec_sched(ctx, dendropy, case, sf, cache)
                pending.append((line, case, results, canons))
                ctx.extra.pop("_last_trace", None)
                k += 1
        finally:
            sf.close()
        if len(pending) >= 100:
            flush(ctx, pending)
    flush(ctx, pending)


# ======================================================================================= real multi-process CLI
def cli_run(args, timeout=120, pin=False):
    code = ("import sys, warnings; warnings.simplefilter('ignore'); sys.path.insert(0, %r); "
            "from dendropy.application import sumtrees; sys.argv = ['sumtrees'] + sys.argv[1:]; sumtrees.main()" % os.path.join(REPO, "src"))
    cmd = [sys.executable, "-c", code] + args
    if pin and shutil.which("taskset"):
        cmd = ["taskset", "-c", "0"] + cmd      # all processes on one CPU: workers start before the feeder thread has flushed
    p = subprocess.run(cmd, stdout=subprocess.PIPE, stderr=subprocess.PIPE, text=True, timeout=timeout)
    return p.returncode, p.stdout, p.stderr


def exec_cli(ctx, dendropy, case):
    """genuine multi-process run vs serial run of the command-line program (smoke test of the fakes)"""
    sf = SchedFiles(case)
    try:
        outs = {}
        for name, extra in (("serial", []), ("par", case["mp"])):
            out = os.path.join(sf.dir, "out-%s.tre" % name)
            args = list(sf.paths) + ["-i", "newick", "-o", out, "-F", "newick", "-q", "--no-analysis-metainformation", "-r",
                                     "--weighted-trees", "-b", str(case.get("burnin", 0))] + extra
            if case.get("cli_ages"):
                # every worker process parses its own copy of the precision; its array comes back pickled
                args += ["--summarize-node-ages", "--ultrametricity-precision", "0.0001"]
            if case["rooted"] is True:
                args.append("--rooted")
            elif case["rooted"] is False:
                args.append("--unrooted")
            rc, so, se = cli_run(args, pin=(name == "par" and case.get("repeat", 0) % 2 == 1))
            if rc != 0 or not os.path.exists(out):
                outs[name] = ("error", (se or so)[-300:])
            else:
                tns = dendropy.TaxonNamespace(["t%d" % i for i in range(case["ntaxa"])])
                t = dendropy.Tree.get(path=out, schema="newick", taxon_namespace=tns, rooting="force-rooted" if case["rooted"] else "force-unrooted")
                t.encode_bipartitions()
                outs[name] = ("ok", {nd.edge.bipartition.split_bitmask: (nd.label, nd.edge.length) for nd in t.postorder_node_iter()})
        ctx.case(["cli", case["mp"], case.get("cli_ages"), case["rooted"], case["token"], [[s["toks"] for s in f] for f in case["files"]]], True, kind="cli")
        ctx.count("cli %s%s" % (" ".join(case["mp"]), " --summarize-node-ages --ultrametricity-precision" if case.get("cli_ages") else ""))
        if outs["serial"][0] != "ok":
            ctx.note("cli: serial sumtrees run failed: %s" % outs["serial"][1])
            return
        if outs["par"][0] != "ok":
            ctx.fail("cli", "sumtrees %s failed where the serial run succeeds: %s" % (" ".join(case["mp"]), outs["par"][1]), case)
            return
        a, b = outs["serial"][1], outs["par"][1]
        if set(a) != set(b) or any(not num_eq(a[k][1], b[k][1]) or a[k][0] != b[k][0] for k in a):
            ctx.fail("cli", "sumtrees %s summary tree differs from the serial run" % " ".join(case["mp"]), case)
    finally:
        sf.close()


# ======================================================================================= entry points
def run(ctx):
    dendropy = __import__("dendropy")
    rng = ctx.rng
    ctx.set_budget(50, 640)
    pending = []
    # ---- the two hand-reproduced defects, always first (cheap, deterministic)
    for case in seed_cases():
        run_any(ctx, dendropy, case, pending)
    # ---- the fixed opening grid: samples whose trees do not share one leaf set, built by every route
    for case in leafset_grid_cases():
        run_hist_case(ctx, dendropy, case, pending, "leafset-grid")
    flush(ctx, pending)
    for case in zero_weight_grid_cases():
        run_any(ctx, dendropy, case, pending)
    flush(ctx, pending)
    # ---- random histories
    t_hist = ctx.pick(19, 200)
    n = 0
    while n < ctx.pick(700, 12000) and (ctx.budget_s - ctx.time_left()) < t_hist:
        case = gen_history(rng, max_taxa=ctx.pick(7, 9), max_ops=ctx.pick(14, 20))
        run_hist_case(ctx, dendropy, case, pending, "hist")
        n += 1
        if len(pending) >= 200:
            flush(ctx, pending)
    flush(ctx, pending)
    # ---- random partition/arrival-order cases (clause b head-on)
    t_part = (ctx.budget_s - ctx.time_left()) + ctx.pick(7, 400)
    for _ in range(ctx.pick(120, 1500)):
        if ctx.out_of_time() or (ctx.budget_s - ctx.time_left()) > t_part:
            break
        run_hist_case(ctx, dendropy, gen_partition_case(rng), pending, "partition")
        if len(pending) >= 200:
            flush(ctx, pending)
    flush(ctx, pending)
    # ---- sampled schedules on the real SumTrees code
    t_sched = ctx.pick(6, 60)
    t0 = ctx.budget_s - ctx.time_left()
    k = 0
    while k < ctx.pick(200, 1500) and (ctx.budget_s - ctx.time_left()) - t0 < t_sched:
        nfiles = rng.randint(1, 4)
        base = gen_sched_files(rng, nfiles)
        sf = SchedFiles(base)
        cache = {}
        try:
            for _ in range(4):
                nw = rng.randint(2, 5)
                case = dict(base, nworkers=nw, assignment=[rng.randrange(nw) for _ in range(nfiles)],
                            arrival=rng.sample(range(nw), nw))
                line, results, canons = exec_sched(ctx, dendropy, case, sf, cache)
                pending.append((line, case, results, canons))
                k += 1
        finally:
            sf.close()
        if len(pending) >= 100:
            flush(ctx, pending)
    flush(ctx, pending)
    # ---- schedules with asynchronous delivery of the work items (multiprocessing.Queue.put returns before the item is in the pipe)
    if ASYNC_IN_QUICK or ctx.tier == "thorough":
        # quick: until the budget is used up; thorough: a slice of 45 s (the exhaustive explorations follow)
        sample_async(ctx, dendropy, pending, rng, ctx.pick(60, 400), ctx.pick(3, ctx.time_left() - 45))
    ctx.extra.pop("_last_trace", None)
    if ctx.tier == "thorough":
        thorough(ctx, dendropy, pending)


def seed_cases():
    t1 = {"toks": "7 -1 0 1 1 0 4 4 - - 0 1 - 2 3 N 1 1/2 1 2 1 1 - - - - - - -".split(), "rooted": True, "weight": None}
    t2 = {"toks": "7 -1 0 1 1 0 4 4 - - 0 2 - 1 3 N 1 1/2 1 2 1 1 - - - - - - -".split(), "rooted": True, "weight": None}
    out = []
    # empty `other` (rooting undefined) arriving after a non-empty one
    for op in ("upd", "ext", "iadd"):
        out.append({"mode": "hist", "ntaxa": 4, "ops": [["new", None, 0, 1, 1], ["new", None, 0, 1, 1], ["add", 0, "add_tree", t1], [op, 0, 1]]})
    # += then per-tree query
    out.append({"mode": "hist", "ntaxa": 4, "ops": [["new", None, 0, 1, 1], ["new", None, 0, 1, 1], ["add", 0, "add_tree", t1],
                                                     ["add", 1, "add_tree", t2], ["add", 1, "add_tree", t1], ["iadd", 0, 1]]})
    out.append({"mode": "hist", "ntaxa": 4, "ops": [["new", None, 0, 1, 1], ["new", None, 0, 1, 1], ["add", 0, "add_tree", t1],
                                                     ["add", 1, "add_tree", t2], ["plus", 0, 1], ["plus", 1, 0]]})
    u1 = dict(t1, rooted=None)
    u2 = dict(t2, rooted=None)
    out.append({"mode": "sched", "ntaxa": 4, "files": [[u1, u1], [u2]], "rooted": None, "token": None, "nworkers": 3,
                "assignment": [0, 1], "arrival": [0, 2, 1]})
    return out


def gen_partition_case(rng, ntrees=None, nparts=None):
    ntaxa = rng.randint(4, 6)
    r = rng.choice([True, False])
    ntrees = ntrees if ntrees is not None else rng.randint(1, 6)
    nparts = nparts if nparts is not None else rng.randint(1, 4)
    ages = rng.random() < 0.45
    wts = rng.random() < 0.4
    flags = [0 if ages or rng.random() < 0.8 else 1, 0 if ages else 1, 1]
    subsets = rng.random() < 0.25       # some trees lack a taxon: scores are relative to each tree's own leaf set

    def bits():
        if subsets and rng.random() < 0.4:
            return sorted(rng.sample(range(ntaxa), ntaxa - 1))
        return list(range(ntaxa))
    specs = [gen_spec(rng, bits(), r, ultrametric=ages, none_rate=rng.choice([0.0, 0.3]),
                      weight=Fraction(rng.randint(1, 6), rng.choice([1, 2])) if wts and rng.random() < 0.6 else None,
                      p_poly=rng.choice([0.0, 0.3]), basal2=rng.random() < 0.4) for _ in range(ntrees)]
    if ntrees >= 2 and rng.random() < 0.5:
        specs[-1] = specs[0]
    if ntrees >= 2 and rng.random() < 0.35:
        # exact frequency ties between conflicting splits: two binary topologies, each in half of an even-sized sample
        a, b = [gen_spec(rng, list(range(ntaxa)), r, ultrametric=ages, none_rate=0.0, p_poly=0.0, basal2=True) for _ in range(2)]
        ntrees = 2 * rng.randint(1, 3)
        specs = [a, b] * (ntrees // 2)
        rng.shuffle(specs)
    parts = [[] for _ in range(nparts)]
    for j in range(ntrees):
        parts[rng.randrange(nparts)].append(j)
    if wts and rng.random() < 0.5:
        # weight-0 trees: one whole sub-collection (its own weight sum is 0), or single trees here and there
        zp = rng.randrange(nparts)
        whole = rng.random() < 0.6
        specs = list(specs)
        for k, part in enumerate(parts):
            for j in part:
                if (whole and k == zp) or (not whole and rng.random() < 0.3):
                    specs[j] = dict(specs[j], weight="0")
        # (trees shared between parts by identity keep one weight: copy them)
        seen = {}
        for k, part in enumerate(parts):
            for j in part:
                seen.setdefault(j, k)
    arrival = rng.sample(range(nparts), nparts)
    decl = rng.choice([None, None, r])
    precs = vias = None
    if rng.random() < 0.5:
        forms = PRECISION_CLASSES[rng.choice(sorted(PRECISION_CLASSES))]
        precs = [rng.choice(forms) for _ in range(nparts + 1)]
    if rng.random() < 0.5:
        vias = [rng.choice([None, "pickle", "pickle", "deepcopy"]) for _ in range(nparts)]
    ops = partition_history(specs, flags, decl, parts, arrival, rng.choice(["upd", "ext", "iadd"]), rng.choice([None, decl]), precs, vias)
    if rng.random() < 0.6:
        # the same trees once more, ONE AT A TIME with interim summaries between the additions: must agree with the merged master
        reg = 1 + len(parts)
        ops.append(["new", decl, *flags] + ([precs[0]] if precs else []))
        for sp in specs:
            ops.append(["add", reg, rng.choice(["append", "add_tree"]), sp])
            for _ in range(rng.randint(0, 2)):
                ops.append(["q", reg, rng.choice(["cons", "mcc", "summarize", "props_ea", "props_ae", "freq", "restore"])])
        ops.append(["q", 0, rng.choice(["cons", "mcc", "summarize"])])
    return {"mode": "hist", "ntaxa": ntaxa, "ops": ops}


def run_any(ctx, dendropy, case, pending):
    mode = case.get("mode", "hist")
    if mode == "hist":
        run_hist_case(ctx, dendropy, case, pending, "seed")
    elif mode == "sched":
        line, results, canons = exec_sched(ctx, dendropy, case)
        pending.append((line, case, results, canons))
    elif mode == "cli":
        exec_cli(ctx, dendropy, case)


def exhaustive_async(ctx, dendropy, pending, configs, adone, deadline):
    rng = ctx.rng
    acount = 0
    for nfiles, nw, mixed in configs:
        base = gen_sched_files(rng, nfiles, max_taxa=5, max_trees=2)
        base.update(rooted=None, token=None)
        if mixed:
            base = mix_rootings(rng, base)
            base["ftokens"] = [["R"] * len(f) if i == 0 else ["U", "R"][:len(f)] for i, f in enumerate(base["files"])]
        n, complete = explore_async(ctx, dendropy, pending, base, nw, list(range(nw)) if not mixed else list(reversed(range(nw))),
                                    3000 if nw == 2 else 1500, deadline)
        acount += n
        adone.append("%d files x %d workers%s: %d interleavings%s" % (nfiles, nw, " (mixed rooting)" if mixed else "", n, "" if complete else " (cut off)"))
    flush(ctx, pending)
    ctx.extra.pop("_last_trace", None)
    return acount


def thorough(ctx, dendropy, pending):
    rng = ctx.rng
    adone = []
    # (0) every interleaving of deliveries and queue operations for the cheapest configurations, first of all
    exhaustive_async(ctx, dendropy, pending, ((1, 2, False), (0, 3, False), (2, 2, True)), adone, 60)
    # (1) every partition of <= 4 trees into <= 3 labelled parts x every arrival order x merge op, both rootings, implicit/explicit
    count = 0
    for ntrees in range(0, 5):
        for nparts in range(1, 4):
            if ntrees == 4 and nparts == 3 and ctx.time_left() < 300:
                continue
            base = {}
            for r in (True, False):
                base[r] = [gen_spec(rng, list(range(4)), r, none_rate=0.2, p_poly=0.3, basal2=rng.random() < 0.5,
                                    weight=Fraction(rng.randint(1, 4), 2) if rng.random() < 0.3 else None) for _ in range(ntrees)]
            for assign in itertools.product(range(nparts), repeat=ntrees):
                parts = [[j for j in range(ntrees) if assign[j] == p] for p in range(nparts)]
                for arrival in itertools.permutations(range(nparts)):
                    r = rng.choice([True, False])
                    for decl in (None, r):
                        op = rng.choice(["upd", "ext", "iadd"])
                        case = {"mode": "hist", "ntaxa": 4, "ops": partition_history(base[r], [0, 1, 1], decl, parts, list(arrival), op, decl)}
                        run_hist_case(ctx, dendropy, case, pending, "partition-exhaustive")
                        count += 1
                if len(pending) >= 300:
                    flush(ctx, pending)
    flush(ctx, pending)
    ctx.extra["exhaustive_partitions"] = "%d cases: every assignment of <= 4 trees to <= 3 sub-collections x every arrival order x implicit/explicit rooting" % count
    # (2) every schedule for <= 3 files x <= 4 workers on the real collation code
    scount = 0
    for nfiles in (1, 2, 3):
        for variant in range(2):
            base = gen_sched_files(rng, nfiles, max_taxa=5, max_trees=2, allow_empty_file=False)
            if variant == 0:
                base["rooted"], base["token"] = None, None       # implicit rooting: the idle-worker race
            sf = SchedFiles(base)
            cache = {}
            try:
                for nw in (2, 3, 4):
                    if ctx.time_left() < 120:
                        ctx.note("thorough: schedule enumeration cut short by the time budget at %d files x %d workers" % (nfiles, nw))
                        break
                    for assignment in itertools.product(range(nw), repeat=nfiles):
                        for arrival in itertools.permutations(range(nw)):
                            case = dict(base, nworkers=nw, assignment=list(assignment), arrival=list(arrival))
                            line, results, canons = exec_sched(ctx, dendropy, case, sf, cache)
                            pending.append((line, case, results, canons))
                            scount += 1
                        if len(pending) >= 100:
                            flush(ctx, pending)
            finally:
                sf.close()
    flush(ctx, pending)
    ctx.extra["exhaustive_schedules"] = "%d schedules: every (file->worker assignment, arrival order) for 1-3 files x 2-4 workers, implicit and random rooting" % scount
    # (2b) ... and for the next larger ones
    exhaustive_async(ctx, dendropy, pending, ((2, 2, False), (1, 3, False)), adone, 150)
    ctx.extra["exhaustive_async"] = "; ".join(adone)
    # (3) genuine multi-process runs of the command-line program, each repeated (scheduling differs from run to run)
    for mp, ages in ((["-M"], False), (["-m", "2"], True), (["-m", "3"], False), (["-M"], True), (["-m", "3"], True)):
        base = gen_sched_files(rng, rng.choice([2, 3]), max_taxa=5, max_trees=2, allow_empty_file=False, force_ages=ages, allow_subsets=False)
        base.update(mode="cli", mp=mp, rooted=True if ages else None, token=None, flags=[0, 0 if ages else 1, 1], cli_ages=ages)
        for rep_ in range(5 if not ages else 3):
            if ctx.time_left() < 30:
                break
            try:
                exec_cli(ctx, dendropy, dict(base, repeat=rep_))
            except subprocess.TimeoutExpired:
                ctx.note("cli %s timed out" % mp)
    ctx.extra["exhaustive"] = False



def decision_table_cases():
    """every combination the decision kernel of update / extend / += / + distinguishes: destination and source empty or not, same or
    different rooting state, same settings or one of the three differing, declared rooting given or not"""
    t = {True: {"toks": "7 -1 0 1 1 0 4 4 - - 0 1 - 2 3 N 1 1/2 1 2 1 1 - - - - - - -".split(), "rooted": True, "weight": None},
         False: {"toks": "7 -1 0 1 1 0 4 4 - - 0 2 - 1 3 N 1 1/2 1 2 1 1 - - - - - - -".split(), "rooted": False, "weight": "3/2"}}
    out = []
    for op in ("upd", "ext", "iadd", "plus"):
        for na in (0, 1, 2):
            for nb in (0, 1):
                for ra, rb in ((True, True), (False, False), (True, False)):
                    for diff in (None, 0, 2):
                        for decl in (None, ra):
                            fa = [0, 1, 1]
                            fb = list(fa)
                            if diff is not None:
                                fb[diff] = 1 - fb[diff]
                            ops = [["new", decl, *fa], ["new", None, *fb]]
                            ops += [["add", 0, "add_tree", t[ra]] for _ in range(na)]
                            ops += [["add", 1, "add_tree", t[rb]] for _ in range(nb)]
                            ops.append([op, 0, 1])
                            ops.append([op, 1, 0])
                            out.append({"mode": "hist", "ntaxa": 4, "ops": ops})
    return out


def burnin_cases():
    t = {"toks": "7 -1 0 1 1 0 4 4 - - 0 1 - 2 3 N 1 1/2 1 2 1 1 - - - - - - -".split(), "rooted": True, "weight": None}
    u = {"toks": "7 -1 0 1 1 0 4 4 - - 0 2 - 1 3 N 1 1/2 1 2 1 1 - - - - - - -".split(), "rooted": True, "weight": None}
    out = []
    for offset in (0, 1, 2, 3):
        for how in ("files", "handles", "data"):
            for files in ([[t, u, t]], [[t, u], [u, t, t]], [[t], [u, u, t], [t, u]]):
                out.append({"mode": "hist", "ntaxa": 4, "ops": [["new", None, 0, 1, 1], ["read", 0, offset, files, how, True]]})
    return out


def fresh_settings_cases():
    """collections with identical settings given as DIFFERENT objects of equal value (ultrametricity precision parsed, computed,
    int / Fraction), with node ages tracked, merged by every operation, directly and after a pickle round trip / deep copy"""
    def ultra(a, b, c, d):
        # ((a,b),(c,d)) with leaf ages 0, cherries at 1, root at 2 (dyadic, exactly ultrametric)
        return {"toks": ("7 -1 0 1 1 0 4 4 - - %d %d - %d %d N 1 1 1 1 1 1 - - - - - - -" % (a, b, c, d)).split(), "rooted": True, "weight": None}
    t, u = ultra(0, 1, 2, 3), ultra(0, 2, 1, 3)
    out = []
    for cls in sorted(PRECISION_CLASSES):
        forms = PRECISION_CLASSES[cls]
        for op in ("upd", "ext", "iadd", "plus"):
            for via in (None, "pickle", "deepcopy"):
                for il in (0, 1):
                    ops = [["new", None, il, 0, 1, forms[0]], ["new", True, il, 0, 1, forms[1 % len(forms)]], ["new", None, il, 0, 1, forms[-1]],
                           ["add", 0, "add_tree", t], ["add", 1, "add_tree", u], ["add", 1, "append", t], ["add", 2, "add_tree", u],
                           [op, 0, 1] + ([via] if via else []), [op, 2, 0] + ([via] if via else []), [op, 0, 0] + ([via] if via else [])]
                    out.append({"mode": "hist", "ntaxa": 4, "ops": ops})
    return out


def search(ctx, broken):
    """an obligation broke (a kernel regenerated from the source no longer equals the model's, the generator met source outside
    its subset, a theorem no longer builds) or the model and the code disagreed: look for an input on which the real code
    contradicts the statement, kernel by kernel - the merge decision table, burn-in reads, first-maximum ties, and every
    interleaving of the worker protocol for the smallest configurations (sources of one rooting state and of mixed rooting)"""
    dendropy = __import__("dendropy")
    pending = []
    before = len(ctx.failures)
    for case in zero_weight_grid_cases() + leafset_grid_cases() + fresh_settings_cases() + decision_table_cases() + burnin_cases():
        run_any(ctx, dendropy, case, pending)
        if len(pending) >= 200:
            flush(ctx, pending)
    flush(ctx, pending)
    ctx.count("search: fresh-object settings + decision table + burn-in histories")
    if len(ctx.failures) > before:
        return
    rng = ctx.rng
    for nfiles, nw, mixed in ((2, 2, "ages"), (1, 2, False), (2, 2, False), (0, 2, False), (2, 2, True), (1, 3, False), (2, 3, False)):
        base = gen_sched_files(rng, nfiles, max_taxa=5, max_trees=2, force_ages=(mixed == "ages"))
        base.update(rooted=None, token=None, burnin=nfiles % 2 if mixed != "ages" else 0)
        mixed = mixed is True
        if mixed:
            base = mix_rootings(rng, base)
            base["ftokens"] = [["R"] * len(f) if i == 0 else ["U"] * len(f) for i, f in enumerate(base["files"])]
        n, complete = explore_async(ctx, dendropy, pending, base, nw, list(reversed(range(nw))), 250, -1e9)
        flush(ctx, pending)
        ctx.count("search: %d interleavings of %d files x %d workers" % (n, nfiles, nw))
        if len(ctx.failures) > before:
            return
    ctx.extra.pop("_last_trace", None)
    # a genuine multi-process run with node ages and an explicit precision against the serial run
    base = gen_sched_files(rng, 2, max_taxa=5, max_trees=2, force_ages=True, allow_subsets=False)
    base.update(mode="cli", mp=["-m", "2"], rooted=True, token=None, flags=[0, 0, 1], cli_ages=True, burnin=0)
    try:
        exec_cli(ctx, dendropy, base)
    except subprocess.TimeoutExpired:
        ctx.note("search: cli run timed out")


def replay(ctx, rec):
    dendropy = __import__("dendropy")
    case = rec["replay"]
    pending = []
    run_any(ctx, dendropy, case, pending)
    flush(ctx, pending)
